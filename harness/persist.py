"""Copies made by the standard library (copy.copy, copy.deepcopy, pickle round trips) and what has to hold for them.

Messages, tracks, files, parsers and backends are plain Python objects; programs copy and pickle them (undo stacks,
multiprocessing queues, caches).  Whatever a property says about an object holds for such a copy as well, and making the
copy must not change the original.  The helpers here are shared by the checks of several properties."""
import copy
import pickle

MAKERS = (
    ('copy.copy', copy.copy),
    ('copy.deepcopy', copy.deepcopy),
    ('pickle round trip', lambda o: pickle.loads(pickle.dumps(o))),
    ('pickle (protocol 0) round trip', lambda o: pickle.loads(pickle.dumps(o, 0))),
)


def clones(obj, deep_only=False):
    """[(how, clone)] — a maker that raises is reported as (how, exception)"""
    out = []
    for how, f in MAKERS:
        if deep_only and how == 'copy.copy':
            continue
        try:
            out.append((how, f(obj)))
        except Exception as e:      # noqa: BLE001 - reported by the caller
            out.append((how, e))
    return out


def snapshot(msg):
    """class, attribute values and their types (a tuple is not a list, a bool is not an int)"""
    return (type(msg).__name__, sorted((k, repr(v), type(v).__name__) for k, v in vars(msg).items()))


def message_clone_failure(mido, msg, what='message'):
    """A message and its standard-library copies: each copy is a message of the same class with the same attribute values of
    the same types, compares equal, and the original is what it was.  Returns a failure text or None."""
    before = snapshot(msg)
    for how, c in clones(msg):
        if isinstance(c, Exception):
            return f'{how} of the {what} {msg!r} raised {type(c).__name__}: {c}'
        if snapshot(msg) != before:
            return f'{how} changed the original {what}: {before} -> {snapshot(msg)}'
        if snapshot(c) != before:
            return f'{how} of the {what} {msg!r} has other attribute values or types: {snapshot(c)} instead of {before}'
        try:
            if not (c == msg) or (c != msg):
                return f'{how} of the {what} {msg!r} does not compare equal to it'
        except Exception as e:      # noqa: BLE001
            return f'comparing the {how} of {msg!r} with it raised {type(e).__name__}: {e}'
    return None


def abuse_vlq_helpers(mido, values=()):
    """The public helpers of mido.midifiles.meta (and an UnknownMetaMessage), used the way programs use them: what they return
    belongs to the caller (it is extended, decoded in place, overwritten, cleared).  None of that may change what is written
    or encoded afterwards."""
    from mido.midifiles import meta
    for n in sorted(set(list(range(0, 131)) + [200, 255, 256, 300, 480, 960, 16383, 16384, 2097151, 2097152] + list(values))):
        try:
            enc = meta.encode_variable_int(n)
            meta.decode_variable_int(enc)              # works on its argument in place
            enc2 = meta.encode_variable_int(n)
            if isinstance(enc2, list):
                enc2 += [1, 2, 3]
                enc2[0] = 0x7f
            enc3 = meta.encode_variable_int(n)
            if isinstance(enc3, list):
                enc3.clear()
            if 0 < n <= 300:
                mido.UnknownMetaMessage(0x0a, [n % 128] * n).bytes()
        except Exception:      # noqa: BLE001 - only the later behaviour is judged
            pass


def abuse_merge_results(mido):
    """What merge_tracks() / MidiFile.merged_track hand out belongs to the caller: padding the final end_of_track, shifting
    events, must not show in any file saved or merged later."""
    try:
        mt = mido.merge_tracks([mido.MidiTrack([mido.Message('note_on', note=1, time=3)]), mido.MidiTrack()])
        mt[-1].time = 960
        mt2 = mido.merge_tracks([mido.MidiTrack([mido.Message('note_on', note=1, time=0)])])
        mt2[-1].time = 555
        mf = mido.MidiFile(tracks=[mido.MidiTrack([mido.Message('note_on', note=2, time=0)])])
        mm = mf.merged_track
        mm[-1].time = 777
        for x in mm:
            x.time = 5
        for m in mf:
            m.time = 9
    except Exception:      # noqa: BLE001 - only the later behaviour is judged
        pass
