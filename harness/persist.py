"""Copies made by the standard library (copy.copy, copy.deepcopy, pickle round trips) and what has to hold for them.

Messages, tracks, files, parsers and backends are plain Python objects; programs copy and pickle them (undo stacks,
multiprocessing queues, caches).  Whatever a property says about an object holds for such a copy as well, and making the
copy must not change the original.  The helpers here are shared by the checks of several properties."""
import copy
import pickle

MAKERS = (
    ('copy.copy', copy.copy),
    ('copy.deepcopy', copy.deepcopy),
    ('pickle round trip', lambda o: pickle.loads(pickle.dumps(o))),
    ('pickle (protocol 0) round trip', lambda o: pickle.loads(pickle.dumps(o, 0))),
)


def clones(obj, deep_only=False):
    """[(how, clone)] — a maker that raises is reported as (how, exception)"""
    out = []
    for how, f in MAKERS:
        if deep_only and how == 'copy.copy':
            continue
        try:
            out.append((how, f(obj)))
        except Exception as e:      # noqa: BLE001 - reported by the caller
            out.append((how, e))
    return out


def snapshot(msg):
    """class, attribute values and their types (a tuple is not a list, a bool is not an int)"""
    return (type(msg).__name__, sorted((k, repr(v), type(v).__name__) for k, v in vars(msg).items()))


def message_clone_failure(mido, msg, what='message'):
    """A message and its standard-library copies: each copy is a message of the same class with the same attribute values of
    the same types, compares equal, and the original is what it was.  Returns a failure text or None."""
    before = snapshot(msg)
    for how, c in clones(msg):
        if isinstance(c, Exception):
            return f'{how} of the {what} {msg!r} raised {type(c).__name__}: {c}'
        if snapshot(msg) != before:
            return f'{how} changed the original {what}: {before} -> {snapshot(msg)}'
        if snapshot(c) != before:
            return f'{how} of the {what} {msg!r} has other attribute values or types: {snapshot(c)} instead of {before}'
        try:
            if not (c == msg) or (c != msg):
                return f'{how} of the {what} {msg!r} does not compare equal to it'
        except Exception as e:      # noqa: BLE001
            return f'comparing the {how} of {msg!r} with it raised {type(e).__name__}: {e}'
    return None
