"""Shared machinery of the mido verification harness.

Everything a property check needs: locating the implementation under test,
building the Lean project, auditing axioms, talking to the model driver,
diffing, evidence, replay files, known findings and the verdict logic.
"""
import fcntl
import hashlib
import json
import logging
import os
import random
import re
import subprocess
import sys
import time

VERIF = os.path.dirname(os.path.dirname(os.path.abspath(__file__)))
REPO = os.environ.get('VERIF_REPO', '/repo')
LEAN_DIR = os.path.join(VERIF, 'lean')
if os.path.realpath(REPO) != '/repo':
    # a run against a scratch tree (VERIF_REPO, used to try patches) regenerates tables and translated sources that differ
    # from /repo's: it works on a private copy of the Lean project (with its build output), removed when the run ends, so
    # that such runs neither disturb /verif/lean nor each other
    import atexit
    import shutil
    import tempfile
    _private = os.path.join(tempfile.gettempdir(), 'verif-lean-%d' % os.getpid())
    # VERIF_LEAN_SRC: copy from a frozen snapshot of the Lean project instead (re-checks of many seeds in the background
    # while /verif/lean is being edited)
    subprocess.run(['cp', '-a', os.environ.get('VERIF_LEAN_SRC', LEAN_DIR), _private], check=True)
    LEAN_DIR = _private
    _owner = os.getpid()
    atexit.register(lambda: os.getpid() == _owner and shutil.rmtree(_private, ignore_errors=True))
DRIVER = os.path.join(LEAN_DIR, '.lake', 'build', 'bin', 'mido_driver')
# evidence describes /repo itself: a run against a scratch tree (VERIF_REPO, used to try patches) writes its evidence elsewhere
EVIDENCE_DIR = os.path.join(VERIF, 'evidence') if os.path.realpath(REPO) == '/repo' else os.path.join(VERIF, 'replays', 'scratch-evidence')
REPLAY_DIR = os.path.join(VERIF, 'replays')
KNOWN_FILE = os.path.join(VERIF, 'known_findings.json')
ALLOWED_AXIOMS = {'propext', 'Classical.choice', 'Quot.sound'}

TRUSTED_BASE = [
    'Lean 4.33 kernel (type-checks every theorem; thorough tier re-checks the .olean files with leanchecker)',
    'axioms: at most propext, Classical.choice, Quot.sound (audited with #print axioms on every run); no native_decide, bv_decide, sorry, admit, own axioms',
    'hand-written Lean model lean/MidoModel/*.lean as a rendering of the Python source, tied to the working tree by the correspondence check of this run, by tables regenerated from the source (MidoModel/Generated/Tables.lean) and, for the parts named in this evidence under source_tie (message codec incl. decode_message/encode_message, checks, tokenizer, Parser class, VLQ, numeric meta specs and meta framing, tracks.py, the MIDI file writer and reader, ports.py, syx.py, parse_address, meta_charset, MidiFile.__iter__ / length / merged_track, backend.py except __init__ / load / module), by definitions TRANSLATED from the source text on this run (harness/py2lean.py -> MidoModel/Generated/Src*.lean) that are proved equal to the hand model (MidoProofs/SrcTie)',
    'the translator harness/py2lean.py (syntax-directed, ~2000 lines), its per-function configuration units() (declared types of parameters and fields, loop fuel, constants such as debug=False, which callees are parameters: Message.from_bytes / build_meta_message / device methods of ports / the spec object of MetaMessage.bytes / message.bin() and hex() in syx.py / the process environment, what the backend module defines and what its classes and get_devices do in backend.py / tick2second in MidiFile.__iter__ and length; files read are parameters, the file written is the result; a @property getter is a function of the fields it reads) and the operator semantics MidoModel/PySem.lean (value semantics for lists and dicts: aliasing is not modelled, decorated or rebound functions are refused; float("inf") as 0 in spec lengths; ports.py in its single-thread reading, with-lock blocks as their bodies); isinstance() tests are resolved from the declared parameter types; PySem is compared with CPython on every run',
    'the harness: generators, canonicalisation, diff, table extractor (harness/*.py)',
    'Lean compiler and runtime of the native driver mido_driver (its output, not the kernel, is diffed against the implementation)',
    'CPython 3.12 semantics of ints, lists, dicts, str methods, struct, codecs, threading.RLock, sockets',
]


class _FormattingSink(logging.Handler):
    """An application may run with logging at DEBUG level and a handler that formats every record (a log file): the
    properties hold in such a process as well.  The checks therefore always run that way: every record of every logger is
    formatted (its arguments evaluated through %r / %s) and thrown away."""

    def emit(self, record):
        try:
            self.format(record)
        except Exception:      # noqa: BLE001 - a failing __repr__ in a log call is the library's business, not the sink's
            pass


def _logging_on():
    root = logging.getLogger()
    if not any(isinstance(h, _FormattingSink) for h in root.handlers):
        root.addHandler(_FormattingSink())
    root.setLevel(logging.DEBUG)
    logging.captureWarnings(False)


_logging_on()


def import_mido():
    """Import mido from the working tree under test and make sure it is that one."""
    if REPO not in sys.path:
        sys.path.insert(0, REPO)
    import mido  # noqa
    root = os.path.realpath(REPO)
    got = os.path.realpath(mido.__file__)
    if not got.startswith(root + os.sep):
        print(f'harness error: mido imported from {got}, expected under {root}')
        sys.exit(2)
    return mido


# --------------------------------------------------------------------------
# Lean side
# --------------------------------------------------------------------------

class BuildResult:
    def __init__(self, ok, log):
        self.ok = ok
        self.log = log


def _lake(args, timeout=3000):
    env = dict(os.environ)
    lock_path = os.path.join(LEAN_DIR, '.build.lock')
    with open(lock_path, 'w') as lock:
        fcntl.flock(lock, fcntl.LOCK_EX)
        try:
            p = subprocess.run(['lake'] + args, cwd=LEAN_DIR, env=env,
                               stdout=subprocess.PIPE, stderr=subprocess.STDOUT,
                               text=True, timeout=timeout)
        finally:
            fcntl.flock(lock, fcntl.LOCK_UN)
    return p.returncode, p.stdout


def lake_build(targets):
    rc, out = _lake(['build'] + list(targets))
    return BuildResult(rc == 0, out)


_AX_RE = re.compile(r"'([^']+)' depends on axioms: \[([^\]]*)\]")
_NOAX_RE = re.compile(r"'([^']+)' does not depend on any axioms")


def axiom_audit(prop_id):
    """Run `#print axioms` for every property theorem of prop_id.

    Returns dict theorem -> list of axioms, plus the raw log.  A theorem whose
    module does not compile is simply missing from the dict."""
    res = {}
    rc_all, out_all = 0, ''
    # the property theorems and the source-tie theorems are audited separately, so that a broken source tie
    # does not hide that the property theorems themselves still check
    for suffix in ('', 'Src'):
        path = os.path.join('MidoProofs', 'Audit', prop_id + suffix + '.lean')
        if not os.path.exists(os.path.join(LEAN_DIR, path)):
            continue
        rc, out = _lake(['env', 'lean', path])
        rc_all |= rc
        out_all += out
        text = out.replace('\n ', ' ').replace('\n  ', ' ')
        for m in _AX_RE.finditer(text):
            res[m.group(1)] = [a.strip() for a in m.group(2).split(',') if a.strip()]
        for m in _NOAX_RE.finditer(text):
            res[m.group(1)] = []
    return res, rc_all, out_all


def audit_theorem_names(prop_id):
    """The obligations registered for a property: every `#print axioms X` line."""
    names = []
    for suffix in ('', 'Src'):
        path = os.path.join(LEAN_DIR, 'MidoProofs', 'Audit', prop_id + suffix + '.lean')
        if not os.path.exists(path):
            continue
        with open(path) as f:
            for line in f:
                m = re.match(r'\s*#print axioms\s+(\S+)', line)
                if m and m.group(1) not in names:
                    names.append(m.group(1))
    return names


_FORBIDDEN = re.compile(r'\b(sorry|admit|native_decide|bv_decide|implemented_by|unsafe)\b|^\s*axiom\s|maxHeartbeats 0')


def grep_forbidden():
    """Source-level audit of the whole Lean tree (comments stripped crudely)."""
    hits = []
    for root, _dirs, files in os.walk(LEAN_DIR):
        if '.lake' in root:
            continue
        for fn in files:
            if not fn.endswith('.lean'):
                continue
            p = os.path.join(root, fn)
            in_block = False
            for i, line in enumerate(open(p), 1):
                s = line
                if in_block:
                    if '-/' in s:
                        in_block = False
                        s = s.split('-/', 1)[1]
                    else:
                        continue
                if '/-' in s and '-/' not in s.split('/-', 1)[1]:
                    in_block = True
                    s = s.split('/-', 1)[0]
                s = re.sub(r'/-.*?-/', '', s)
                s = s.split('--', 1)[0]
                if _FORBIDDEN.search(s):
                    hits.append(f'{os.path.relpath(p, LEAN_DIR)}:{i}: {line.strip()}')
    return hits


class Driver:
    """Batch interface to the native model driver."""

    def __init__(self):
        if not os.path.exists(DRIVER):
            raise RuntimeError('model driver not built: ' + DRIVER)

    def run(self, lines):
        """Send request lines, get response lines (same count)."""
        if not lines:
            return []
        data = '\n'.join(lines) + '\n'
        p = subprocess.run([DRIVER], input=data, stdout=subprocess.PIPE,
                           stderr=subprocess.PIPE, text=True)
        out = p.stdout.split('\n')
        if out and out[-1] == '':
            out.pop()
        if p.returncode != 0 or len(out) != len(lines):
            raise RuntimeError(
                f'driver failure rc={p.returncode} got {len(out)} lines for {len(lines)} requests: {p.stderr[:500]}')
        return out


# --------------------------------------------------------------------------
# Known findings
# --------------------------------------------------------------------------

def load_known(prop_id):
    if not os.path.exists(KNOWN_FILE):
        return []
    with open(KNOWN_FILE) as f:
        data = json.load(f)
    return [e for e in data.get('findings', [])
            if e.get('property') == prop_id and e.get('status') == 'known']


# --------------------------------------------------------------------------
# The check context
# --------------------------------------------------------------------------

# Source tie: which generated-from-source modules (MidoProofs/SrcTie/*.lean over MidoModel/Generated/Src.lean,
# written by harness/py2lean.py on every run) belong to which property, and which source files they render.
SRC_TIE = {
    'C01': ['Codec', 'Msg'], 'C02': ['Codec', 'Msg', 'MsgDecision'], 'C03': ['Codec'],
    'C04': ['Tok', 'Parser', 'ParserSession', 'ParserResync'], 'C05': ['Tok', 'Parser', 'ParserSession'], 'C06': ['Tok', 'Parser', 'ParserSession', 'ParserResync'], 'C18': ['Tok', 'Sockets'], 'C19': ['Tok', 'Parser', 'Syx'],
    'C07': ['Vlq', 'VlqRead', 'Tracks', 'Writer', 'Reader', 'FileRoundTrip'], 'C08': ['Vlq', 'VlqRead', 'Writer', 'Reader', 'FileConformance'], 'C09': ['Meta', 'Vlq', 'MetaFrame', 'MetaRoundTrip'], 'C10': ['Ports', 'PortsIter'], 'C11': ['Ports', 'PortsIter', 'PortsLifecycle'],
    'C12': ['Tracks', 'TracksMerge'], 'C13': ['Timing'], 'C17': ['Charset'], 'C16': ['Tracks', 'MergedTrack'], 'C20': ['Backend'], 'C15': ['Frozen'],
}
SRC_TIE_FILES = {
    'Codec': ['mido/messages/encode.py', 'mido/messages/decode.py', 'mido/messages/checks.py'],
    'Parser': ['mido/parser.py', 'mido/tokenizer.py'],
    'MetaFrame': ['mido/midifiles/meta.py'],
    'Ports': ['mido/ports.py'],
    'Backend': ['mido/backends/backend.py'],
    'Frozen': ['mido/frozen.py'],
    'Timing': ['mido/midifiles/midifiles.py'],
    'Sockets': ['mido/sockets.py'],
    'Syx': ['mido/syx.py', 'mido/parser.py', 'mido/tokenizer.py'],
    'Charset': ['mido/midifiles/meta.py'],
    'TracksMerge': ['mido/midifiles/tracks.py'],
    'MergedTrack': ['mido/midifiles/midifiles.py', 'mido/midifiles/tracks.py'],
    'FileConformance': ['mido/midifiles/midifiles.py', 'mido/midifiles/tracks.py', 'mido/midifiles/meta.py'],
    'PortsLifecycle': ['mido/ports.py'],
    'PortsIter': ['mido/ports.py'],
    'MsgDecision': ['mido/messages/decode.py', 'mido/messages/encode.py', 'mido/messages/specs.py'],
    'MetaRoundTrip': ['mido/midifiles/meta.py'],
    'ParserSession': ['mido/parser.py', 'mido/tokenizer.py'],
    'ParserResync': ['mido/parser.py', 'mido/tokenizer.py'],
    'FileRoundTrip': ['mido/midifiles/midifiles.py', 'mido/midifiles/tracks.py', 'mido/midifiles/meta.py'],
    'Msg': ['mido/messages/decode.py', 'mido/messages/encode.py', 'mido/messages/specs.py'],
    'Tok': ['mido/tokenizer.py'],
    'Meta': ['mido/midifiles/meta.py'],
    'Vlq': ['mido/midifiles/meta.py'],
    'VlqRead': ['mido/midifiles/midifiles.py'],
    'Tracks': ['mido/midifiles/tracks.py'],
    'Writer': ['mido/midifiles/midifiles.py', 'mido/midifiles/tracks.py', 'mido/midifiles/meta.py'],
    'Reader': ['mido/midifiles/midifiles.py'],
}


class Check:
    def __init__(self, prop_id, tier, seed, replay=None):
        self.id = prop_id
        self.tier = tier
        self.seed = seed
        self.rng = random.Random(f'{prop_id}:{seed}')
        self.t0 = time.time()
        self.replay = replay
        self.oracle_failures = []      # (case, reason)
        self.known_hits = {}           # key -> (entry, count, example)
        self.disagreements = []        # (domain, request, impl, model)
        self.broken = []               # strings: theorem / build / audit failures
        self.evaluations = 0
        self.nontrivial = set()
        self.samples = []
        self.hist = {}
        self.domains = {}
        self.exhaustive = {}
        self.obligations = []
        self.discharged = []
        self.axioms = {}
        self.notes = []
        self.traces_validated = 0
        self.known = load_known(prop_id)
        self.matchers = {}
        self._driver = None

    # ----- Lean ------------------------------------------------------------
    def prepare_lean(self, extra_targets=()):
        """Regenerate tables, build proofs + driver, audit axioms (one run at a time: the generated files live in one place)."""
        with open(os.path.join(LEAN_DIR, '.prepare.lock'), 'w') as lock:
            fcntl.flock(lock, fcntl.LOCK_EX)
            try:
                self._prepare_lean(extra_targets)
            finally:
                fcntl.flock(lock, fcntl.LOCK_UN)

    def _prepare_lean(self, extra_targets=()):
        from . import extract_tables
        try:
            extract_tables.regenerate()
        except Exception as e:  # extractor cannot read the tree: tie is broken
            self.broken.append(f'table extraction failed: {type(e).__name__}: {e}')
        # the translated-from-source definitions (and their equivalence proofs) of this property
        tie_mods = [m for m in SRC_TIE.get(self.id, []) if os.path.exists(os.path.join(LEAN_DIR, 'MidoProofs', 'SrcTie', m + '.lean'))]
        if tie_mods:
            from . import py2lean
            try:
                fails = py2lean.regenerate()
            except Exception as e:
                fails = [f'translator crashed: {type(e).__name__}: {e}']
                tie_files = None
            files = {f for m in tie_mods for f in SRC_TIE_FILES[m]}
            for f in fails:
                if any(f.startswith(x) for x in files) or f.startswith('translator') or f.startswith('dispatch'):
                    self.broken.append('source translation failed (py2lean): ' + f)
            extra_targets = list(extra_targets) + [f'MidoProofs.SrcTie.{m}' for m in tie_mods]
        self.obligations = audit_theorem_names(self.id)
        self.extra_targets = [t for t in extra_targets if t.startswith('MidoProofs.')]
        targets = [f'MidoProofs.Props.{self.id}', 'MidoProofs.TableTie', 'mido_driver'] + list(extra_targets)
        b = lake_build(targets)
        self.build_log = b.log
        if not b.ok:
            # find out which part is broken: try the pieces separately
            for t in targets:
                bt = lake_build([t])
                if not bt.ok:
                    errs = [l for l in bt.log.split('\n') if l.startswith('error')][:5]
                    self.broken.append(f'lake build {t} failed: ' + ' | '.join(errs))
        if not os.path.exists(DRIVER):
            print('harness error: driver could not be built\n' + b.log[-3000:])
            sys.exit(2)
        ax, rc, out = axiom_audit(self.id)
        self.axioms = ax
        for name in self.obligations:
            if name not in ax:
                self.broken.append(f'theorem {name} does not check (missing from axiom audit)')
            elif not set(ax[name]) <= ALLOWED_AXIOMS:
                self.broken.append(f'theorem {name} depends on disallowed axioms {ax[name]}')
            else:
                self.discharged.append(name)
        try:
            self.check_pysem()
        except Exception as e:
            self.broken.append(f'operator semantics check (pysem) failed to run: {type(e).__name__}: {e}')
        hits = grep_forbidden()
        if hits:
            self.broken.append('forbidden constructs in Lean sources: ' + '; '.join(hits[:5]))
        if self.tier == 'thorough' and not self.broken:
            mods = [f'MidoProofs.Props.{self.id}'] + [t for t in extra_targets if t.startswith('MidoProofs.')]
            rc, out = _lake(['env', 'leanchecker'] + mods, timeout=3000)
            self.notes.append(f'leanchecker {mods}: rc={rc}')
            if rc != 0:
                self.broken.append('leanchecker rejected ' + ' '.join(mods) + ': ' + out[-300:])

    def check_pysem(self):
        """The operator semantics the source translator relies on (MidoModel/PySem.lean) against CPython, on boundary and
        random operands.  Run by every property that has a source tie."""
        if not SRC_TIE.get(self.id):
            return
        rng = random.Random(f'pysem:{self.seed}')
        vals = [0, 1, -1, 2, -2, 127, 128, -128, 255, 256, -256, 8191, -8192, 16383, 2 ** 31, -2 ** 31, 2 ** 63, -2 ** 63 - 1,
                2 ** 64 + 5, -(2 ** 70) + 3]
        vals += [rng.randint(-2 ** 40, 2 ** 40) for _ in range(60)] + [rng.randint(-300, 300) for _ in range(60)]
        reqs, want = [], []

        def py(f):
            try:
                return 'ok %d' % f()
            except ValueError:
                return 'err ValueError'
            except IndexError:
                return 'err IndexError'
            except TypeError:
                return 'err TypeError'
        for a in vals:
            for b in vals[:12] + [rng.choice(vals) for _ in range(6)]:
                reqs.append(f'pyop land {a} {b}'); want.append('ok %d' % (a & b))
                reqs.append(f'pyop lor {a} {b}'); want.append('ok %d' % (a | b))
            for k in (0, 1, 4, 5, 7, 8, 16, 63, 64, -1):
                reqs.append(f'pyop shl {a} {k}'); want.append(py(lambda: a << k))
                reqs.append(f'pyop shr {a} {k}'); want.append(py(lambda: a >> k))
                if k >= 0:
                    reqs.append(f'pyop shlN {a} {k}'); want.append('ok %d' % (a << k))
                    reqs.append(f'pyop shrN {a} {k}'); want.append('ok %d' % (a >> k))
            reqs.append(f'pyop inv {a}'); want.append(str(~a))
            reqs.append(f'pyop bitlen {a}'); want.append(str(a.bit_length()))
        for b in (0, 1, 2, 7, 255, -1):
            reqs.append(f'pyop pow 2 {b}'); want.append('ok %d' % (2 ** b) if b >= 0 else 'err TypeError')
        for n in (0, 1, 255, 256, 65536, 2 ** 32 - 1, 2 ** 32, -1, 305419896):
            import struct
            try:
                w = 'ok ' + ' '.join(map(str, struct.pack('>L', n)))
            except struct.error:
                w = 'err StructError'
            reqs.append(f'pyop pack {n}'); want.append(w)
        for t3 in ((0, 1, 480), (1, 2, 32767), (2, 0, -32768), (-1, 65535, 1), (1, 1, 32768), (-32769, 0, 0), (1, 256, 96)):
            import struct
            try:
                w = 'ok ' + ' '.join(map(str, struct.pack('>hhh', *t3)))
            except struct.error:
                w = 'err StructError'
            reqs.append('pyop pack16 %d %d %d' % t3); want.append(w)
        import io
        import struct as _st
        for hdr in ([77, 84, 114, 107, 0, 0, 1, 2], [1, 2, 3, 4, 255, 255, 255, 255], [0] * 8, [1, 2, 3], [9] * 9):
            try:
                nm, sz = _st.unpack('>4sL', bytes(hdr))
                w = 'ok %s | %d' % (' '.join(map(str, nm)), sz)
            except _st.error:
                w = 'err StructError'
            reqs.append('pyop unpack4sL ' + ' '.join(map(str, hdr))); want.append(w)
        for d in ([0, 1, 0, 2, 1, 224], [255, 255, 128, 0, 127, 255], [0, 0, 0], [1] * 7):
            try:
                w = 'ok %d %d %d' % _st.unpack('>hhh', bytes(d))
            except _st.error:
                w = 'err StructError'
            reqs.append('pyop unpackHHH ' + ' '.join(map(str, d))); want.append(w)
        for data, n in (([1, 2, 3, 4, 5], 2), ([1, 2, 3], 5), ([], 1), ([7, 8], 0), ([7, 8], -1)):
            f = io.BytesIO(bytes(data))
            got_b = f.read(n) if n >= 0 else b''
            reqs.append('pyop readUpTo %d %s' % (n, ' '.join(map(str, data))))
            want.append('%s | %d' % (' '.join(map(str, got_b)), f.tell()) if n >= 0 else ' | 0')
        for xs in ([], [5], [5, 6, 7]):
            for i in (-4, -3, -1, 0, 1, 2, 3):
                reqs.append('pyop idx %d %s' % (i, ' '.join(map(str, xs)))); want.append(py(lambda: xs[i]))
        for xs in ([], [5], [5, 6, 7, 8, 9]):
            for lo in (-7, -2, -1, 0, 1, 2, 4, 5, 6, 9):
                reqs.append('pyop slicefrom %d %s' % (lo, ' '.join(map(str, xs)))); want.append(' '.join(map(str, xs[lo:])))
                for hi in (-7, -2, 0, 1, 3, 5, 8):
                    reqs.append('pyop slice %d %d %s' % (lo, hi, ' '.join(map(str, xs)))); want.append(' '.join(map(str, xs[lo:hi])))
        # text of SYX files: re.sub(r'\\s', ' ', text) on latin1 text and bytearray.fromhex
        import re as _re
        alphabet = list('0123456789abcdefABCDEF') * 3 + [' ', ' ', '\t', '\n', '\r', '\x0b', '\x0c', '\x1c', '\x1f', '\x85', '\xa0', 'g', 'x', '-', '+', '\xe9', '_']
        for _ in range(150):
            txt = ''.join(rng.choice(alphabet) for _ in range(rng.randint(0, 12)))
            if rng.random() < 0.5:
                txt = ' '.join('%02x' % rng.randint(0, 255) for _ in range(rng.randint(0, 6))) + rng.choice(['', ' ', '\n', '\t', 'f', ' 0'])
            codes = ' '.join(str(ord(c)) for c in txt)
            reqs.append('pyop subws ' + codes); want.append(' '.join(str(ord(c)) for c in _re.sub(r'\s', ' ', txt)))
            try:
                w = 'ok ' + ' '.join(map(str, bytearray.fromhex(txt)))
            except ValueError:
                w = 'err ValueError'
            reqs.append('pyop fromhex ' + codes); want.append(w.rstrip())
        for txt in ('localhost:8080', 'a:b:c', '', ':', '::', 'nocolon', ':9', 'h:', 'x:y:', '\xe9:1'):
            reqs.append('pyop split 58 ' + ' '.join(str(ord(c)) for c in txt)); want.append(' | '.join(' '.join(str(ord(c)) for c in part) for part in txt.split(':')))
        for n in (-2, 0, 1, 5):
            reqs.append(f'pyop range {n}'); want.append(' '.join(map(str, range(n))))
        # dicts: insertion order, d[k] = v on an existing key keeps its place, update(), {k: v for ...} with repeated keys
        keys = ['type', 'time', 'channel', 'note', 'a', 'b']
        for _ in range(60):
            d, toks = {}, []
            for _ in range(rng.randint(1, 6)):
                kind = rng.choice(['set', 'set', 'upd', 'from'])
                if kind == 'set':
                    k, v = rng.choice(keys), rng.randint(-5, 300)
                    d[k] = v
                    toks.append(f'set:{k}:{v}')
                else:
                    ps = [(rng.choice(keys), rng.randint(-5, 300)) for _ in range(rng.randint(0, 4))]
                    if kind == 'upd':
                        d.update(dict(ps) if rng.random() < 0.5 else ps)
                    else:
                        d = {k: v for k, v in ps}
                    toks.append(kind + ':' + ','.join(f'{k}={v}' for k, v in ps))
            reqs.append('pydict ' + ' '.join(toks)); want.append(','.join(f'{k}={v}' for k, v in d.items()))
        got = self.driver.run(reqs)
        self.compare('pysem (operator semantics of the source translator vs CPython)', reqs, want, got)
        self.count('pysem_operator_cases', len(reqs))

    @property
    def driver(self):
        if self._driver is None:
            self._driver = Driver()
        return self._driver

    # ----- bookkeeping -----------------------------------------------------
    def count(self, key, n=1):
        self.hist[key] = self.hist.get(key, 0) + n

    def sample(self, obj, limit=8):
        if len(self.samples) < limit:
            self.samples.append(obj)

    def note_case(self, key, nontrivial=True):
        self.evaluations += 1
        if nontrivial:
            if len(self.nontrivial) < 5_000_000:
                self.nontrivial.add(key if isinstance(key, (int, str, tuple)) else repr(key))

    def add_known_matcher(self, key, fn):
        """fn(case, reason) -> bool; key must equal the 'key' of a known_findings entry."""
        self.matchers[key] = fn

    def oracle_fail(self, case, reason):
        for e in self.known:
            fn = self.matchers.get(e.get('key'))
            if fn is not None and fn(case, reason):
                k = e['key']
                if k not in self.known_hits:
                    self.known_hits[k] = [e, 0, case]
                self.known_hits[k][1] += 1
                return
        if len(self.oracle_failures) < 50:
            self.oracle_failures.append((case, reason))
        self.count('oracle_failures')

    def disagree(self, domain, request, impl, model):
        if len(self.disagreements) < 50:
            self.disagreements.append((domain, request[:400], impl[:400], model[:400]))
        self.count('disagreements:' + domain)

    def compare(self, domain, requests, impl_out, model_out, cases=None, oracle=None):
        """Diff two output streams.  On a difference the property oracle (if given) is
        evaluated at that input first: that is the start of the failing-input search."""
        assert len(requests) == len(impl_out) == len(model_out)
        n = 0
        for i, (r, a, b) in enumerate(zip(requests, impl_out, model_out)):
            if a != b:
                n += 1
                self.disagree(domain, r, a, b)
        d = self.domains.setdefault(domain, {'requests': 0, 'disagreements': 0})
        d['requests'] += len(requests)
        d['disagreements'] += n
        self.traces_validated += len(requests)
        return n

    def run_corpus(self, oracle):
        """Regression corpus (minimised past failures and the inputs of the findings): runs first."""
        path = os.path.join(VERIF, 'corpus', self.id + '.json')
        if not os.path.exists(path):
            return
        with open(path) as f:
            cases = json.load(f)
        for c in cases:
            self.count('corpus')
            self.evaluations += 1
            reason = oracle(c['case'])
            if reason:
                self.oracle_fail(c['case'], reason)

    # ----- verdict ---------------------------------------------------------
    def _write_replay(self, kind, payload):
        os.makedirs(REPLAY_DIR, exist_ok=True)
        body = {'property': self.id, 'kind': kind, 'tier': self.tier, 'seed': self.seed}
        body.update(payload)
        body['replay_cmd'] = f'/venv/bin/python check.py {self.id} --replay <this file>'
        text = json.dumps(body, indent=1, default=repr, sort_keys=True)
        digest = hashlib.sha1(text.encode()).hexdigest()[:10]
        path = os.path.join(REPLAY_DIR, f'{self.id}-{digest}.json')
        with open(path, 'w') as f:
            f.write(text + '\n')
        return os.path.relpath(path, VERIF)

    def finish(self, rule, assumptions=(), extra=None):
        wall = time.time() - self.t0
        violations = 0
        lines = []
        for k, (e, cnt, ex) in sorted(self.known_hits.items()):
            lines.append(f"KNOWN-FINDING: property={self.id} {e['what']} (key={k}, {cnt} inputs this run, e.g. {ex!r})"[:400])
        if self.oracle_failures:
            violations = len(self.oracle_failures)
            case, reason = self.oracle_failures[0]
            path = self._write_replay('impl-violation', {
                'case': case, 'reason': reason,
                'more': [{'case': c, 'reason': r} for c, r in self.oracle_failures[1:10]],
                'broken_obligations': self.broken,
                'disagreements': [dict(domain=d, request=r, impl=a, model=b) for d, r, a, b in self.disagreements[:10]],
            })
            lines.append(f'VIOLATION property={self.id} replay={path}')
        elif self.broken or self.disagreements:
            violations = 1
            path = self._write_replay('no-failing-input-found', {
                'broken_obligations': self.broken,
                'disagreements': [dict(domain=d, request=r, impl=a, model=b) for d, r, a, b in self.disagreements[:20]],
                'explanation': 'a proof obligation or the model/implementation correspondence no longer checks; '
                               'the property oracle found no failing input on the implementation over the domain of this run',
            })
            lines.append(f'VIOLATION property={self.id} replay={path} no-failing-input-found')
        cov = {
            'obligations': len(self.obligations),
            'discharged': len(self.discharged),
            'checker_cmd': f'cd lean && lake build MidoProofs.Props.{self.id} ' + ' '.join(getattr(self, 'extra_targets', [])) + f' MidoProofs.TableTie && lake env lean MidoProofs/Audit/{self.id}.lean',
            'trusted_base': TRUSTED_BASE,
            'theorems': {n: self.axioms.get(n) for n in self.obligations},
            'broken': self.broken,
            'evaluations': self.evaluations,
            'distinct_nontrivial': len(self.nontrivial),
            'rule': rule,
            'samples': self.samples[:8],
            'traces_validated_against_impl': self.traces_validated,
            'correspondence_domains': self.domains,
            'exhaustive': bool(self.exhaustive) and all(self.exhaustive.values()),
            'exhaustive_parts': self.exhaustive,
            'input_distribution': dict(sorted(self.hist.items())),
            'disagreements_examined': len(self.disagreements),
            'known_findings_hit': {k: v[1] for k, v in self.known_hits.items()},
            'notes': self.notes,
        }
        if extra:
            cov.update(extra)
        ev = {
            'property_id': self.id, 'tier': self.tier, 'seed': self.seed, 'level': 'proof',
            'coverage': cov, 'assumptions': list(assumptions), 'wall_s': round(wall, 2),
            'violations': violations,
        }
        os.makedirs(EVIDENCE_DIR, exist_ok=True)
        with open(os.path.join(EVIDENCE_DIR, self.id + '.json'), 'w') as f:
            json.dump(ev, f, indent=1, default=repr)
            f.write('\n')
        for l in lines:
            print(l)
        print(f'{self.id} tier={self.tier} seed={self.seed}: obligations {len(self.discharged)}/{len(self.obligations)}, '
              f'{self.evaluations} evaluations, {self.traces_validated} model/impl comparisons, '
              f'{len(self.disagreements)} disagreements, {violations} violations, {wall:.1f}s')
        return 1 if violations else 0


def chunks(lst, n):
    for i in range(0, len(lst), n):
        yield lst[i:i + n]


class HarnessTimeout(Exception):
    pass


def pool_map(fn, items, procs=None, chunksize=1):
    """multiprocessing map with a fork pool (the workers inherit the imported mido)."""
    import multiprocessing as mp
    procs = procs or min(16, os.cpu_count() or 1)
    if procs <= 1 or len(items) <= 1:
        return [fn(x) for x in items]
    ctx = mp.get_context('fork')
    with ctx.Pool(procs) as pool:
        return pool.map(fn, items, chunksize)


def generic_replay(ck, rp, oracle):
    """Re-execute the case of a replay file against the working tree."""
    if rp.get('kind') == 'impl-violation':
        reason = oracle(rp['case'])
        if reason:
            print(f'VIOLATION property={ck.id} replay={ck.replay and "<given>"}')
            print('reproduced:', reason)
            return 1
        print('not reproduced: the oracle accepts this case on the current tree')
        return 0
    print('replay of a no-failing-input-found report: re-run the check itself; broken obligations were:')
    for b in rp.get('broken_obligations', []):
        print('  ', b)
    for d in rp.get('disagreements', [])[:5]:
        print('  ', d)
    return 0


_ERR_NAMES = ['ValueError', 'TypeError', 'AttributeError', 'LookupError', 'IndexError', 'KeyError',
              'OSError', 'EOFError', 'UnicodeError', 'KeySignatureError', 'StructError', 'Hang']


def exc_name(e):
    """Map an exception to the model's small enum (class, never message text)."""
    n = type(e).__name__
    if n in _ERR_NAMES:
        return n
    if n == 'error' and type(e).__module__ == 'struct':
        return 'StructError'
    if isinstance(e, UnicodeError):
        return 'UnicodeError'
    for base in ('KeyError', 'IndexError', 'LookupError', 'EOFError', 'OSError', 'AttributeError',
                 'TypeError', 'ValueError'):
        import builtins
        if isinstance(e, getattr(builtins, base)):
            return base
    return 'Other'
