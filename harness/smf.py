"""Standard MIDI File vocabulary of the harness: event descriptions, an independent reference
decoder and an alternative-encoding generator, written from the SMF 1.0 specification (not
from mido)."""
from fractions import Fraction

from . import metas, msgs

# An event is (time, kind, a, b):  ('msg', type, attrs) | ('meta', type, attrs) | ('umeta', type_byte, data)


def build_event(ev):
    import mido
    time, kind, a, b = ev
    if kind == 'msg':
        return mido.Message(a, time=0, **b).copy(time=time) if _ok_time(time) else _force_time(mido.Message(a, **b), time)
    if kind == 'meta':
        m = mido.MetaMessage(a, **b)
        return m.copy(time=time) if _ok_time(time) else _force_time(m, time)
    m = mido.UnknownMetaMessage(a, data=b)
    m.time = time
    return m


def _ok_time(t):
    return isinstance(t, (int, float)) and not isinstance(t, bool) or isinstance(t, bool)


def _force_time(m, t):
    vars(m)['time'] = t
    return m


def build_file(desc):
    import mido
    tracks = [mido.MidiTrack(build_event(e) for e in tr) for tr in desc['tracks']]
    f = mido.MidiFile(type=desc['type'] if desc['type'] in (0, 1, 2) else 1, ticks_per_beat=desc['tpb'], tracks=tracks,
                      charset=desc.get('charset', 'latin1'))
    f.type = desc['type']
    return f


def event_token(ev):
    time, kind, a, b = ev
    t = metas.val_tok(time)
    if kind == 'msg':
        return t + ';msg;' + msgs.canon_vals(a, _with_defaults(a, b)).replace(' ', ';')
    if kind == 'meta':
        _, attrs = metas.META[a]
        fb = full_meta(a, b)
        vals = [metas.val_tok(fb[n]) for n, _ in attrs]
        return t + ';meta;' + ';'.join([a] + vals)
    return t + ';umeta;%d;%s' % (a, ','.join(str(x) for x in b))


def _with_defaults(type_, d):
    _, names = msgs.TYPES[type_]
    out = {}
    for n in names:
        out[n] = d.get(n, () if n == 'data' else msgs.DEFAULTS[n])
    return out


def loaded_token(m):
    """Protocol token of a message object loaded from a file."""
    if m.type == 'unknown_meta':
        return '%d;umeta;%d;%s' % (m.time, m.type_byte, ','.join(str(x) for x in m.data))
    if m.is_meta:
        return '%d;meta;' % m.time + metas.canon_meta(m)[6:].replace(' ', ';')
    return '%d;msg;' % m.time + msgs.canon_msg(m).replace(' ', ';')


def file_line(mid):
    return '%d %d' % (mid.type, mid.ticks_per_beat) + ''.join(
        ' |' + ''.join(' ' + loaded_token(m) for m in tr) for tr in mid.tracks)


META_DEFAULTS = {
    'sequence_number': {'number': 0}, 'channel_prefix': {'channel': 0}, 'midi_port': {'port': 0},
    'end_of_track': {}, 'set_tempo': {'tempo': 500000},
    'smpte_offset': {'frame_rate': 24, 'hours': 0, 'minutes': 0, 'seconds': 0, 'frames': 0, 'sub_frames': 0},
    'time_signature': {'numerator': 4, 'denominator': 4, 'clocks_per_click': 24, 'notated_32nd_notes_per_beat': 8},
    'key_signature': {'key': 'C'}, 'sequencer_specific': {'data': ()},
}
for _t in metas.TEXT_TYPES:
    META_DEFAULTS[_t] = {metas.META[_t][1][0][0]: ''}


def full_meta(type_, d):
    out = dict(META_DEFAULTS[type_])
    out.update(d)
    return out


# --------------------------------------------------------------------------
# reference decoder (SMF 1.0)
# --------------------------------------------------------------------------

class SmfError(Exception):
    pass


def _vlq(bs, i, require_minimal):
    v = 0
    n = 0
    while True:
        if i >= len(bs):
            raise SmfError('eof in vlq')
        b = bs[i]
        i += 1
        n += 1
        v = (v << 7) | (b & 0x7f)
        if require_minimal and n == 1 and b == 0x80:
            raise SmfError('non-minimal vlq')
        if b < 0x80:
            return v, i


def ref_decode(bs, require_minimal=False, report=None):
    """Decode file bytes to (type, ntracks, tpb, [tracks of (delta, kind, a, b)]).
    Channel events: ('chan', status, data).  Checks chunk lengths exactly.  `report`, if a
    dict, receives the observations used by the C08 oracle (running status use, final event)."""
    bs = list(bs)
    if bs[:4] != [0x4d, 0x54, 0x68, 0x64]:
        raise SmfError('no MThd')
    hl = int.from_bytes(bytes(bs[4:8]), 'big')
    if hl < 6 or len(bs) < 8 + hl:
        raise SmfError('bad header')
    ty = int.from_bytes(bytes(bs[8:10]), 'big', signed=True)
    ntr = int.from_bytes(bytes(bs[10:12]), 'big', signed=True)
    tpb = int.from_bytes(bytes(bs[12:14]), 'big', signed=True)
    i = 8 + hl
    tracks = []
    for _ in range(max(ntr, 0)):
        if bs[i:i + 4] != [0x4d, 0x54, 0x72, 0x6b]:
            raise SmfError('no MTrk')
        ln = int.from_bytes(bytes(bs[i + 4:i + 8]), 'big')
        i += 8
        end = i + ln
        if end > len(bs):
            raise SmfError('chunk longer than file')
        evs = []
        running = None
        uses = []
        while i < end:
            delta, i = _vlq(bs, i, require_minimal)
            if i >= end:
                raise SmfError('eof after delta')
            b = bs[i]
            if b == 0xff:
                ty_b = bs[i + 1]
                ln2, j = _vlq(bs, i + 2, require_minimal)
                data = bs[j:j + ln2]
                if j + ln2 > end:
                    raise SmfError('meta overruns chunk')
                evs.append((delta, 'meta', ty_b, data))
                i = j + ln2
                running = None
                uses.append('meta')
            elif b == 0xf0:
                ln2, j = _vlq(bs, i + 1, require_minimal)
                data = bs[j:j + ln2]
                if j + ln2 > end or not data or data[-1] != 0xf7:
                    raise SmfError('bad sysex')
                evs.append((delta, 'sysex', None, data[:-1]))
                i = j + ln2
                running = None
                uses.append('sysex')
            elif b >= 0xf1:
                n = {0xf1: 1, 0xf2: 2, 0xf3: 1, 0xf6: 0}.get(b)
                if n is None:
                    raise SmfError('status %02x not allowed in a file' % b)
                evs.append((delta, 'chan', b, bs[i + 1:i + 1 + n]))
                i += 1 + n
                running = None
                uses.append('syscommon')
            else:
                if b >= 0x80:
                    status = b
                    i += 1
                    uses.append('full')
                else:
                    if running is None:
                        raise SmfError('running status without status')
                    status = running
                    uses.append('running')
                n = 1 if 0xc0 <= status <= 0xdf else 2
                data = bs[i:i + n]
                if i + n > end:
                    raise SmfError('event overruns chunk')
                evs.append((delta, 'chan', status, data))
                i += n
                running = status
        if i != end:
            raise SmfError('chunk length mismatch')
        tracks.append(evs)
        if report is not None:
            report.setdefault('uses', []).append(uses)
    if report is not None:
        report['trailing'] = len(bs) - i
    return ty, ntr, tpb, tracks


def raw_of_event(ev, charset='latin1'):
    """What the reference decoder should see for an in-memory event (time excluded)."""
    time, kind, a, b = ev
    if kind == 'msg':
        d = _with_defaults(a, b)
        if a == 'sysex':
            return ('sysex', None, list(d['data']))
        enc = msgs.encode_ref(a, d)
        return ('chan', enc[0], enc[1:])
    if kind == 'meta':
        return ('meta', metas.META[a][0], metas.payload_ref(a, full_meta(a, b), charset))
    return ('meta', a, list(b))


def fix_eot_ref(track):
    """Events of a track with end_of_track normalised: non-EOT events at their absolute ticks,
    one EOT at the end carrying the trailing delta."""
    out = []
    acc = 0
    for ev in track:
        time, kind, a, b = ev
        if kind == 'meta' and a == 'end_of_track':
            acc += time
        else:
            out.append((time + acc, kind, a, b))
            acc = 0
    out.append((acc, 'meta', 'end_of_track', {}))
    return out


# --------------------------------------------------------------------------
# alternative legal encodings
# --------------------------------------------------------------------------

def vlq_padded(n, pad):
    return [0x80] * pad + metas.vlq(n)


def encode_alt(rng, desc, pad_max=3, header_extra=None, running='random'):
    """A random standard-conformant encoding of the (EOT-normalised) event lists."""
    out = [0x4d, 0x54, 0x68, 0x64]
    extra = rng.choice([0, 0, 1, 4, 10]) if header_extra is None else header_extra
    out += list((6 + extra).to_bytes(4, 'big'))
    out += list(int(desc['type']).to_bytes(2, 'big', signed=True))
    out += list(len(desc['tracks']).to_bytes(2, 'big', signed=True))
    out += list(int(desc['tpb']).to_bytes(2, 'big', signed=True))
    out += [rng.randrange(256) for _ in range(extra)]
    for tr in desc['tracks']:
        body = []
        run = None
        for ev in tr:
            time = ev[0]
            kind, a, data = raw_of_event(ev, desc.get('charset', 'latin1'))
            body += vlq_padded(time, rng.randint(0, pad_max) if rng.random() < 0.3 else 0)
            if kind == 'meta':
                body += [0xff, a] + vlq_padded(len(data), rng.randint(0, pad_max) if rng.random() < 0.3 else 0) + data
                run = None
            elif kind == 'sysex':
                body += [0xf0] + vlq_padded(len(data) + 1, rng.randint(0, pad_max) if rng.random() < 0.3 else 0) + data + [0xf7]
                run = None
            else:
                if a < 0xf0:
                    use = (run == a) and (running == 'always' or (running == 'random' and rng.random() < 0.6))
                    body += (data if use else [a] + data)
                    run = a
                else:
                    body += [a] + data
                    run = None
        out += [0x4d, 0x54, 0x72, 0x6b] + list(len(body).to_bytes(4, 'big')) + body
    return out


# --------------------------------------------------------------------------
# generators
# --------------------------------------------------------------------------

DELTAS = [0, 0, 0, 1, 127, 128, 16383, 16384, 2097151, 2097152, 2 ** 28 - 1, 2 ** 28, 2 ** 35]
PAYLOAD_LENS = [0, 1, 2, 127, 128, 129]
BIG_LENS = [16383, 16384]
KNOWN_META_BYTES = {v[0] for v in metas.META.values()}


def random_event(rng, storable=True, big=False, latin_only=True):
    r = rng.random()
    time = rng.choice(DELTAS) if rng.random() < 0.5 else rng.randint(0, 1000)
    if r < 0.5:
        t = rng.choice(msgs.CHANNEL_TYPES)
        _t, d = msgs.random_message(rng, types=[t])
        return (time, 'msg', t, d)
    if r < 0.58:
        t = rng.choice(['quarter_frame', 'songpos', 'song_select', 'tune_request'])
        _t, d = msgs.random_message(rng, types=[t])
        return (time, 'msg', t, d)
    if r < 0.68:
        ln = rng.choice(PAYLOAD_LENS + (BIG_LENS if big else []))
        return (time, 'msg', 'sysex', {'data': tuple(rng.randint(0, 127) for _ in range(ln))})
    if r < 0.9:
        t = rng.choice(metas.META_NAMES)
        return (time, 'meta', t, random_meta_attrs(rng, t, big))
    tb = rng.choice([x for x in (0x08, 0x0a, 0x10, 0x22, 0x30, 0x50, 0x55, 0x60, 0x7e, 0x80, 0xf0, 0xff) if x not in KNOWN_META_BYTES])
    ln = rng.choice(PAYLOAD_LENS)
    return (time, 'umeta', tb, tuple(rng.randint(0, 255) for _ in range(ln)))


def random_meta_attrs(rng, t, big=False):
    if t in metas.TEXT_TYPES:
        attr = metas.META[t][1][0][0]
        ln = rng.choice(PAYLOAD_LENS + (BIG_LENS if big else []))
        txt = ''.join(chr(rng.choice([65, 97, 32, 0xe9, 0xff, 1, 0x7f, 0x80])) for _ in range(ln))
        if rng.random() < 0.12:
            txt = '\xef\xbb\xbf' + txt + rng.choice(['', 'La la', '\x00'])       # looks like a UTF-8 signature in latin1 / cp1252
        return {attr: txt}
    if t == 'sequence_number':
        return {'number': rng.choice([0, 1, 255, 256, 65535, rng.randint(0, 65535)])}
    if t == 'channel_prefix':
        return {'channel': rng.randint(0, 255)}
    if t == 'midi_port':
        return {'port': rng.randint(0, 255)}
    if t == 'end_of_track':
        return {}
    if t == 'set_tempo':
        return {'tempo': rng.choice([0, 1, 500000, 16777215, rng.randint(0, 16777215)])}
    if t == 'smpte_offset':
        return {'frame_rate': rng.choice(metas.RATES), 'hours': rng.randint(0, 31), 'minutes': rng.randint(0, 59),
                'seconds': rng.randint(0, 59), 'frames': rng.randint(0, 255), 'sub_frames': rng.randint(0, 99)}
    if t == 'time_signature':
        return {'numerator': rng.randint(0, 255), 'denominator': 2 ** rng.choice([0, 1, 2, 3, 7, 8, 31, 64, 255, rng.randint(0, 255)]),
                'clocks_per_click': rng.randint(0, 255), 'notated_32nd_notes_per_beat': rng.randint(0, 255)}
    if t == 'key_signature':
        return {'key': rng.choice(metas.KEYS)}
    if t == 'sequencer_specific':
        ln = rng.choice(PAYLOAD_LENS)
        return {'data': tuple(rng.randint(0, 255) for _ in range(ln))}
    raise KeyError(t)


def random_track(rng, nmax=40, big=False):
    n = rng.choice([0, 1, 2, 3, rng.randint(0, nmax)])
    tr = []
    while len(tr) < n:
        ev = random_event(rng, big=big)
        tr.append(ev)
        # runs that trigger running status
        if ev[1] == 'msg' and ev[2] in msgs.CHANNEL_TYPES and rng.random() < 0.5:
            for _ in range(rng.randint(1, 4)):
                d = dict(ev[3])
                for k in d:
                    if k != 'channel':
                        lo, hi = msgs.RANGES[k]
                        d[k] = rng.randint(lo, hi)
                tr.append((rng.choice(DELTAS[:8]), 'msg', ev[2], d))
    mode = rng.random()
    if mode < 0.5:
        tr.append((rng.choice([0, 0, 5, 1000]), 'meta', 'end_of_track', {}))
    elif mode < 0.6 and tr:
        tr.insert(rng.randrange(len(tr) + 1), (rng.choice([0, 3, 200]), 'meta', 'end_of_track', {}))
        tr.append((0, 'meta', 'end_of_track', {}))
    elif mode < 0.7:
        tr.append((2, 'meta', 'end_of_track', {}))
        tr.append((3, 'meta', 'end_of_track', {}))
    return tr


def make_utf8(rng, desc):
    """Mark the file as a utf-8 file and give some of its texts characters only such a charset can carry (U+FEFF first)."""
    desc['charset'] = 'utf-8'
    for tr in desc['tracks']:
        for i, ev in enumerate(tr):
            if ev[1] == 'meta' and ev[2] in metas.TEXT_TYPES and rng.random() < 0.5:
                attr = metas.META[ev[2]][1][0][0]
                d = dict(ev[3])
                d[attr] = rng.choice(['\ufeff', '\ufeff\ufeff', 'x\ufeff', '\u266f', '']) + d[attr]
                tr[i] = (ev[0], ev[1], ev[2], d)
    return desc


def random_file(rng, big=False):
    ntr = rng.choice([0, 1, 1, 2, 3, 4])
    ty = rng.choice([0, 1, 1, 2]) if ntr == 1 else rng.choice([1, 1, 2])
    # the header field is a signed 16-bit value: an SMPTE time division is a negative ticks_per_beat, 0 is storable as well
    return {'type': ty, 'tpb': rng.choice([1, 96, 480, 32767, rng.randint(1, 32767), rng.randint(1, 32767), -6360, -7720, -1, -32768, 0,
                                           rng.randint(-32768, -1)]),
            'tracks': [random_track(rng, big=big) for _ in range(ntr)]}
