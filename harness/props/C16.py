"""C16 — a MidiFile always reflects its current contents."""
import copy
import io
import itertools

from ..common import chunks, exc_name, generic_replay, pool_map
from .C12 import ident, make_msg, reference

RULE = ('histories (length <= 12) of documented edits on a real MidiFile - add_track, tracks.append / del tracks[i], track.append / '
        'del track[j], msg.time = t, swapping neighbours, moving ticks between neighbours, mid.type = n - interleaved with observations (merged_track, list(mid), length, save, play); '
        'an iteration left open across an edit must yield what the contents at its start or after the edit give; every observation is compared with the same observation on a MidiFile built afresh from deep copies of the current '
        'contents (the property oracle) and merged_track with the model; all histories of length <= 4 over a reduced alphabet '
        'exhaustively. Distinct by the op list; non-trivial = an edit after an observation')

OBS = ('merged', 'iter', 'length', 'save', 'play')


def observe(mid, what):
    import mido
    from mido.midifiles import midifiles as MF
    try:
        if what == 'merged':
            return [(ident(m), m.type == 'end_of_track', m.time) for m in mid.merged_track]
        if what == 'iter':
            return [(ident(m), m.type, m.time) for m in mid]
        if what == 'length':
            return mid.length
        if what == 'save':
            buf = io.BytesIO()
            mid.save(file=buf)
            return buf.getvalue()
        if what == 'play':
            clock = [0.0]
            real = MF.time

            class Shim:
                @staticmethod
                def sleep(d):
                    clock[0] += d
                time = staticmethod(lambda: clock[0])
            MF.time = Shim
            try:
                return [(ident(m), m.time, clock[0]) for m in mid.play(now=lambda: clock[0], meta_messages=True)]
            finally:
                MF.time = real
    except Exception as e:
        return 'err ' + exc_name(e)


def run_history(ops):
    import mido
    mid = mido.MidiFile()
    lines = []
    fail = None
    for op in ops:
        k = op[0]
        try:
            if k == 'addtrack':
                mid.add_track()
                lines.append('done')
            elif k == 'appendtrack':
                mid.tracks.append(mido.MidiTrack(_mk(e) for e in op[1]))
                lines.append('done')
            elif k == 'removetrack':
                del mid.tracks[op[1]]
                lines.append('done')
            elif k == 'appendmsg':
                mid.tracks[op[1]].append(_mk(op[2]))
                lines.append('done')
            elif k == 'removemsg':
                del mid.tracks[op[1]][op[2]]
                lines.append('done')
            elif k == 'settime':
                mid.tracks[op[1]][op[2]].time = op[3]
                lines.append('done')
            elif k == 'settype':
                mid.type = op[1]
                lines.append('done')
            elif k == 'overlap':
                # one observation in the middle of another one (no edit in between): neither may disturb the other
                try:
                    it = iter(mid)
                    seen = []
                    for _ in range(op[1]):
                        m = next(it, None)
                        if m is None:
                            break
                        seen.append((ident(m), m.type, m.time))
                    inner = observe(mid, op[2])
                    seen += [(ident(m), m.type, m.time) for m in it]
                except TypeError:
                    seen, inner = 'err TypeError', observe(mid, op[2])
                fresh = mido.MidiFile(type=1, ticks_per_beat=mid.ticks_per_beat, tracks=copy.deepcopy(mid.tracks))
                fresh.type = mid.type
                if seen != observe(fresh, 'iter') and fail is None:
                    fail = (f'an iteration during which {op[2]} was observed yielded {str(seen)[:200]}, an undisturbed one '
                            f'{str(observe(fresh, "iter"))[:200]}')
                elif inner != observe(fresh, op[2]) and fail is None:
                    fail = f'{op[2]} observed in the middle of an iteration gives {str(inner)[:160]}, on a fresh file {str(observe(fresh, op[2]))[:160]}'
                lines.append(None)
            elif k == 'iteredit':
                # an iteration that is open while an edit happens: what it yields must be what SOME state of the contents gives
                # (the contents when it started, or the contents after the edit) - never a mixture of the two
                old = mido.MidiFile(type=1, ticks_per_beat=mid.ticks_per_beat, tracks=copy.deepcopy(mid.tracks))
                old.type = mid.type
                try:
                    it = iter(mid)
                    seen = []
                    for _ in range(op[1]):
                        m = next(it, None)
                        if m is None:
                            break
                        seen.append((ident(m), m.type, m.time))
                except TypeError:
                    it = None
                edit_line = 'done'
                try:
                    if op[2] == 'append':
                        mid.tracks[op[3]].append(_mk(op[4]))
                    elif op[2] == 'settime':
                        mid.tracks[op[3]][op[4][0] % 4].time = op[4][2] + 7
                    elif op[2] == 'removemsg':
                        del mid.tracks[op[3]][op[4][0] % 4]
                    else:
                        del mid.tracks[op[3]]
                except IndexError:
                    edit_line = 'err IndexError'
                if it is not None:
                    try:
                        seen += [(ident(m), m.type, m.time) for m in it]
                    except Exception as e:
                        seen = 'err ' + exc_name(e)
                    new = mido.MidiFile(type=1, ticks_per_beat=mid.ticks_per_beat, tracks=copy.deepcopy(mid.tracks))
                    new.type = mid.type
                    a, b = observe(old, 'iter'), observe(new, 'iter')
                    if seen != a and seen != b and fail is None:
                        fail = (f'an iteration that was open during an edit yielded {str(seen)[:160]}: neither what the contents at its '
                                f'start give {str(a)[:160]} nor what the contents after the edit give {str(b)[:160]}')
                lines.append(edit_line)
            elif k == 'swapmsgs':
                t = mid.tracks[op[1]]
                t[op[2]], t[op[2] + 1] = t[op[2] + 1], t[op[2]]
                lines.append('done')
            elif k == 'shifttime':
                # move ticks between neighbouring messages: count and total length of the track unchanged
                t = mid.tracks[op[1]]
                a, b = t[op[2]], t[op[2] + 1]
                if b.time >= op[3]:
                    a.time += op[3]
                    b.time -= op[3]
                lines.append('done')
            else:
                got = observe(mid, k)
                fresh = mido.MidiFile(type=1, ticks_per_beat=mid.ticks_per_beat, tracks=copy.deepcopy(mid.tracks))
                fresh.type = mid.type
                want = observe(fresh, k)
                if got != want and fail is None:
                    fail = f'after {len(lines)} ops, {k} gives {str(got)[:200]} but a freshly built file with the same contents gives {str(want)[:200]}'
                if k == 'merged' and not isinstance(got, str) and fail is None:
                    # independent of any state the library may share between files: the reference merge of the current contents
                    ref = [(a, bool(b), c) for a, b, c in reference(
                        [[(ident(m), 1 if m.type == 'end_of_track' else 0, m.time) for m in tr] for tr in mid.tracks])]
                    if [tuple(x) for x in got] != ref:
                        fail = f'after {len(lines)} ops, merged_track is {str(got)[:200]}, the merge of the current contents is {str(ref)[:200]}'
                    # what was handed out belongs to the caller
                    for m in mid.merged_track:
                        m.time = m.time + 960
                if k == 'merged':
                    lines.append(got if isinstance(got, str) else 'track' + ''.join(' %d:%d:%d' % (a, 1 if b else 0, c) for a, b, c in got))
                else:
                    lines.append(None)
        except IndexError:
            lines.append('err IndexError')
        except Exception as e:
            lines.append('err ' + exc_name(e))
            fail = fail or f'{k} raised {type(e).__name__}: {e}'
    return lines, fail


def _mk(e):
    import mido
    k, eot, time = e
    if eot:
        return mido.MetaMessage('end_of_track', time=time)
    return make_msg(k).copy(time=time)


def _chunk(hs):
    return [run_history(h) for h in hs]


def enc(op):
    k = op[0]
    if k == 'appendtrack':
        return 'fop appendtrack ' + ' '.join('%d:%d:%d' % e for e in op[1])
    if k == 'appendmsg':
        return 'fop appendmsg %d %d:%d:%d' % ((op[1],) + op[2])
    if k in ('removetrack', 'settype'):
        return 'fop %s %d' % (k, op[1])
    if k == 'removemsg':
        return 'fop removemsg %d %d' % (op[1], op[2])
    if k == 'settime':
        return 'fop settime %d %d %d' % op[1:]
    if k == 'iteredit':
        if op[2] == 'append':
            return 'fop appendmsg %d %d:%d:%d' % ((op[3],) + tuple(op[4]))
        if op[2] == 'settime':
            return 'fop settime %d %d %d' % (op[3], op[4][0] % 4, op[4][2] + 7)
        if op[2] == 'removemsg':
            return 'fop removemsg %d %d' % (op[3], op[4][0] % 4)
        return 'fop removetrack %d' % op[3]
    if k == 'swapmsgs':
        return 'fop swapmsgs %d %d' % op[1:]
    if k == 'shifttime':
        return 'fop shifttime %d %d %d' % op[1:]
    if k == 'addtrack':
        return 'fop addtrack'
    if k == 'merged':
        return 'fop merged'
    return None


def gen(ck):
    rng = ck.rng
    hs = []
    raw = itertools.count(1)

    class _Ids:
        """identities stay inside the range the three message families of C12.make_msg can carry"""
        def __next__(self):
            return next(raw) % 250000 + 1
    counter = _Ids()

    def ev(eot_p=0.15):
        if rng.random() < 0.12:
            return (400000 + rng.randint(0, 899999), 0, rng.choice([0, 1, 5, 480]))       # a tempo change
        return (next(counter), 1 if rng.random() < eot_p else 0, rng.choice([0, 0, 1, 5, 480]))
    # exhaustive short histories over a reduced alphabet
    alpha = [('addtrack',), ('appendtrack', [(1, 0, 3)]), ('appendmsg', 0, (2, 0, 4)), ('settime', 0, 0, 7),
             ('removemsg', 0, 0), ('removetrack', 0), ('settype', 2), ('settype', 0), ('merged',), ('length',), ('iter',)]
    for n in range(1, 5):
        for h in itertools.product(alpha, repeat=n):
            if n == 4 and ck.tier == 'quick' and rng.random() < 0.8:
                continue
            hs.append(list(h) + [('merged',), ('save',)])
    ck.exhaustive['histories of length <= 3 (quick) / <= 4 (thorough) over an 11-letter op alphabet'] = True
    # edits that keep every track's message count and total length: two tracks, an observation, then ticks moved between
    # neighbours or neighbours swapped, so that a message crosses one of the other track
    for _ in range(600 if ck.tier == 'quick' else 20000):
        h = []
        for _t in range(rng.randint(2, 3)):
            h.append(('appendtrack', [(next(counter), 0, rng.choice([0, 1, 2, 3, 5, 8])) for _ in range(rng.randint(2, 4))]))
        h.append((rng.choice(OBS),))
        for _e in range(rng.randint(1, 3)):
            if rng.random() < 0.6:
                h.append(('shifttime', rng.randint(0, 2), rng.randint(0, 2), rng.choice([1, 2, 3, 5])))
            else:
                h.append(('swapmsgs', rng.randint(0, 2), rng.randint(0, 2)))
            if rng.random() < 0.5:
                h.append((rng.choice(OBS),))
        h.append(('merged',))
        h.append((rng.choice(OBS),))
        hs.append(h)
    for _ in range(3000 if ck.tier == 'quick' else 60000):
        h = []
        ntr = 0
        lens = []
        for _ in range(rng.randint(2, 12)):
            r = rng.random()
            if r < 0.12:
                h.append(('addtrack',)); ntr += 1; lens.append(0)
            elif r < 0.22:
                t = [ev() for _ in range(rng.randint(0, 4))]
                h.append(('appendtrack', t)); ntr += 1; lens.append(len(t))
            elif r < 0.27:
                i = rng.randint(0, max(ntr, 1))
                h.append(('removetrack', i))
                if i < ntr:
                    ntr -= 1; lens.pop(i)
            elif r < 0.45:
                i = rng.randint(0, max(ntr - 1, 0))
                h.append(('appendmsg', i, ev()))
                if i < ntr:
                    lens[i] += 1
            elif r < 0.52:
                i = rng.randint(0, max(ntr - 1, 0))
                j = rng.randint(0, 3)
                h.append(('removemsg', i, j))
                if i < ntr and j < lens[i]:
                    lens[i] -= 1
            elif r < 0.62:
                h.append(('settime', rng.randint(0, max(ntr - 1, 0)), rng.randint(0, 3), rng.choice([0, 1, 9, 1000])))
            elif r < 0.67:
                h.append(('settype', rng.choice([0, 1, 1, 2])))
            elif r < 0.685:
                h.append(('overlap', rng.randint(0, 5), rng.choice(['length', 'iter', 'merged', 'play'])))
            elif r < 0.70 and ntr:
                i = rng.randint(0, ntr - 1)
                kind = rng.choice(['append', 'droptrack', 'settime', 'settime', 'removemsg', 'removemsg'])
                e = ev()
                h.append(('iteredit', rng.randint(0, 4), kind, i, e))
                if kind == 'append':
                    lens[i] += 1
                elif kind == 'removemsg':
                    if e[0] % 4 < lens[i]:
                        lens[i] -= 1
                elif kind == 'droptrack':
                    ntr -= 1; lens.pop(i)
            elif r < 0.72:
                h.append(('swapmsgs', rng.randint(0, max(ntr - 1, 0)), rng.randint(0, 3)))
            elif r < 0.78:
                h.append(('shifttime', rng.randint(0, max(ntr - 1, 0)), rng.randint(0, 3), rng.choice([1, 1, 3, 5, 480])))
            else:
                h.append((rng.choice(OBS),))
        h.append(('merged',))
        h.append((rng.choice(OBS),))
        hs.append(h)
    # an edit that changes a value into another one with the SAME hash (hash(n) == hash(n + 2**61 - 1)) after an observation
    for _ in range(300 if ck.tier == 'quick' else 5000):
        t = [ev(0) for _ in range(rng.randint(1, 4))]
        j = rng.randrange(len(t))
        base = rng.choice([0, 3, 480])
        h = [('appendtrack', t), ('settime', 0, j, base), (rng.choice(OBS),), ('settime', 0, j, base + 2 ** 61 - 1), ('merged',),
             (rng.choice(['iter', 'length', 'merged']),), ('settime', 0, j, base), ('merged',)]
        hs.append(h)
    return hs


def run(ck):
    ck.prepare_lean()
    ck.run_corpus(oracle)
    hs = gen(ck)
    res = [r for part in pool_map(_chunk, list(chunks(hs, 400))) for r in part]
    reqs, impl = [], []
    for h, (lines, fail) in zip(hs, res):
        seen_obs = False
        nontriv = False
        for o in h:
            if o[0] in OBS:
                seen_obs = True
            elif seen_obs:
                nontriv = True
        ck.note_case(repr(h), nontrivial=nontriv)
        for o in h:
            ck.count('op:' + o[0])
        if fail:
            ck.oracle_fail({'ops': h}, fail)
        reqs.append('freset')
        impl.append('ok')
        for o, l in zip(h, lines):
            e = enc(o)
            if e is not None and l is not None:
                reqs.append(e)
                impl.append(l)
    ck.sample({'ops': hs[-1]})
    ck.sample({'ops': hs[500]})
    ck.compare('midifile_ops', reqs, impl, ck.driver.run(reqs))
    ck.evaluations += 1
    ck.count('charset_histories')
    f = charset_history_fail()
    if f:
        ck.oracle_fail({'scenario': 'charset history'}, f)
    ck.evaluations += 1
    ck.count('refused_saves')
    f = refused_save_fail()
    if f:
        ck.oracle_fail({'scenario': 'refused save'}, f)
    return ck.finish(RULE, assumptions=['in-place mutation of message objects other than through setattr is not an edit route'])


def refused_save_fail():
    """A save that is refused (a time that is no whole number of ticks, a real-time message, a type-0 file with two tracks) -
    or that succeeds - leaves the contents of the file what they were: the same message objects with the same values, so
    everything read from the file afterwards is what it was before."""
    import io
    import mido

    def snap(mid):
        return [(id(m), type(m).__name__, sorted((k, repr(v), type(v).__name__) for k, v in vars(m).items())) for t in mid.tracks for m in t]

    def look(mid):
        out = []
        for f in (lambda: mid.length, lambda: [(m.type, m.time) for m in mid], lambda: [(m.type, m.time) for m in mid.merged_track]):
            try:
                out.append(f())
            except Exception as e:      # noqa: BLE001
                out.append(type(e).__name__)
        return out
    for times in ((100.5, 3), (0.25, 99.75, 1), (2.0, 7), (3, 4), (1e-9, 5), (480.0000001,)):
        for extra in (None, 'clock', 'type0'):
            msgs_ = [mido.Message('note_on', note=10 + i, time=t) for i, t in enumerate(times)]
            if extra == 'clock':
                msgs_.append(mido.Message('clock', time=1))
            mid = mido.MidiFile(type=0 if extra == 'type0' else 1,
                                tracks=[mido.MidiTrack(msgs_)] + ([mido.MidiTrack([mido.Message('note_on', time=1.5)])] if extra == 'type0' else []))
            before, seen = snap(mid), look(mid)
            for _ in range(2):
                try:
                    mid.save(file=io.BytesIO())
                except Exception:      # noqa: BLE001 - refused: fine
                    pass
            if snap(mid) != before:
                d = next((a, b) for a, b in zip(before, snap(mid)) if a != b)
                return (f'save() of a file holding the times {times} ({extra or "plain"}) changed the contents of the file: '
                        f'{d[0][2]} -> {d[1][2]}')
            if look(mid) != seen:
                return f'after save() of a file holding the times {times}, length / iteration / merged_track are {look(mid)}; before: {seen}'
    return None


def charset_history_fail(rng=None):
    """The charset of a file is part of its current contents: the same text saved under one charset, then (attribute reassigned,
    or another file with the same text) under another, is written each time in the charset in force - judged against
    str.encode(), not against another file of the same process."""
    import mido
    texts = ['caf\xe9 \xfcber', 'Pi\xe8ce n\xb0 1', '\xa9 2024 \xc5ngstr\xf6m', 'plain', 'na\xefve r\xe9sum\xe9']
    orders = [('latin1', 'utf-8'), ('utf-8', 'latin1'), ('cp1252', 'utf-8', 'latin1'), ('utf-8', 'utf-16-le', 'utf-8')]
    for kind, attr, tb in (('track_name', 'name', 0x03), ('text', 'text', 0x01), ('lyrics', 'text', 0x05)):
        for txt in texts:
            for order in orders:
                for reuse in (True, False):
                    mid = None
                    for cs in order:
                        try:
                            payload = txt.encode(cs)
                        except UnicodeError:
                            continue
                        if mid is None or not reuse:
                            mid = mido.MidiFile(charset=cs, tracks=[mido.MidiTrack([mido.MetaMessage(kind, **{attr: txt}),
                                                                               mido.Message('note_on', note=60, time=3)])])
                        else:
                            mid.charset = cs
                        buf = io.BytesIO()
                        try:
                            mid.save(file=buf)
                        except Exception as e:
                            return (f'saving {kind} {txt!r} with charset {cs} (history {order}, {"the same file object" if reuse else "a new file"}) '
                                    f'raised {type(e).__name__}: {e}')
                        want = bytes([0xff, tb, len(payload)]) + payload
                        if want not in buf.getvalue():
                            return (f'{kind} {txt!r} saved with charset {cs} after the history {order} '
                                    f'({"charset attribute reassigned" if reuse else "a new file each time"}): the file does not hold '
                                    f'the text encoded in {cs} ({list(want)[:16]}...), it holds {list(buf.getvalue()[22:22 + len(want) + 6])}')
                        try:
                            back = mido.MidiFile(file=io.BytesIO(buf.getvalue()), charset=cs).tracks[0][0]
                            if getattr(back, attr) != txt:
                                return f'{kind} {txt!r} saved and loaded with charset {cs} after the history {order} comes back as {getattr(back, attr)!r}'
                        except Exception as e:
                            return f'loading {kind} {txt!r} saved with charset {cs} (history {order}) raised {type(e).__name__}: {e}'
    return None


def oracle(case):
    if isinstance(case, dict) and case.get('scenario') == 'charset history':
        return charset_history_fail()
    if isinstance(case, dict) and case.get('scenario') == 'refused save':
        return refused_save_fail()
    ops = [tuple(tuple(x) if isinstance(x, list) and x and not isinstance(x[0], list) else
                 ([tuple(y) for y in x] if isinstance(x, list) else x) for x in o) for o in case['ops']]
    return run_history(ops)[1]


def replay(ck, rp):
    return generic_replay(ck, rp, oracle)
