"""C02 — from_bytes accepts exactly the well-formed single-message encodings."""
import itertools

from .. import msgs
from ..common import chunks, exc_name, generic_replay, pool_map

RULE = ('integer sequences: quick = every byte string of length 0..2 over 0..255 plus length 3 with a full first byte '
        'and the other two from the boundary alphabet; thorough = every byte string of length 0..3 (16.8 M) in '
        '256-blocks; both: length 4..6 over the boundary alphabet (sampled), malformed items (-1, 256, 2**70, True, '
        '1.5, 144.0, "a", None, [1]) at every position of base strings, sysex shapes, from_hex texts. Distinct by the '
        'input sequence; non-trivial = every case (each is decoded by the implementation and by the model and judged '
        'by an independent reference grammar)')

BOUNDARY = [0, 1, 0x7f, 0x80, 0x8f, 0x90, 0xbf, 0xc0, 0xdf, 0xe0, 0xef, 0xf0, 0xf1, 0xf2, 0xf3, 0xf4, 0xf5,
            0xf6, 0xf7, 0xf8, 0xf9, 0xfa, 0xfb, 0xfc, 0xfd, 0xfe, 0xff]
BAD_ITEMS = [-1, 256, 2 ** 70, True, 1.5, 144.0, 247.0, 248.0, 1.0, 'a', None, [1], 'clock', 'note_on', 'sysex', 'reset', 'song_select',
             b'\x90', (0x90,), 'F8', '0x90']


class MyInt(int):
    """an integer that is not of type int (like IntEnum / IntFlag members, numpy integers)"""


def tok(x):
    """Protocol token of one sequence item."""
    if isinstance(x, bool):
        return str(int(x))
    if isinstance(x, int):
        return str(x)
    if isinstance(x, float):
        if x == int(x):
            return 'f%d' % int(x)
        return 'h'
    try:
        hash(x)
    except TypeError:
        return 'u'
    return 'h'


def impl_decode(seq):
    out, fail = _impl_decode(seq)
    if fail is None and isinstance(seq, list) and len(seq) <= 64:
        # the same items in the other sequence types a caller may hold them in: the outcome (message or exception class) is that
        # of the list
        import mido
        alts = [('tuple', tuple(seq))]
        if all(isinstance(x, int) and not isinstance(x, bool) and 0 <= x <= 255 for x in seq):
            alts += [('bytes', bytes(seq)), ('bytearray', bytearray(seq))]
        for how, alt in alts:
            o2 = _outcome(mido, alt)
            if o2 != out:
                return out, f'from_bytes of the items {seq!r} as a {how} gives {o2!r}, as a list {out!r}'
    return out, fail


def _impl_decode(seq):
    """Outcome of Message.from_bytes in protocol form + oracle verdict."""
    import mido
    try:
        m = mido.Message.from_bytes(seq)
    except Exception as e:
        name = exc_name(e)
        out = 'err ' + name
        allint = all(isinstance(x, int) for x in seq)
        ref = msgs.decode_ref([int(x) for x in seq]) if allint else None
        fail = None
        if name == 'ValueError':
            if ref is not None:
                fail = f'well-formed encoding {seq!r} rejected with ValueError'
        elif name == 'TypeError':
            if allint:
                fail = f'TypeError although every item is an integer: {seq!r}'
        else:
            fail = f'from_bytes({seq!r}) raised {type(e).__name__}: {e}'
        return out, fail
    try:
        out = 'ok ' + msgs.canon_msg(m)
    except Exception as e:      # noqa: BLE001 - a message object without the attributes of its type
        return 'ok <incomplete>', (f'from_bytes({seq!r}) returned an object that is not a complete message of its type '
                                   f'({type(e).__name__}: {e}; attributes {sorted(vars(m))})')
    fail = None
    try:
        same = list(m.bytes()) == list(seq)
    except Exception as e:  # bytes() of what was returned must work
        same = False
        fail = f'bytes() of the returned message raised {type(e).__name__}'
    if not same and fail is None:
        fail = f'from_bytes({seq!r}) returned {m!r} whose bytes() are {m.bytes()!r}'
    datapos = list(seq)[1:-1] if m.type == 'sysex' else list(seq)[1:]
    if fail is None and any(not isinstance(x, int) for x in datapos):
        fail = f'from_bytes({seq!r}) returned {m!r} although an item in a data position is not an integer'
    if fail is None and all(isinstance(x, int) for x in seq):
        ref = msgs.decode_ref([int(x) for x in seq])
        if ref is None:
            fail = f'input {seq!r} is not one well-formed message but {m!r} was returned'
        elif msgs.canon_vals(*ref) != msgs.canon_msg(m):
            fail = f'input {seq!r} decoded to {m!r}, reference decoder says {ref!r}'
    if fail is None:
        fail = _again_after_caller_changed(mido, seq, m, out)
    return out, fail


def _outcome(mido, seq):
    try:
        m = mido.Message.from_bytes(seq)
    except Exception as e:      # noqa: BLE001
        return 'err ' + exc_name(e)
    try:
        return 'ok ' + msgs.canon_msg(m)
    except Exception:      # noqa: BLE001
        return 'ok <incomplete>'


def container_cases():
    """Sequences of integers (or floats) that are not lists: typed arrays, cast memoryviews, ctypes arrays, ranges (containers
    that can be indexed AND sliced: a deque cannot be sliced and from_bytes answers TypeError for it, which the property allows).
    from_bytes treats a sequence by its ITEMS: the outcome is the one of list(sequence).  (The raw memory of a typed array
    of wider items can look like a message although its items do not.)"""
    import array
    import collections
    import ctypes
    import struct
    out = []
    for code, items in (('H', [0x05c0]), ('H', [0x3c90, 0x0040]), ('I', [0xf7020100 | 0xf0]), ('I', [int.from_bytes(bytes([0xf0, 1, 2, 0xf7]), 'little')]),
                        ('h', [0x05c0]), ('B', [0x90, 60, 64]), ('B', [0xf0, 1, 0xf7]), ('b', [1, 2, 3]), ('L', [0x90]), ('Q', [0xf8]),
                        ('f', [struct.unpack('<f', bytes([0xf0, 1, 2, 0xf7]))[0]]), ('d', [144.0, 60.0, 64.0])):
        try:
            out.append(('array(%r)' % code, array.array(code, items)))
        except (OverflowError, TypeError, ValueError):
            pass
    out.append(('memoryview cast H', memoryview(bytes([0xc0, 5])).cast('H')))
    out.append(('memoryview cast I', memoryview(bytes([0xf0, 1, 2, 0xf7])).cast('I')))
    out.append(('memoryview', memoryview(bytes([0x90, 60, 64]))))
    out.append(('ctypes c_uint16 array', (ctypes.c_uint16 * 1)(0x05c0)))
    out.append(('ctypes c_ubyte array', (ctypes.c_ubyte * 3)(0x90, 60, 64)))
    out.append(('range', range(0x90, 0x93)))
    out.append(('tuple', (0xf8,)))
    return out


def container_fail():
    import mido
    for what, c in container_cases():
        try:
            items = list(c)
        except Exception:      # noqa: BLE001
            continue
        a, b = _outcome(mido, c), _outcome(mido, items)
        if a != b and not (a.startswith('err') and b.startswith('err')):
            return f'from_bytes({what} with items {items!r}) gives {a}; the list of its items gives {b}'
    return None


def _again_after_caller_changed(mido, seq, m, out):
    """The message handed out belongs to the caller: what the caller does to it must not show in a later decode of the
    same bytes (through from_bytes or from_hex)."""
    try:
        m.time = 5
        if m.type == 'sysex':
            m.data = (9, 8, 7)
        else:
            for name in ('velocity', 'value', 'program', 'pitch', 'pos', 'song', 'frame_value', 'control', 'note', 'channel'):
                if name in vars(m):
                    setattr(m, name, 0 if getattr(m, name) != 0 else 1)
                    break
        seq2 = list(seq) if isinstance(seq, (list, tuple, bytes, bytearray)) else None
        if seq2 is None:
            return None
        m2 = mido.Message.from_bytes(seq2)
        out2 = 'ok ' + msgs.canon_msg(m2)
        if out2 != out or m2.time != 0 or m2 is m:
            return (f'after the caller changed the message returned for {seq2!r}, decoding the same bytes again gives {m2!r} '
                    f'(first time: {out[3:]}, time 0)')
        if all(isinstance(x, int) and not isinstance(x, bool) and 0 <= x <= 255 for x in seq2) and len(seq2) >= 2:
            # the caller's buffer, reused: the same list / bytearray object, overwritten in place at the same length, is
            # decoded for what it holds NOW
            for mk in (list, bytearray):
                buf = mk(seq2)
                mido.Message.from_bytes(buf)
                for pos, val in ((1, 200), (0, 5), (len(buf) - 1, (buf[-1] + 1) % 128 if seq2[0] != 0xf0 else 0x11), (1, (buf[1] + 3) % 128)):
                    buf[pos] = val
                    now = _outcome(mido, buf)
                    fresh = _outcome(mido, mk(bytes(buf) if mk is bytearray else list(buf)))
                    if now != fresh:
                        return (f'the buffer {list(seq2)!r} was decoded, then overwritten in place to {list(buf)!r} and decoded again (same '
                                f'{mk.__name__} object): {now}; a fresh object with those bytes gives {fresh}')
        if all(isinstance(x, int) and not isinstance(x, bool) for x in seq2):
            m3 = mido.Message.from_hex(''.join('%02X' % x for x in seq2))
            if 'ok ' + msgs.canon_msg(m3) != out or m3.time != 0:
                return f'after an earlier decode of {seq2!r} was changed by its caller, from_hex of the same bytes gives {m3!r}'
    except Exception as e:
        return f'decoding {seq!r} a second time raised {type(e).__name__}: {e}'
    return None


def _impl_chunk(seqs):
    return [impl_decode(s) for s in seqs]


def _block_line(a, b):
    """Implementation's answers for [a, b, c], c = 0..255, compressed exactly like the driver's `decblk`."""
    import mido
    parts = []
    fails = []
    prev = None
    cnt = 0
    for c in range(256):
        seq = [a, b, c]
        out, fail = impl_decode(seq)
        if fail:
            fails.append((seq, fail))
        if out.startswith('err '):
            code = out[4:5] if out[4:] in ('ValueError', 'TypeError') else '?' + out[4:]
        else:
            code = 'M' + out[3:]
        if code == prev:
            cnt += 1
        else:
            if prev is not None:
                parts.append(prev if cnt == 1 else f'{prev}*{cnt}')
            prev, cnt = code, 1
    parts.append(prev if cnt == 1 else f'{prev}*{cnt}')
    return ';'.join(parts), fails


def _block_chunk(ab):
    return [_block_line(a, b) for a, b in ab]


def gen_seqs(ck):
    rng = ck.rng
    seqs = [[]]
    seqs += [[a] for a in range(256)]
    seqs += [[a, b] for a in range(256) for b in range(256)]
    ck.exhaustive['byte strings of length 0..2'] = True
    if ck.tier == 'quick':
        for a in range(256):
            for b in BOUNDARY:
                for c in BOUNDARY:
                    seqs.append([a, b, c])
    # longer strings over the boundary alphabet
    n_long = 30000 if ck.tier == 'quick' else 300000
    for _ in range(n_long):
        ln = rng.choice([4, 4, 5, 6])
        s = [rng.choice(BOUNDARY) for _ in range(ln)]
        if rng.random() < 0.5:
            s[0] = rng.choice([0x90, 0xe0, 0xf0, 0xf1, 0xf2, 0xc3])
        seqs.append(s)
    # sysex shapes
    for ln in [0, 1, 2, 3, 10, 127, 128, 1000, 5000]:
        body = [rng.randint(0, 127) for _ in range(ln)]
        seqs.append([0xf0] + body + [0xf7])
        seqs.append([0xf0] + body)
        seqs.append([0xf0] + body + [0xf7, 0xf7])
        if ln:
            bad = list(body)
            bad[rng.randrange(ln)] = rng.choice([0x80, 0xf7, 0xff, 200])
            seqs.append([0xf0] + bad + [0xf7])
    # malformed items at every position of base strings
    bases = [[0x90, 60, 64], [0xc5, 1], [0xe3, 1, 2], [0xf0, 1, 2, 0xf7], [0xf1, 0x35], [0xf2, 1, 2], [0xf3, 9],
             [0xf6], [0xf8], [0xff], [0xf0, 0xf7], [0x85, 0, 0], [60, 64]]
    for base in bases:
        for pos in range(len(base) + 1):
            for bad in BAD_ITEMS:
                s = list(base)
                if pos < len(base):
                    s[pos] = bad
                else:
                    s.append(bad)
                seqs.append(s)
                if pos < len(base):
                    s2 = list(base)
                    s2.insert(pos, bad)
                    seqs.append(s2)
    # a valid string first, then the same string with one data item replaced by an EQUAL value of another type, and by
    # integers that are not of type int (in and out of range)
    import fractions
    import http
    for base in bases[:9] + [[0x93, 60, 100], [0xb0, 7, 127], [0xf0, 5, 6, 7, 0xf7]]:
        for pos in range(1, len(base) - (1 if base[0] == 0xf0 else 0)):
            seqs.append(list(base))
            for same in (float(base[pos]), fractions.Fraction(base[pos]), MyInt(base[pos]), MyInt(base[pos] + 128), MyInt(255),
                         http.HTTPStatus.OK, MyInt(-1)):
                s = list(base)
                s[pos] = same
                seqs.append(s)
    # status given as a float (hash-equal to the int)
    for st in [128.0, 144.0, 200.0, 224.0, 240.0, 241.0, 242.0, 243.0, 246.0, 248.0, 255.0, 244.0]:
        for rest in ([], [1], [1, 2], [1, 2, 3], [247], [1, 247], [1.0, 2]):
            seqs.append([st] + rest)
    return seqs


def gen_hex(ck):
    rng = ck.rng
    texts = []
    ws = [' ', '\t', '\n', '\r', '\x0b', '\x0c', '  ', ' \n']
    for _ in range(3000 if ck.tier == 'quick' else 30000):
        t, d = msgs.random_message(rng)
        bs = msgs.encode_ref(t, d)
        r = rng.random()
        if r < 0.5:
            txt = rng.choice(ws).join('%02X' % b for b in bs)
        elif r < 0.6:
            txt = ''.join('%02x' % b for b in bs)
        elif r < 0.7:
            txt = ' ' + ' '.join('%02X' % b for b in bs) + '\n'
        elif r < 0.8:   # odd number of digits / split pair
            txt = ' '.join('%02X' % b for b in bs)
            k = rng.randrange(len(txt) + 1)
            txt = txt[:k] + rng.choice(['0', ' ', 'G', 'x', '9 ']) + txt[k:]
        elif r < 0.9:   # not a complete message
            txt = ' '.join('%02X' % b for b in bs[:-1])
        else:
            txt = ' '.join('%02X' % b for b in bs + [rng.choice([0, 0x90, 0xf7])])
        texts.append(txt)
    # valid hex whose bytes are NOT a well-formed message (data bytes above 127, status in a data position, wrong lengths)
    for _ in range(1500 if ck.tier == 'quick' else 15000):
        t, d = msgs.random_message(rng, max_sysex=4)
        bs = list(msgs.encode_ref(t, d))
        k = rng.randrange(len(bs))
        bs[k] = rng.choice([0x80, 0xff, 0x90, 0xf7, 0x7f, 0x00, bs[k] ^ 0x80])
        texts.append(rng.choice([' ', '']).join('%02X' % b for b in bs))
    texts += ['', ' ', 'F8', 'f8', 'F', 'F 8', '0xF8', 'FG', '90 3C 40', '903C40', '90  3C\t40', '9 03C40']
    return texts


def impl_hex(text):
    import mido
    try:
        m = mido.Message.from_hex(text)
    except Exception as e:
        name = exc_name(e)
        return 'err ' + name, (None if name == 'ValueError' else f'from_hex({text!r}) raised {type(e).__name__}')
    try:
        ref = bytes.fromhex(''.join(' ' if c.isspace() and ord(c) < 128 else c for c in text))
    except ValueError:
        return 'ok ' + msgs.canon_msg(m), f'from_hex({text!r}) returned {m!r} for text that is not hex'
    fail = None if list(m.bytes()) == list(ref) else f'from_hex({text!r}) returned {m!r}'
    if fail is None and msgs.decode_ref(list(ref)) is None:
        fail = f'from_hex({text!r}): the bytes {list(ref)} are not one well-formed message but {m!r} was returned'
    return 'ok ' + msgs.canon_msg(m), fail


def _hex_chunk(ts):
    return [impl_hex(t) for t in ts]


def during_load_fail():
    """from_bytes decides the same while the library is in the middle of something else: called from the read() of the file
    object a MidiFile is being loaded from (a device callback decoding its input while the main program loads a file sees the
    library in exactly that state), and after loads that failed."""
    import io
    import mido
    probes = [[0x90, 200, 1], [0xF0, 1, 0x80, 0xF7], [0x90, 1.5, 1], [0x90, 1], [0x90, 1, 2], [0xF0, 1, 2, 0xF7], [0xE0, 128, 0], [0xF4],
              [0x90, 1, 2, 3], ['x'], [0xC0, -1]]

    def outcomes():
        out = []
        for p in probes:
            try:
                out.append(('ok', list(mido.Message.from_bytes(p).bytes())))
            except Exception as e:      # noqa: BLE001
                out.append(('err', type(e).__name__))
        return out
    want = outcomes()
    seen = []

    class F(io.BytesIO):
        def read(self, n=-1):
            got = outcomes()
            if got != want and not seen:
                seen.append(got)
            return super().read(n)
    buf = io.BytesIO()
    mido.MidiFile(tracks=[mido.MidiTrack([mido.Message('note_on', note=1, time=3), mido.MetaMessage('text', text='a'),
                                          mido.Message('sysex', data=(1, 2), time=1)])]).save(file=buf)
    data = buf.getvalue()
    for kw in ({}, {'clip': True}, {'charset': 'utf-8'}, {'debug': False}):
        for blob in (data, data[:-3], data[:30]):
            try:
                mido.MidiFile(file=F(blob), **kw)
            except Exception:      # noqa: BLE001 - a truncated file: only the decisions are judged
                pass
            if seen:
                bad = next((p, w, g) for p, w, g in zip(probes, want, seen[0]) if w != g)
                return (f'while a MidiFile({", ".join("%s=%r" % i for i in kw.items())}) is being loaded, from_bytes({bad[0]!r}) gives '
                        f'{bad[2]}; at any other time it gives {bad[1]}')
            got = outcomes()
            if got != want:
                bad = next((p, w, g) for p, w, g in zip(probes, want, got) if w != g)
                return f'after loading a file ({len(blob)} of {len(data)} bytes), from_bytes({bad[0]!r}) gives {bad[2]}; before it gave {bad[1]}'
    return None


def run(ck):
    ck.prepare_lean()
    ck.run_corpus(oracle)
    seqs = gen_seqs(ck)
    res = [r for part in pool_map(_impl_chunk, list(chunks(seqs, 5000))) for r in part]
    reqs = []
    for s, (out, fail) in zip(seqs, res):
        ck.note_case(repr(s) if len(s) > 3 or any(not isinstance(x, int) or isinstance(x, bool) for x in s) else tuple(s))
        ck.count('len:%d' % min(len(s), 7))
        ck.count('impl:' + out.split(' ')[0] + (':' + out.split(' ')[1] if out.startswith('err') else ''))
        if fail:
            ck.oracle_fail({'seq': repr(s)}, fail)
        reqs.append('dec ' + ' '.join(tok(x) for x in s))
    for s in [seqs[300], seqs[70000], seqs[-1], seqs[-200]]:
        ck.sample({'seq': repr(s)[:200]})
    model = ck.driver.run(reqs)
    ck.compare('decode_any', reqs, [r[0] for r in res], model)
    # the model's independent grammar against the reference grammar of the harness (ties `wellFormed`)
    ints = [s for s in seqs if all(isinstance(x, int) and not isinstance(x, bool) for x in s)]
    wf_req = ['wf ' + ' '.join(str(x) for x in s) for s in ints]
    wf_model = ck.driver.run(wf_req)
    wf_ref = ['1' if msgs.decode_ref(s) is not None else '0' for s in ints]
    ck.compare('wellformed-grammar', wf_req, wf_ref, wf_model)
    f = container_fail()
    ck.evaluations += len(container_cases())
    ck.count('containers', len(container_cases()))
    if f:
        ck.oracle_fail({'containers': True}, f)
    f = during_load_fail()
    ck.evaluations += 1
    ck.count('during_load')
    if f:
        ck.oracle_fail({'during_load': True}, f)
    # from_hex
    texts = gen_hex(ck)
    hres = [r for part in pool_map(_hex_chunk, list(chunks(texts, 2000))) for r in part]
    hreq = []
    for t, (out, fail) in zip(texts, hres):
        ck.note_case('hex:' + t)
        ck.count('hex:' + out.split(' ')[0])
        if fail:
            ck.oracle_fail({'hex': t}, fail)
        hreq.append('hexdec ' + ' '.join(str(ord(' ' if (c.isspace() and ord(c) < 256) else c)) for c in t))
    ck.compare('decode_any.hex', hreq, [r[0] for r in hres], ck.driver.run(hreq))
    if ck.tier == 'thorough':
        ab = [(a, b) for a in range(256) for b in range(256)]
        bres = [r for part in pool_map(_block_chunk, list(chunks(ab, 512))) for r in part]
        breq = ['decblk %d %d' % p for p in ab]
        bmodel = ck.driver.run(breq)
        for (a, b), (line, fails) in zip(ab, bres):
            for seq, fail in fails:
                ck.oracle_fail({'seq': repr(seq)}, fail)
        ck.compare('decode_any.len3-exhaustive', breq, [r[0] for r in bres], bmodel)
        ck.evaluations += 256 * len(ab)
        ck.count('len:3', 256 * len(ab))
        ck.exhaustive['byte strings of length 3 (all 16 777 216)'] = True
        ck.hist['blocks_of_256'] = len(ab)
        ck.notes.append('length-3 strings are counted in evaluations but, being 16.8 M, not stored in the distinct set; '
                        'distinct_nontrivial therefore undercounts')
    return ck.finish(RULE, assumptions=[
        'Python sequence equality is the meaning of "reproduce the input exactly" ([248] == [248.0])',
        'iterators without len() are not sequences (TypeError, allowed)'])


def oracle(case):
    if 'containers' in case:
        return container_fail()
    if 'during_load' in case:
        return during_load_fail()
    if 'hex' in case:
        return impl_hex(case['hex'])[1]
    return impl_decode(eval(case['seq']))[1]


def replay(ck, rp):
    return generic_replay(ck, rp, oracle)
