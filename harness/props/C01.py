"""C01 — message byte codec round-trips every valid message."""
from fractions import Fraction

from .. import msgs
from .. import envprobe
from ..common import chunks, generic_replay, pool_map

RULE = ('non-sysex messages: enumerated from the attribute ranges (quick: boundary grid + all 16384 pitches on 3 '
        'channels + all song positions + all quarter frames + random; thorough: every in-range combination of every '
        'type); sysex: lengths from {0,1,2,3,126..129,255,256,1000,5000,random} with boundary-biased contents; '
        'a case is distinct by (type, attribute values); every case is non-trivial (it exercises encode, len, hex, '
        'from_bytes, from_hex, bin on the real implementation and encode/decode in the model)')

TIMES = [0, 1, -3, 10 ** 30, 0.5, 1e-7, Fraction(1, 3), True]


def _impl_case(case):
    """Run one message through the real implementation; returns (enc_line, dec_line, failure)."""
    import mido
    t, d, time = case
    fail = None
    if len(d) and sum(hash(str(v)) for v in d.values()) % 7 == 0:
        # rejected calls earlier in the process (truncated bytes, out-of-range values, text that is no hex) leave no trace
        for bad in (lambda: mido.Message.from_bytes([0x90, 1]), lambda: mido.Message('note_on', note=999),
                    lambda: mido.Message.from_hex('9Z 00'), lambda: mido.Message.from_bytes([0xf0, 1, 2]),
                    lambda: mido.Message('sysex', data=[1, 300])):
            try:
                bad()
            except (ValueError, TypeError):
                pass
    try:
        if len(d) and (sum(hash(str(v)) for v in d.values()) + len(t)) % 5 == 0 and (t != 'sysex' or len(d['data']) < 300):
            _used_elsewhere(mido, t, d)
        m = mido.Message(t, time=time, **d)
        if len(d) and sum(hash(str(v)) for v in d.values()) % 3 == 0:
            # assignments the message refuses (ill-typed or out-of-range values) leave it as it was: what is encoded below is
            # the message that was constructed
            for name in d:
                for badv in (100.0, None, 'x', 1000, -1, [1, 2.0] if name == 'data' else (1,)):
                    try:
                        setattr(m, name, badv)
                        setattr(m, name, d[name])      # accepted after all (e.g. pitch=1000): put the value back
                    except (ValueError, TypeError):
                        pass
            try:
                m.time = 'soon'
            except (ValueError, TypeError):
                pass
            if t == 'sysex' and len(d['data']) < 2000:
                # the same payload assigned again from the other containers a caller has it in: still the same message
                for conv in (tuple, bytes, bytearray, list):
                    m.data = conv(d['data'])
        bs = m.bytes()
        enc_line = '%s|%d|%s|1' % (' '.join(str(int(b)) for b in bs), len(m), m.hex())
        m2 = mido.Message.from_bytes(bs, time=time)
        dec_line = 'ok ' + msgs.canon_msg(m2)
        # --- property oracle (independent of the model) ---
        ref = msgs.encode_ref(t, d)
        if list(bs) != ref:
            fail = f'bytes() {list(bs)} differ from the MIDI 1.0 layout {ref}'
        elif len(m) != len(bs):
            fail = f'len(m)={len(m)} but {len(bs)} bytes'
        elif not (m2 == m and m2.type == t and m2.time is time or (m2 == m and m2.time == time)):
            fail = f'from_bytes(bytes()) = {vars(m2)} differs from {vars(m)}'
        elif any(type(v) is not type(vars(m)[k]) and k != 'data' for k, v in vars(m2).items() if k not in ('time',)):
            fail = f'attribute types changed in round trip: {vars(m2)}'
        else:
            m3 = mido.Message.from_hex(m.hex(), time=time)
            m4 = mido.Message.from_bytes(m.bin(), time=time)
            if m3 != m or m4 != m:
                fail = f'from_hex/bin round trip differs: {vars(m3)} / {vars(m4)} vs {vars(m)}'
            elif bs[0] < 0x80 or any(b > 0x7f for b in (bs[1:-1] if t == 'sysex' else bs[1:])):
                fail = f'encoding not well formed: {list(bs)}'
            elif t == 'sysex' and (bs[-1] != 0xf7 or tuple(bs[1:-1]) != tuple(d['data'])):
                fail = f'sysex framing wrong: {list(bs)}'
            else:
                # every separator the API documents, with the time argument; and what bytes() returned belongs to the
                # caller: changing it must not change what any message encodes to afterwards
                for sep in (' ', '', ':', '-', ', ', 'x', 'g', 'Z', '_', '.', 'q', 'h', '|', '+', '*', '$', '^', '\\', '(', '[', '..', ' | ', '?'):
                    m5 = mido.Message.from_hex(m.hex(sep), time=time, sep=sep) if sep else None
                    if m5 is not None and (m5 != m or m5.time != time):
                        fail = f'from_hex(hex({sep!r}), time={time!r}, sep={sep!r}) = {vars(m5)} differs from {vars(m)}'
                        break
                if fail is None:
                    # the frozen twin encodes to the same bytes (whatever was encoded before it in this process)
                    from mido.frozen import freeze_message
                    fz = freeze_message(m)
                    if list(fz.bytes()) != ref or mido.Message.from_bytes(fz.bytes(), time=time) != m:
                        fail = f'the frozen copy of {m!r} encodes to {list(fz.bytes())} instead of {ref}'
                if fail is None:
                    # keyword order is not part of a message: the same values given in another order (constructor,
                    # from_dict) encode to the same bytes
                    rd = dict(reversed(list(d.items())))
                    mr = mido.Message(t, time=time, **rd)
                    md = mido.Message.from_dict(dict(reversed(list(m.dict().items()))))
                    if list(mr.bytes()) != ref or list(md.bytes()) != ref or list(mr.copy().bytes()) != ref:
                        fail = (f'the same values given in another keyword order encode to {list(mr.bytes())} (constructor) / '
                                f'{list(md.bytes())} (from_dict) instead of {ref}')
                if fail is None and (t == 'sysex' or len(ref) % 2 == 1):
                    # copies made by the standard library are the same message, and making them leaves the original alone
                    from .. import persist
                    fail = persist.message_clone_failure(mido, m)
                    if fail is None:
                        for how, c in persist.clones(m):
                            if list(c.bytes()) != ref or mido.Message.from_bytes(c.bytes(), time=time) != c:
                                fail = f'the {how} of {m!r} encodes to {list(c.bytes())} / does not decode back to itself'
                                break
                        if fail is None and (list(m.bytes()) != ref or mido.Message.from_bytes(m.bytes(), time=time) != m):
                            fail = f'after copy / deepcopy / pickle of {m!r} the original no longer round-trips: {vars(m)}'
                if fail is None:
                    # what from_bytes / from_hex returned belongs to the caller (a recorder stamps the arrival time, an editor
                    # changes a value): decoding the same bytes again gives the message of the bytes
                    for tm in (0, time):
                        x = mido.Message.from_bytes(list(ref), time=tm)
                        x.time = 31337
                        for name in ('note', 'value', 'program', 'pitch', 'pos', 'song', 'frame_value', 'control', 'velocity'):
                            if hasattr(x, name):
                                setattr(x, name, 1)
                        if t == 'sysex':
                            x.data = (9,)
                        y = mido.Message.from_bytes(list(ref), time=tm)
                        z = mido.Message.from_hex(m.hex(), time=tm)
                        if not (y == m.copy(time=tm) and z == m.copy(time=tm) and list(y.bytes()) == ref):
                            fail = (f'after the caller stamped and edited the message decoded from {ref[:12]} (time={tm!r}), decoding '
                                    f'the same bytes again gives {vars(y)} / {vars(z)} instead of {vars(m.copy(time=tm))}')
                            break
                if fail is None:
                    bs.append(0x55)
                    bs[0] = 0
                    again = mido.Message(t, time=time, **d).bytes()
                    if list(again) != ref or list(m.bytes()) != ref:
                        fail = (f'after the caller changed the list returned by bytes(), bytes() of an equal message is {list(again)} '
                                f'and of the same message {list(m.bytes())} instead of {ref}')
    except Exception as e:  # no exception is acceptable on a valid message
        enc_line = dec_line = 'err ' + type(e).__name__
        fail = f'raised {type(e).__name__}: {e}'
    return enc_line, dec_line, fail


def _used_elsewhere(mido, t, d):
    """The rest of the library handles equal messages before the codec is asked: saved to a MIDI file twice in a row (running
    status) and with another message between, sent through ports, parsed from bytes, written as SYX, printed and parsed as
    text, frozen, merged.  None of that may change what an equal message encodes to afterwards."""
    import io
    a = mido.Message(t, time=0, **d)
    rt = t in msgs.REALTIME
    try:
        mid = mido.MidiFile(type=1)
        tr = mido.MidiTrack()
        mid.tracks.append(tr)
        if not rt:
            tr.extend([a.copy(time=1), a.copy(time=2), mido.Message('note_on', note=1, time=0), a.copy(time=0), a.copy(time=0)])
        else:
            tr.extend([mido.Message('note_on', note=5), a.copy()])      # refused by save(): real-time message
        buf = io.BytesIO()
        try:
            mid.save(file=buf)
            mido.MidiFile(file=io.BytesIO(buf.getvalue()))
        except ValueError:
            pass
        mido.merge_tracks([tr, mido.MidiTrack([a.copy(time=3)])])
        port = mido.ports.EchoPort() if hasattr(mido.ports, 'EchoPort') else None
        if port is not None:
            port.send(a)
            port.send(a)
            got = port.receive()
            got.time = 9
            port.close()
        p = mido.Parser()
        p.feed(a.bytes() + a.bytes())
        for x in p:
            x.time = 4
        mido.Message.from_str(str(a))
        mido.Message.from_dict(a.dict())
        # echoed at a prompt, logged with %r, shown as part of a track / a file
        for _ in range(2):
            repr(a)
            repr(a.copy(time=5))
            '%r %s' % (a, a)
        repr(tr)
        repr(mid)
        len(a), a.hex(), a.bin(), a == a.copy(), a.is_realtime
        from mido.frozen import freeze_message
        hash(freeze_message(a))
    except Exception:
        # what these subsystems do with the message is judged by their own checks; here only the after-effect on the
        # codec matters
        pass


def _impl_chunk(cs):
    return [_impl_case(c) for c in cs]


def gen_cases(ck):
    rng = ck.rng
    cases = []
    thorough = ck.tier == 'thorough'
    for t in msgs.TYPE_NAMES:
        if t == 'sysex':
            continue
        if thorough:
            for d in msgs.all_messages(t):
                cases.append((t, d, 0))
        else:
            def grid(n, t=t):
                if n == 'channel':
                    return [0, 1, 7, 14, 15]
                if n in ('pitch', 'pos'):
                    return None
                if n == 'frame_type' or n == 'frame_value':
                    return None
                return [0, 1, 63, 64, 126, 127]
            if t == 'pitchwheel':
                def grid(n):  # noqa
                    return [0, 9, 15] if n == 'channel' else None
            for d in msgs.all_messages(t, grid):
                cases.append((t, d, 0))
    ck.exhaustive['non-sysex messages'] = thorough
    nrand = 20000 if thorough else 2000
    for _ in range(nrand):
        t, d = msgs.random_message(rng, types=[x for x in msgs.TYPE_NAMES if x != 'sysex'])
        cases.append((t, d, rng.choice(TIMES)))
    nsys = 20000 if thorough else 500
    lens = [0, 1, 2, 3, 126, 127, 128, 129, 255, 256, 1000, 5000]
    for i in range(nsys):
        ln = lens[i % len(lens)] if i < 4 * len(lens) else rng.choice([rng.randint(0, 40), rng.randint(0, 2000 if not thorough else 20000)])
        if i >= 200 and ln > 3000:
            ln = rng.randint(0, 300)
        data = tuple(rng.choice([0, 1, 0x40, 0x7e, 0x7f, rng.randint(0, 127)]) for _ in range(ln))
        cases.append(('sysex', {'data': data}, rng.choice(TIMES)))
    return cases


def run(ck):
    ck.prepare_lean()
    ck.run_corpus(oracle)
    cases = gen_cases(ck)
    res = [r for part in pool_map(_impl_chunk, list(chunks(cases, 4000))) for r in part]
    enc_req, dec_req = [], []
    for (t, d, time), (enc_line, dec_line, fail) in zip(cases, res):
        ck.count('type:' + t)
        ck.count('time:' + type(time).__name__)
        key = msgs.canon_vals(t, d)
        ck.note_case(key)
        if fail:
            ck.oracle_fail({'type': t, 'attrs': {k: (list(v) if k == 'data' else v) for k, v in d.items()},
                            'time': repr(time)}, fail)
        enc_req.append('enc ' + key)
        bs = enc_line.split('|')[0]
        dec_req.append('dec ' + bs if not enc_line.startswith('err') else 'dec')
    for c in cases[:3] + cases[-2:]:
        ck.sample({'type': c[0], 'attrs': {k: (list(v)[:16] if k == 'data' else v) for k, v in c[1].items()}, 'time': repr(c[2])})
    model_enc = ck.driver.run(enc_req)
    ck.compare('codec.encode', enc_req, [r[0] for r in res], model_enc)
    model_dec = ck.driver.run(dec_req)
    ck.compare('codec.decode', dec_req, [r[1] for r in res], model_dec)
    envprobe.check(ck, ['codec'])
    return ck.finish(RULE, assumptions=[
        'time values are passed through by identity (checked by the oracle on int, negative, huge, float, Fraction, bool)',
        'separators other than the default are not modelled'])


def oracle(case):
    if 'environment' in case:
        return envprobe.oracle(case)
    d = dict(case['attrs'])
    if 'data' in d:
        d['data'] = tuple(d['data'])
    time = eval(case['time'], {'Fraction': Fraction})
    return _impl_case((case['type'], d, time))[2]


def replay(ck, rp):
    return generic_replay(ck, rp, oracle)
