"""C18 — socket ports deliver exactly the complete messages before a disconnect."""
import socket
import sys
import threading
import time

from .. import msgs, parsing, portsim
from ..common import HarnessTimeout, exc_name, generic_replay

RULE = ('message lists (<= 6 messages of all types, sysex lengths 0..20) x EVERY cut offset 0..total of their byte stream x random '
        'segmentations of the bytes before the cut, sent over socket.socketpair() with the receiving SocketPort polled between '
        'segments, then the peer closes (close / shutdown); iteration of the receiving port under a sleep counter; close '
        'visibility (peer sees EOF); bursts of 1..65536 bytes (every power of two around the usual buffer sizes) from a peer that stays connected, with the non-blocking calls under a 3 s watchdog; a loopback PortServer with two clients, one of them bursting and then idle, or sending several messages and disconnecting before the server polls; four independent socket ports each drained by its own thread at the same time (1000 messages each, 48-byte sends, interpreter switch interval 1 us); a real pause of 2.4 s (thorough: 1.2, 2.4, 5.5 s) inside a message; format/parse of all ports 1..65535 x hosts. '
        'Distinct by (messages, cut, segmentation); non-trivial = cut strictly inside the stream')


def run_cut(ms, k, cuts, how):
    """Send the first k bytes of the stream in segments, disconnect, iterate the receiving port."""
    import mido
    from mido.sockets import SocketPort
    stream = [b for t, d in ms for b in msgs.encode_ref(t, d)]
    a, b = socket.socketpair()
    got = []
    end = None
    port = SocketPort('pair', 1, conn=a)
    try:
        with portsim.patched_sleep(limit=200):
            last = 0
            for c in list(cuts) + [k]:
                seg = bytes(stream[last:c])
                last = c
                if seg:
                    b.sendall(seg)
                    # sometimes let the receiver take what is there (poll never blocks); otherwise the bytes
                    # stay in the kernel buffer and are read together with what follows (possibly the EOF)
                    if (c * 7 + len(cuts) + k) % 2 == 0:
                        for m in port.iter_pending():
                            got.append(m)
            if how == 'shutdown':
                b.shutdown(socket.SHUT_RDWR)
            b.close()
            try:
                # the program may take the first of what is there with poll() / receive(), or leave a loop over the port early,
                # before it iterates to the end: everything that arrived completely is still handed out, once, in order
                early = (k + 3 * len(cuts)) % 4
                if early == 1:
                    m = port.poll()
                    if m is not None:
                        got.append(m)
                elif early == 2:
                    for m in port:
                        got.append(m)
                        break
                for m in port:
                    got.append(m)
                end = 'normal'
            except portsim.Hang:
                end = 'hang'
            except Exception as e:
                end = 'err ' + exc_name(e)
        closed = port.closed
    finally:
        try:
            port.close()
        except Exception:
            pass
        for s in (a, b):
            try:
                s.close()
            except Exception:
                pass
    # reference: messages whose encodings lie completely within the first k bytes
    want = []
    pos = 0
    for t, d in ms:
        n = len(msgs.encode_ref(t, d))
        if pos + n <= k:
            want.append(msgs.canon_vals(t, d))
            pos += n
        else:
            break
    have = [msgs.canon_msg(m) for m in got]
    fail = None
    if have != want:
        fail = f'received {have}, but the messages that arrived completely are {want}'
    elif end != 'normal':
        fail = f'iteration over the socket port ended with {end}'
    elif not closed:
        fail = 'the port does not report itself closed after the disconnect'
    return '%d ok%s' % (len(want), (' ' + ';'.join(have)) if have else ''), end, fail


def close_visible():
    from mido.sockets import SocketPort
    a, b = socket.socketpair()
    try:
        port = SocketPort('pair', 1, conn=a)
        port.close()
        b.settimeout(1.0)
        try:
            data = b.recv(1)
        except socket.timeout:
            return 'after SocketPort.close() the peer sees no disconnect within 1 s (recv timed out)'
        except OSError:
            return None       # connection reset also is a disconnect
        if data != b'':
            return f'peer received {data!r} instead of EOF'
        return None
    finally:
        for s in (a, b):
            try:
                s.close()
            except Exception:
                pass


def send_after_disconnect(k_cut, nsegs):
    """Over TCP loopback: the peer sends complete messages and the first k_cut bytes of another one, then disconnects; the local
    side, which has not looked at its input yet, writes ONE message to the connection (that write succeeds and reports
    nothing), and only then drains its input.  It must get exactly the complete messages, a silent end of the iteration and
    a closed port."""
    import time
    import mido
    from mido.sockets import connect
    complete = [mido.Message('note_on', channel=3, note=60, velocity=100), mido.Message('sysex', data=[1, 2, 3, 4, 5]),
                mido.Message('pitchwheel', channel=1, pitch=-200)]
    stream = b''.join(m.bin() for m in complete) + mido.Message('control_change', control=7, value=99).bin()[:k_cut]
    try:
        listener = socket.socket(socket.AF_INET, socket.SOCK_STREAM)
        listener.bind(('127.0.0.1', 0))
        listener.listen(1)
        port = connect('127.0.0.1', listener.getsockname()[1])
        peer, _ = listener.accept()
        listener.close()
    except OSError:
        return None          # no loopback networking in this sandbox: nothing to judge
    got = []
    fail = None
    try:
        step = max(1, len(stream) // max(1, nsegs))
        for i in range(0, len(stream), step):
            peer.sendall(stream[i:i + step])
            time.sleep(0.02)
        peer.close()
        time.sleep(0.3)
        try:
            port.send(mido.Message('note_on', note=1, velocity=1))
        except OSError:
            return None      # the kernel already reported the broken connection to the writer: another scenario
        time.sleep(0.3)
        with portsim.patched_sleep(limit=200):
            try:
                for m in port:
                    got.append(m)
            except portsim.Hang:
                fail = 'iteration over the socket port did not end after the peer disconnected'
            except Exception as e:
                fail = (f'after the peer disconnected and the local side wrote one message, iteration raised {type(e).__name__}: {e} '
                        f'(after yielding {len(got)} messages) instead of ending quietly')
        if fail is None and got != complete:
            fail = f'after the peer disconnected and the local side wrote one message, the port yielded {got!r}, the complete messages are {complete!r}'
        if fail is None and not port.closed:
            fail = 'the port does not report itself closed after the disconnect (one local write in between)'
    finally:
        for x in (port, peer):
            try:
                x.close()
            except Exception:
                pass
    return fail


def pending_reentry(mode):
    """Several complete messages have arrived on a socket port.  The consumer takes the first one from iter_pending() and
    then (mode 'poll') calls poll() from inside the loop, or (mode 'break') leaves the loop and comes back later, or (mode
    'multi') takes one through multi_receive and then iterates: every message that arrived is handed out once, in order."""
    import time
    import mido
    from mido.ports import multi_receive
    from mido.sockets import SocketPort
    a, b = socket.socketpair()
    port = SocketPort('pair', 1, conn=a)
    sent = [mido.Message('note_on', note=i + 1, velocity=i + 1) for i in range(6)]
    got = []
    try:
        b.sendall(b''.join(m.bin() for m in sent))
        time.sleep(0.05)
        if mode == 'poll':
            for m in port.iter_pending():
                got.append(m)
                x = port.poll()
                if x is not None:
                    got.append(x)
        elif mode == 'break':
            for m in port.iter_pending():
                got.append(m)
                break
            got.extend(port.iter_pending())
        else:
            for m in multi_receive([port], block=False):
                got.append(m)
                break
            while True:
                x = port.poll()
                if x is None:
                    break
                got.append(x)
        b.close()
        with portsim.patched_sleep(limit=200):
            for m in port:
                got.append(m)
    except portsim.Hang:
        return f'iteration did not end ({mode})'
    except Exception as e:
        return f'{mode}: raised {type(e).__name__}: {e}'
    finally:
        for x in (port, a, b):
            try:
                x.close()
            except Exception:
                pass
    if got != sent:
        return (f'six complete messages arrived; the consumer took one from iter_pending() and then used the port again ({mode}): '
                f'it was handed notes {[m.note for m in got]}, arrived {[m.note for m in sent]}')
    return None


def burst_msgs(n, base):
    """messages whose encodings total exactly n bytes: note_ons and (n % 3) clock bytes"""
    import mido
    out = [portsim.msg_of(base + i) for i in range(n // 3)]
    return out + [mido.Message('clock') for _ in range(n % 3)]


def open_burst(sizes):
    """The peer sends bursts of exactly the given byte sizes and stays connected and silent; after each burst the
    non-blocking iter_pending() must return, with every message that has arrived completely."""
    from mido.sockets import SocketPort
    a, b = socket.socketpair()
    port = SocketPort('pair', 1, conn=a)
    try:
        base = 0
        for n in sizes:
            ms = burst_msgs(n, base)
            base += len(ms)
            b.sendall(b''.join(bytes(m.bytes()) for m in ms))
            result = {}

            def work():
                try:
                    result['got'] = [msgs.canon_msg(m) for m in port.iter_pending()]
                except Exception as e:
                    result['err'] = f'{type(e).__name__}: {e}'
            t = threading.Thread(target=work, daemon=True)
            t.start()
            t.join(3)
            if t.is_alive():
                b.close()           # lets the blocked reader see EOF and finish
                t.join(3)
                return f'the non-blocking iter_pending() did not return within 3 s after a burst of {n} bytes from a peer that stays connected'
            if 'err' in result:
                return 'iter_pending() raised ' + result['err']
            want = [msgs.canon_msg(m) for m in ms]
            if result['got'] != want:
                return f'after a burst of {n} bytes {len(result["got"])} of the {len(want)} messages that arrived completely were handed out'
        return None
    finally:
        try:
            port.close()
        except Exception:
            pass
        for s_ in (a, b):
            try:
                s_.close()
            except Exception:
                pass


def close_while_receiving(action):
    """One thread waits in a blocking receive() / for-loop on a silent connection; another closes the port (or the peer
    disconnects).  close() must return, the waiting call must end, and the peer must see the disconnect."""
    from mido.sockets import SocketPort
    a, b = socket.socketpair()
    port = SocketPort('pair', 1, conn=a)
    result = {}
    try:
        def waiter():
            try:
                if action.startswith('iter'):
                    result['got'] = [msgs.canon_msg(m) for m in port]
                else:
                    result['got'] = port.receive()
            except Exception as e:
                result['exc'] = e
        t = threading.Thread(target=waiter, daemon=True)
        t.start()
        time.sleep(0.1)
        if action.endswith('close'):
            c = threading.Thread(target=port.close, daemon=True)
            c.start()
            c.join(2)
            if c.is_alive():
                return f'close() from another thread does not return while a blocking {action.split("_")[0]} waits on a silent connection'
            b.settimeout(1.0)
            try:
                if b.recv(1) != b'':
                    return 'the peer received data instead of a disconnect'
            except socket.timeout:
                return 'after close() from another thread the peer sees no disconnect within 1 s'
            except OSError:
                pass
        else:
            b.close()
        t.join(2)
        if t.is_alive():
            return f'the blocking {action.split("_")[0]} does not end after the {"port was closed by another thread" if action.endswith("close") else "peer disconnected"}'
        if action.startswith('iter') and 'exc' in result:
            return f'iteration ended with {type(result["exc"]).__name__}'
        return None
    finally:
        for s_ in (a, b):
            try:
                s_.close()
            except Exception:
                pass


def two_ports_in_threads(nmsg=1000, chunk=48, nports=4):
    """Two independent socket ports drained by two threads at the same time: each receives exactly its own messages."""
    from mido.sockets import SocketPort
    pairs = [socket.socketpair() for _ in range(nports)]
    ports = [SocketPort('p%d' % i, 1, conn=a) for i, (a, _b) in enumerate(pairs)]
    results = [[] for _ in range(nports)]
    errs = []
    go = threading.Event()
    old_interval = sys.getswitchinterval()
    sys.setswitchinterval(1e-6)          # switch threads as often as the interpreter allows
    try:
        def sender(i):
            b = pairs[i][1]
            data = b''.join(bytes(portsim.msg_of(i * 8000 + k).bytes()) + (bytes([0xf0, i, k % 128, 0xf7]) if k % 7 == 0 else b'')
                            for k in range(nmsg))
            go.wait()
            for j in range(0, len(data), chunk):
                b.sendall(data[j:j + chunk])
            b.close()

        def receiver(i):
            go.wait()
            try:
                for m in ports[i]:
                    results[i].append(msgs.canon_msg(m))
            except Exception as e:
                errs.append(f'port {i}: iteration raised {type(e).__name__}: {e}')
        ths = [threading.Thread(target=f, args=(i,), daemon=True) for i in range(nports) for f in (sender, receiver)]
        for t in ths:
            t.start()
        go.set()
        for t in ths:
            t.join(20)
        if any(t.is_alive() for t in ths):
            return 'several socket ports drained by one thread each: not finished within 20 s'
        if errs:
            return errs[0]
        import mido
        for i in range(nports):
            want = []
            for k in range(nmsg):
                want.append(msgs.canon_msg(portsim.msg_of(i * 8000 + k)))
                if k % 7 == 0:
                    want.append(msgs.canon_msg(mido.Message('sysex', data=(i, k % 128))))
            if results[i] != want:
                bad = next((j for j, (x, y) in enumerate(zip(results[i], want)) if x != y), min(len(results[i]), len(want)))
                return (f'{nports} socket ports, each drained by its own thread at the same time (switch interval 1 us): port {i} received {len(results[i])} messages, '
                        f'{len(want)} were sent to it; first difference at index {bad}: {results[i][bad:bad + 2]} vs {want[bad:bad + 2]}')
        return None
    finally:
        sys.setswitchinterval(old_interval)
        for a, b in pairs:
            for s_ in (a, b):
                try:
                    s_.close()
                except Exception:
                    pass


def stall_inside_message(pause):
    """All bytes of a message arrive, with a real pause in the middle: it is delivered all the same."""
    from mido.sockets import SocketPort
    a, b = socket.socketpair()
    port = SocketPort('pair', 1, conn=a)
    try:
        b.sendall(bytes([0x90, 1, 2, 0xf0, 5, 6]))
        got = [msgs.canon_msg(m) for m in port.iter_pending()]
        time.sleep(pause)
        b.sendall(bytes([7, 0xf7, 0x80, 3]))
        got += [msgs.canon_msg(m) for m in port.iter_pending()]
        time.sleep(pause / 2)
        b.sendall(bytes([4]))
        b.close()
        got += [msgs.canon_msg(m) for m in port]
        import mido
        want = [msgs.canon_msg(m) for m in (mido.Message('note_on', note=1, velocity=2), mido.Message('sysex', data=(5, 6, 7)),
                                            mido.Message('note_off', note=3, velocity=4))]
        if got != want:
            return f'with a pause of {pause} s inside a message the port delivered {got} instead of {want}'
        return None
    finally:
        for s_ in (a, b):
            try:
                s_.close()
            except Exception:
                pass


def server_case(rng, burst=None, leave=0):
    """Two clients send to a loopback PortServer; poll() must hand out both without blocking."""
    import mido
    from mido import sockets
    try:
        server = sockets.PortServer('127.0.0.1', 0)
    except OSError as e:
        raise HarnessTimeout(f'loopback sockets unavailable: {e}')
    port = server._socket.getsockname()[1]
    clients = []
    result = {}
    try:
        clients = [sockets.connect('127.0.0.1', port) for _ in range(2)]
        sent = []
        for i, c in enumerate(clients):
            m = portsim.msg_of(1000 + i)
            c.send(m)
            sent.append(msgs.canon_msg(m))
        if burst:
            # one client sends a burst of exactly `burst` bytes in one write and then stays connected and silent
            ms = burst_msgs(burst, 2000)
            clients[0]._wfile.write(b''.join(bytes(m.bytes()) for m in ms))
            clients[0]._wfile.flush()
            sent += [msgs.canon_msg(m) for m in ms]
            time.sleep(0.05)
        if leave:
            # a client sends several complete messages and disconnects before the server has looked at them
            for i in range(leave):
                m = portsim.msg_of(3000 + i)
                clients[1].send(m)
                sent.append(msgs.canon_msg(m))
            clients[1].close()
            time.sleep(0.05)
        nsent = len(sent)

        def work():
            got = []
            deadline = time.time() + 4
            try:
                while len(got) < nsent and time.time() < deadline:
                    m = server.poll()
                    if m is not None:
                        got.append(msgs.canon_msg(m))
                    else:
                        time.sleep(0.01)
                result['got'] = got
            except Exception as e:
                result['err'] = f'{type(e).__name__}: {e}'
        t = threading.Thread(target=work, daemon=True)
        t.start()
        t.join(6)
        if t.is_alive():
            return 'PortServer.poll() did not return (blocked for ever)'
        if 'err' in result:
            return 'PortServer.poll() raised ' + result['err']
        if sorted(result.get('got', [])) != sorted(sent):
            return f'server handed out {len(result.get("got", []))} of the {len(sent)} messages sent by its two clients: {str(result.get("got"))[:200]}'
        return None
    finally:
        for c in clients:
            try:
                c.close()
            except Exception:
                pass
        try:
            server.close()
        except Exception:
            pass


def addr_cases(ck):
    from mido.sockets import format_address, parse_address
    hosts = ['localhost', '', '127.0.0.1', 'example.org', 'a-b.c', 'h', 'HOST', 'x' * 40, '0', 'ex ample', '[not v6]', 'ü']
    reqs, impl = [], []
    ports = range(1, 65536) if ck.tier == 'thorough' else list(range(1, 300)) + [1023, 1024, 8080, 9999, 10000, 32767, 32768, 65534, 65535] + \
        [ck.rng.randrange(1, 65536) for _ in range(3000)]
    for p in ports:
        for h in (hosts if p % 97 == 0 or p < 20 else hosts[:2]):
            ck.evaluations += 1
            try:
                s = format_address(h, p)
                back = parse_address(s)
            except Exception as e:
                ck.oracle_fail({'host': h, 'port': p}, f'format/parse raised {type(e).__name__}: {e}')
                continue
            if back != (h, p):
                ck.oracle_fail({'host': h, 'port': p}, f'parse_address(format_address({h!r}, {p})) = {back!r} (formatted as {s!r})')
            reqs.append('addr fmt %d %s' % (p, ' '.join(str(ord(c)) for c in h)))
            impl.append(' '.join(str(ord(c)) for c in s))
    ck.exhaustive['ports 1..65535 (thorough)'] = ck.tier == 'thorough'
    bad = ['', ':', 'host', 'host:', ':80', 'host:0', 'host:65536', 'host:65535', 'a:b:1', 'host:80x', 'host:-1', 'h:080', 'h:00001',
           'host:99999999999', '::', 'h:8 0']
    for s in bad:
        ck.evaluations += 1
        try:
            r = parse_address(s)
            line = 'ok %d %s' % (r[1], ' '.join(str(ord(c)) for c in r[0]))
            try:
                if parse_address(format_address(*r)) != r:
                    ck.oracle_fail({'address': s}, 'parse -> format -> parse is not stable')
            except Exception as e:
                ck.oracle_fail({'address': s}, f'format of a parsed address raised {type(e).__name__}')
        except ValueError:
            line = 'err ValueError'
        except Exception as e:
            line = 'err ' + exc_name(e)
            ck.oracle_fail({'address': s}, f'parse_address raised {type(e).__name__} (ValueError expected)')
        reqs.append(('addr parse ' + ' '.join(str(ord(c)) for c in s)).strip())
        impl.append(line.strip())
    ck.compare('socket.address', reqs, impl, [l.strip() for l in ck.driver.run(reqs)])


def gen(ck):
    rng = ck.rng
    lists = []
    for _ in range(40 if ck.tier == 'quick' else 1500):
        ms = [msgs.random_message(rng, max_sysex=20) for _ in range(rng.randint(1, 6))]
        lists.append(ms)
    lists.append([('clock', {}), ('sysex', {'data': ()}), ('note_on', {'channel': 1, 'note': 2, 'velocity': 3}), ('reset', {})])
    return lists


def run(ck):
    ck.prepare_lean()
    ck.run_corpus(oracle)
    rng = ck.rng
    reqs, impl = [], []
    for ms in gen(ck):
        total = sum(len(msgs.encode_ref(t, d)) for t, d in ms)
        for k in range(total + 1):
            for _ in range(2 if ck.tier == 'quick' else 3):
                cuts = sorted(set(rng.randrange(0, k + 1) for _ in range(rng.randint(0, 3)))) if k else []
                how = rng.choice(['close', 'close', 'shutdown'])
                line, end, fail = run_cut(ms, k, cuts, how)
                ck.note_case((repr(ms), k, tuple(cuts)), nontrivial=0 < k < total)
                ck.count('segments:%d' % (len(cuts) + 1))
                ck.count('end:' + end)
                if fail:
                    ck.oracle_fail({'msgs': [[t, {a: list(v) if a == 'data' else v for a, v in d.items()}] for t, d in ms],
                                    'k': k, 'cuts': cuts, 'how': how}, fail)
            reqs.append('cut %d %s' % (k, ' | '.join(msgs.canon_vals(t, d) for t, d in ms)))
            impl.append(line)
    ck.exhaustive['every cut offset of every generated stream'] = True
    ck.compare('socket.cut', reqs, impl, ck.driver.run(reqs))
    for _ in range(3 if ck.tier == 'quick' else 30):
        ck.evaluations += 1
        f = close_visible()
        if f:
            ck.oracle_fail({'close_visible': True}, f)
    for _ in range(2 if ck.tier == 'quick' else 20):
        ck.evaluations += 1
        f = server_case(rng)
        if f:
            ck.oracle_fail({'server': True}, f)
    # a client that sends many complete messages and is gone before the server looks (any limit on what is taken per round
    # must not lose the rest)
    for leave in (3, 129, 200, 700):
        ck.evaluations += 1
        ck.count('server_client_leaves:%d' % leave)
        f = server_case(rng, leave=leave)
        if f:
            ck.oracle_fail({'server': True, 'leave': leave}, f)
    # bursts at the sizes where buffered reading changes behaviour, from a peer that stays connected
    sizes_list = [[1, 2, 3], [512, 512], [1023, 1], [1024], [1025], [2048, 1], [4096], [8192, 3], [1024, 1024, 5]]
    if ck.tier != 'quick':
        sizes_list += [[n] for n in (127, 128, 255, 256, 511, 2047, 3072, 4095, 4097, 16384, 65536)]
        sizes_list += [[rng.choice([1, 3, 1024, 2048, 4096, rng.randint(1, 5000)]) for _ in range(rng.randint(1, 4))] for _ in range(40)]
    for sizes in sizes_list:
        ck.evaluations += 1
        ck.count('open_burst')
        ck.note_case(('burst', tuple(sizes)))
        f = open_burst(sizes)
        if f:
            ck.oracle_fail({'burst': sizes}, f)
    for _ in range(8 if ck.tier == 'quick' else 40):
        ck.evaluations += 1
        ck.count('two_ports_in_threads')
        f = two_ports_in_threads()
        if f:
            ck.oracle_fail({'two_ports': True}, f)
    for pause in ((2.4,) if ck.tier == 'quick' else (1.2, 2.4, 5.5)):
        ck.evaluations += 1
        ck.count('stall_inside_message')
        f = stall_inside_message(pause)
        if f:
            ck.oracle_fail({'stall': pause}, f)
    for action in ('receive_close', 'iter_close', 'receive_peer', 'iter_peer'):
        ck.evaluations += 1
        ck.count('two_threads:' + action)
        f = close_while_receiving(action)
        if f:
            ck.oracle_fail({'two_threads': action}, f)
    for k_cut, nsegs in ([(0, 1), (2, 3)] if ck.tier == 'quick' else [(0, 1), (1, 2), (2, 3), (2, 9)]):
        ck.evaluations += 1
        ck.count('send_after_disconnect')
        f = send_after_disconnect(k_cut, nsegs)
        if f:
            ck.oracle_fail({'send_after_disconnect': [k_cut, nsegs]}, f)
    for mode in ('poll', 'break', 'multi'):
        ck.evaluations += 1
        ck.count('pending_reentry')
        f = pending_reentry(mode)
        if f:
            ck.oracle_fail({'pending_reentry': mode}, f)
    for leave in ([2, 6] if ck.tier == 'quick' else [1, 2, 3, 6, 20, 100]):
        ck.evaluations += 1
        ck.count('server_client_leaves')
        f = server_case(rng, None, leave)
        if f:
            ck.oracle_fail({'server': True, 'leave': leave}, f)
    for burst in ([1024, 4096] if ck.tier == 'quick' else [1, 1023, 1024, 1025, 2048, 4096, 8192]):
        ck.evaluations += 1
        ck.count('server_burst')
        f = server_case(rng, burst)
        if f:
            ck.oracle_fail({'server': True, 'burst_bytes': burst}, f)
    addr_cases(ck)
    ck.sample({'msgs': 'note_on 0 60 64; sysex 1 2 3', 'cut': 4, 'segments': [[144, 60], [64, 240]]})
    return ck.finish(RULE, assumptions=[
        'kernel buffering, select readiness and TCP/unix-socket semantics are the OS\'s: bytes written before the close are '
        'readable before EOF, in order; EOF is readable after the descriptor is closed',
        'int() grammar beyond ASCII digits is outside the address model'])


def oracle(case):
    if 'pending_reentry' in case:
        return pending_reentry(case['pending_reentry'])
    if 'send_after_disconnect' in case:
        return send_after_disconnect(*case['send_after_disconnect'])
    if 'close_visible' in case:
        return close_visible()
    if 'two_ports' in case:
        return two_ports_in_threads()
    if 'stall' in case:
        return stall_inside_message(case['stall'])
    if 'two_threads' in case:
        return close_while_receiving(case['two_threads'])
    if 'burst' in case:
        return open_burst(case['burst'])
    if 'server' in case:
        import random
        return server_case(random.Random(0), case.get('burst_bytes'), case.get('leave', 0))
    if 'host' in case:
        from mido.sockets import format_address, parse_address
        try:
            return None if parse_address(format_address(case['host'], case['port'])) == (case['host'], case['port']) else 'format/parse are not inverse'
        except Exception as e:
            return f'raised {type(e).__name__}'
    if 'address' in case:
        return None
    ms = [(t, {a: tuple(v) if a == 'data' else v for a, v in d.items()}) for t, d in case['msgs']]
    return run_cut(ms, case['k'], case['cuts'], case['how'])[2]


def replay(ck, rp):
    return generic_replay(ck, rp, oracle)
