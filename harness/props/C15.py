"""C15 — copy, freeze and thaw have value semantics."""
from .. import metas, msgs
from .C03 import SX, _real
from .. import envprobe
from ..common import chunks, exc_name, generic_replay, pool_map

RULE = ('op sequences (<= 20 ops) over a pool of live Message / MetaMessage / UnknownMetaMessage objects and their frozen '
        'variants: construct, copy with valid and invalid override sets, freeze, thaw (also of None), setattr on originals and on '
        'copies, delattr, hash, ==; after EVERY op the class and vars() of EVERY live object are compared with the model heap, so '
        'that shared state shows up as an unexpected change of an untouched object. Distinct by op list; non-trivial = at least one '
        'assignment after a copy/freeze/thaw')

CLASSES = {'Message': 'Message', 'MetaMessage': 'MetaMessage', 'UnknownMetaMessage': 'UnknownMetaMessage',
           'FrozenMessage': 'Message', 'FrozenMetaMessage': 'MetaMessage', 'FrozenUnknownMetaMessage': 'UnknownMetaMessage'}


class _OutOfDomain(Exception):
    pass


def obj_tok(o):
    import mido
    cls = type(o).__name__
    fam = CLASSES.get(cls, cls)
    frozen = 'F:' if cls.startswith('Frozen') else 'U:'
    d = vars(o)
    if fam == 'Message':
        _, names = msgs.TYPES[d['type']]
        body = ' '.join([d['type']] + [metas.val_tok(d[n]) for n in names]) + ' time=' + metas.val_tok(d['time'])
    elif fam == 'MetaMessage':
        _, attrs = metas.META[d['type']]
        body = ' '.join([d['type']] + [metas.val_tok(d[a]) for a, _ in attrs]) + ' time=' + metas.val_tok(d['time'])
    else:
        body = '%s %s time=%s' % (metas.val_tok(d['type_byte']), metas.val_tok(d['data']), metas.val_tok(d['time']))
        if set(d) != {'type', 'type_byte', 'data', 'time'}:
            body += ' EXTRA:' + ','.join(sorted(d))
    return frozen + fam + ' ' + body


def run_history(ops):
    import mido
    from mido.frozen import freeze_message, thaw_message, is_frozen
    pool = []
    lines = []
    fail = None

    def snapshot():
        return [(type(o).__name__, dict(vars(o))) for o in pool]
    for op in ops:
        k = op[0]
        before = snapshot()
        touched = None
        out = None
        refs = [x for x in ((op[1],) if k in ('copy', 'freeze', 'thaw', 'set', 'del', 'hash') else (op[1], op[2]) if k == 'eq' else ())
                if x is not None]
        if any(r >= len(pool) for r in refs):
            # the generator assumed an earlier (rejected) op had created this object: not an op on a live object
            lines.append('err Other')
            lines.append(' | '.join(obj_tok(o) for o in pool))
            continue
        try:
            if k == 'newmsg':
                pool.append(mido.Message(op[1], **dict(op[2])))
                out = 'ref %d' % (len(pool) - 1)
            elif k == 'newmeta':
                pool.append(mido.MetaMessage(op[1], **dict(op[2])))
                out = 'ref %d' % (len(pool) - 1)
            elif k == 'newunk':
                pool.append(mido.UnknownMetaMessage(op[1], data=op[2], time=op[3]))
                out = 'ref %d' % (len(pool) - 1)
            if k in ('newmsg', 'newmeta', 'newunk') and fail is None and len(pool) % 2 == 1 and vars(pool[-1]).get('time') != 77:
                fail = _clone_semantics(mido, pool[-1])
            if k in ('newmsg', 'newmeta', 'newunk'):
                pass
            elif k == 'copy':
                src = pool[op[1]]
                kw = {n_: _real(v_) for n_, v_ in op[3]}
                if op[2] is not None:
                    kw['type'] = op[2]
                c = src.copy(**kw)
                pool.append(c)
                out = 'ref %d' % (len(pool) - 1)
                if fail is None:
                    if c is src:
                        fail = 'copy() returned the same object'
                    elif type(c) is not type(src):
                        fail = f'copy() of {type(src).__name__} returned {type(c).__name__}'
                    elif not kw and not (c == src):
                        fail = 'copy() without overrides is not equal to the original'
                    elif kw:
                        # equal to a freshly constructed message with those values
                        try:
                            d = dict(vars(src))
                            d.update(kw)
                            base = {'Message': mido.Message, 'MetaMessage': mido.MetaMessage}.get(CLASSES[type(src).__name__])
                            if base is not None:
                                fresh = base(**d)
                                if not (fresh == c):
                                    fail = f'copy with overrides {kw} = {c!r}, a fresh message with those values is {fresh!r}'
                        except Exception as e:
                            fail = f'copy accepted overrides {kw} that a fresh construction rejects ({type(e).__name__})'
                    if kw and fail is None:
                        # the same VALID overrides with the skip_checks flag (where the class takes it): same message
                        try:
                            c2 = src.copy(skip_checks=True, **kw)
                        except Exception:
                            c2 = None
                        if c2 is not None:
                            if type(c2) is not type(c) or vars(c2) != vars(c) or \
                                    any(type(v) is not type(vars(c)[n]) for n, v in vars(c2).items()):
                                fail = f'copy(skip_checks=True, **{kw}) = {c2!r} with attributes {vars(c2)}, without the flag {vars(c)}'
                            elif is_frozen(c2):
                                try:
                                    hash(c2)
                                except Exception as e:
                                    fail = f'frozen copy(skip_checks=True, **{kw}) cannot be hashed: {type(e).__name__}'
                if fail is None and CLASSES[type(src).__name__] in ('Message', 'MetaMessage'):
                    fail = _equal_valued_twins(mido, src, kw)
            elif k == 'freeze':
                src = None if op[1] is None else pool[op[1]]
                f = freeze_message(src)
                if f is None:
                    out = 'none'
                    if src is not None and fail is None:
                        fail = 'freeze_message returned None for a message'
                elif f is src:
                    out = 'ref %d' % op[1]
                else:
                    pool.append(f)
                    out = 'ref %d' % (len(pool) - 1)
                    if fail is None and (not is_frozen(f) or not (f == src) or CLASSES[type(f).__name__] != CLASSES[type(src).__name__]):
                        fail = f'freeze_message({src!r}) = {f!r} (class {type(f).__name__})'
                if src is not None and is_frozen(src) and f is not src and fail is None:
                    fail = 'freezing a frozen message did not return it unchanged'
            elif k == 'thaw':
                src = None if op[1] is None else pool[op[1]]
                t = thaw_message(src)
                if t is None:
                    out = 'none'
                    if src is not None and fail is None:
                        fail = 'thaw_message returned None for a message'
                else:
                    pool.append(t)
                    out = 'ref %d' % (len(pool) - 1)
                    if fail is None and (is_frozen(t) or not (t == src) or t is src or CLASSES[type(t).__name__] != CLASSES[type(src).__name__]):
                        fail = f'thaw_message({src!r}) = {t!r} (class {type(t).__name__})'
            elif k == 'set':
                touched = op[1]
                tgt = pool[op[1]]
                if CLASSES[type(tgt).__name__] == 'UnknownMetaMessage' and not is_frozen(tgt) and op[2] not in ('type_byte', 'data', 'time'):
                    # UnknownMetaMessage.__setattr__ stores anything under any name: creating new attributes is
                    # outside "assigning attributes" and outside the model
                    raise _OutOfDomain()
                setattr(tgt, op[2], op[3])
                out = 'ok'
                if is_frozen(pool[op[1]]) and fail is None:
                    fail = 'a frozen message accepted an assignment'
            elif k == 'del':
                touched = op[1]
                delattr(pool[op[1]], op[2])
                out = 'ok'
                fail = fail or 'an attribute was deleted'
            elif k == 'hash':
                o = pool[op[1]]
                hv = hash(o)
                items = sorted(vars(o).items())
                out = 'hash ' + ' '.join('%s=%s' % (n, metas.val_tok(v)) for n, v in items)
                if fail is None:
                    # equal frozen messages hash equal and work as dictionary keys
                    for other in pool:
                        if is_frozen(other) and other == o and hash(other) != hv:
                            fail = f'equal frozen messages {o!r} and {other!r} have different hashes'
                    if {o: 1}[o] != 1:
                        fail = 'frozen message does not work as a dictionary key'
                    if fail is None and is_frozen(o):
                        fail = _provenance_twins(mido, o, hv)
            elif k == 'eq':
                out = 'true' if pool[op[1]] == pool[op[2]] else 'false'
        except _OutOfDomain:
            out = 'err Other'
        except Exception as e:
            name = exc_name(e)
            out = 'err ' + name
            if k in ('freeze', 'thaw') and op[1] is None and fail is None:
                fail = f'{k}_message(None) raised {type(e).__name__}'
            if k == 'hash' and is_frozen(pool[op[1]]) and fail is None:
                fail = f'hash() of the frozen message {pool[op[1]]!r} raised {type(e).__name__}: {e}'
            if k in ('freeze', 'thaw', 'eq') and op[1] is not None and fail is None:
                fail = f'{k} raised {type(e).__name__}: {e}'
            if k == 'copy' and fail is None and CLASSES.get(type(pool[op[1]]).__name__) in ('Message', 'MetaMessage') \
                    and name in ('ValueError', 'TypeError'):
                # copy with overrides and a fresh construction with those values agree on what they reject as well
                try:
                    kw = {n_: _real(v_) for n_, v_ in op[3]}
                    if op[2] is None:
                        d = dict(vars(pool[op[1]]))
                        d.update(kw)
                        base = {'Message': mido.Message, 'MetaMessage': mido.MetaMessage}[CLASSES[type(pool[op[1]]).__name__]]
                        fresh = base(**d)
                        fail = (f'copy with overrides {kw} is rejected ({type(e).__name__}: {e}) although a fresh message with those '
                                f'values is accepted: {fresh!r}')
                except Exception:      # noqa: BLE001 - both reject
                    pass
        # frame: nothing but the touched object may have changed
        after = snapshot()
        for i, (b, a) in enumerate(zip(before, after)):
            if b != a and i != touched and fail is None:
                fail = f'op {op!r} changed the untouched object #{i}: {b} -> {a}'
            if b != a and i == touched and out is not None and out.startswith('err') and fail is None:
                fail = f'rejected op {op!r} changed object #{i}'
        lines.append(out)
        lines.append(' | '.join(obj_tok(o) for o in pool))
    return lines, fail


def _clone_semantics(mido, obj):
    """A message copied by the standard library (copy.copy, copy.deepcopy, pickle) is a message like any other: copy(),
    freeze and thaw of it have value semantics too."""
    from mido.frozen import freeze_message, thaw_message, is_frozen
    from .. import persist
    for how, c in persist.clones(obj):
        if isinstance(c, Exception):
            return f'{how} of {obj!r} raised {type(c).__name__}: {c}'
        try:
            if type(c) is not type(obj) or not (c == obj):
                return f'{how} of {obj!r} is {c!r} (class {type(c).__name__})'
            fo, fc = freeze_message(obj), freeze_message(c)
            if not (fo == fc) or hash(fo) != hash(fc) or {fo: 1}.get(fc) != 1:
                return f'the frozen {how} of {obj!r} is not equal to / does not hash like / is not found as the frozen original'
            if not (thaw_message(fc) == thaw_message(fo)) or is_frozen(thaw_message(fc)):
                return f'thaw(freeze(x)) of the {how} differs from that of the original {obj!r}'
            if is_frozen(c):
                continue
            c2 = c.copy()
            snap = (dict(vars(c2)), repr(vars(c2)))
            if 'data' in vars(c):
                c.data = tuple(vars(c)['data']) + (4,) if CLASSES[type(c).__name__] != 'Message' else c.data
                if CLASSES[type(c).__name__] == 'Message':
                    c.data += (4,)
            c.time = 77
            if (dict(vars(c2)), repr(vars(c2))) != snap:
                return f'after {how}, x.copy(), and assignments on x, the copy changed too: {snap[1]} -> {vars(c2)}'
            if vars(obj).get('time') == 77 and vars(c2).get('time') != 77:
                return f'assignments on the {how} of {obj!r} changed the original'
        except Exception as e:      # noqa: BLE001
            return f'using the {how} of {obj!r} raised {type(e).__name__}: {e}'
    return None


def _equal_valued_twins(mido, src, kw):
    """After a copy that was accepted (its values, and those the message holds, have been validated as ints): the same
    values as float / Fraction are accepted by copy() exactly when a fresh construction accepts them."""
    from fractions import Fraction
    base = {'Message': mido.Message, 'MetaMessage': mido.MetaMessage}[CLASSES[type(src).__name__]]
    held = {n: v for n, v in vars(src).items() if n not in ('type', 'time')}
    held.update({n: v for n, v in kw.items() if n != 'type'})
    for n, v in list(held.items())[:4]:
        if type(v) is int:
            twins = [float(v), Fraction(v)]
        elif isinstance(v, (tuple, list)) and v and all(type(x) is int for x in v) and len(v) < 20:
            twins = [tuple(float(x) for x in v)]
        else:
            continue
        for tv in twins:
            d = dict(vars(src))
            d.update({k_: v_ for k_, v_ in kw.items()})
            d[n] = tv
            try:
                base(**d)
                fresh_ok = True
            except Exception:
                fresh_ok = False
            try:
                c3 = src.copy(**{n: tv})
                copy_ok = True
            except Exception:
                copy_ok = False
            if copy_ok and not fresh_ok:
                return (f'after a copy that validated {n}={v!r}, copy({n}={tv!r}) is accepted and gives {c3!r} although a fresh '
                        f'construction with that value is rejected')
            if fresh_ok and not copy_ok:
                return f'copy({n}={tv!r}) is rejected although a fresh construction with that value is accepted'
    return None


def _provenance_twins(mido, fo, hv):
    """Equal messages that came into being in other ways (decoded from bytes, parsed from a stream or from text, rebuilt from
    a dict, loaded from a file track): frozen, each one that equals `fo` must hash like it and find it in a dict."""
    import io
    from mido.frozen import freeze_message, thaw_message
    base = thaw_message(fo)
    fam = CLASSES[type(fo).__name__]
    twins = []
    try:
        if fam == 'Message':
            twins.append(('from_bytes', mido.Message.from_bytes(base.bytes(), time=base.time)))
            twins.append(('from_dict', mido.Message.from_dict(base.dict())))
            p = mido.parse(base.bytes())
            if p is not None:
                p.time = base.time
                twins.append(('parse', p))
            if isinstance(base.time, int) and base.type != 'sysex' or (isinstance(base.time, int) and len(base.data) < 50):
                twins.append(('from_str', mido.Message.from_str(str(base))))
        elif fam == 'MetaMessage':
            tw = mido.MetaMessage.from_bytes(base.bytes())
            tw.time = base.time
            twins.append(('from_bytes', tw))
            twins.append(('from_dict', mido.MetaMessage.from_dict(base.dict())))
        if fam in ('Message', 'MetaMessage') and isinstance(base.time, int) and base.time >= 0 and not getattr(base, 'is_realtime', False):
            mid = mido.MidiFile()
            mid.tracks.append(mido.MidiTrack([base.copy()]))
            buf = io.BytesIO()
            mid.save(file=buf)
            back = mido.MidiFile(file=io.BytesIO(buf.getvalue()))
            twins.append(('loaded from a saved file', back.tracks[0][0]))
    except Exception:
        pass            # a message that cannot take one of these routes has no twin of that kind
    for how, tw in twins:
        try:
            ft = freeze_message(tw)
            if ft == fo:
                if hash(ft) != hv:
                    return f'the frozen message {fo!r} and an equal one obtained by {how} have different hashes'
                if {fo: 1}.get(ft) != 1 or len({fo, ft}) != 1:
                    return f'an equal frozen message obtained by {how} does not find {fo!r} in a dict / set'
        except Exception as e:
            return f'freezing / hashing an equal message obtained by {how} raised {type(e).__name__}: {e}'
    return None


def _chunk(hs):
    return [run_history(h) for h in hs]


def kwt(kw):
    return ' '.join('%s=%s' % (n, metas.val_tok(v)) for n, v in kw)


def enc(op):
    k = op[0]
    if k == 'newmsg':
        return ('h newmsg %s %s' % (op[1], kwt(op[2]))).strip()
    if k == 'newmeta':
        return ('h newmeta %s %s' % (op[1], kwt(op[2]))).strip()
    if k == 'newunk':
        return 'h newunk %s %s %s' % (metas.val_tok(op[1]), metas.val_tok(op[2]), metas.val_tok(op[3]))
    if k == 'copy':
        return ('h copy %d %s %s' % (op[1], 'type=' + op[2] if op[2] is not None else '', kwt(op[3]))).replace('  ', ' ').strip()
    if k in ('freeze', 'thaw'):
        return 'h %s %s' % (k, '-' if op[1] is None else op[1])
    if k == 'set':
        return 'h set %d %s %s' % (op[1], op[2], metas.val_tok(op[3]))
    if k == 'del':
        return 'h del %d %s' % (op[1], op[2])
    if k == 'hash':
        return 'h hash %d' % op[1]
    return 'h eq %d %d' % (op[1], op[2])


def rand_value(rng, dom, bad=0.25):
    if rng.random() < bad:
        return rng.choice([-1, 256, 2 ** 30, 1.5, 'x', None, [1], (300,), True])
    if dom == 'str':
        return rng.choice(['', 'a', 'né'])
    if dom == 'rate':
        return rng.choice(metas.RATES)
    if dom == 'pow2':
        return 2 ** rng.randint(0, 10)
    if dom == 'key':
        return rng.choice(metas.KEYS)
    if dom == 'bytes':
        return rng.choice([(), (1, 2), [3, 255], b'\x05'])
    _, lo, hi = dom
    return rng.randint(lo, min(hi, 31) if dom == ('int', 0, 255) else hi)


def gen(ck):
    rng = ck.rng
    hs = []
    for _ in range(2500 if ck.tier == 'quick' else 80000):
        h = []
        fams = []      # family + type of each pool object (None if creation may have failed)
        n = 0

        def new_obj():
            nonlocal n
            r = rng.random()
            if r < 0.4:
                t = rng.choice(msgs.TYPE_NAMES)
                kw = []
                for name in msgs.TYPES[t][1]:
                    if rng.random() < 0.4:
                        kw.append((name, _good_msg(rng, name)))
                h.append(('newmsg', t, kw))
                fams.append(('Message', t))
            elif r < 0.8:
                t = rng.choice(metas.META_NAMES)
                kw = [(a, rand_value(rng, dom, bad=0)) for a, dom in metas.META[t][1] if rng.random() < 0.5]
                if t == 'smpte_offset':
                    kw = [(a, v) for a, v in kw if a != 'hours'] + [('hours', rng.randint(0, 31))]
                h.append(('newmeta', t, kw))
                fams.append(('MetaMessage', t))
            else:
                h.append(('newunk', rng.choice([0x60, 0x0a, 200]), rng.choice([None, (), (1, 2), [3, 4], b'\x01']), rng.choice([0, 5, 1.5])))
                fams.append(('UnknownMetaMessage', None))
            n += 1
        new_obj()
        for _ in range(rng.randint(2, 19)):
            r = rng.random()
            i = rng.randrange(n)
            fam, t = fams[i]
            if r < 0.12:
                new_obj()
            elif r < 0.3:
                kw = []
                if rng.random() < 0.6:
                    kw = _overrides(rng, fam, t)
                tov = rng.choice([None, None, None, t or 'unknown_meta', 'note_on'])
                h.append(('copy', i, tov, kw))
                fams.append((fam, t)); n += 1
            elif r < 0.42:
                src = rng.choice([None, i, i, i])
                h.append(('freeze', src))
                if src is not None:
                    fams.append((fam, t)); n += 1
            elif r < 0.52:
                src = rng.choice([None, i, i, i])
                h.append(('thaw', src))
                if src is not None:
                    fams.append((fam, t)); n += 1
            elif r < 0.75:
                kw = _overrides(rng, fam, t, one=True)
                if kw:
                    h.append(('set', i, kw[0][0], kw[0][1]))
            elif r < 0.8:
                h.append(('del', i, rng.choice(['time', 'type', 'note', 'data', 'foo'])))
            elif r < 0.9:
                h.append(('hash', i))
            else:
                h.append(('eq', i, rng.randrange(n)))
        hs.append(h)
    return hs


def _good_msg(rng, name):
    if name == 'data':
        return tuple(rng.randint(0, 127) for _ in range(rng.randint(0, 3)))
    lo, hi = msgs.RANGES[name]
    if lo < 0 and rng.random() < 0.5:
        return rng.choice([-1, -2])          # the one pair of valid values with equal hashes (hash(-1) == hash(-2))
    return rng.randint(lo, hi)


def _overrides(rng, fam, t, one=False):
    kw = []
    if fam == 'Message':
        names = list(msgs.TYPES[t][1]) + ['time']
        for name in rng.sample(names, 1 if one else min(len(names), rng.randint(1, 2))):
            if name == 'time':
                kw.append(('time', rng.choice([0, 7, 2.5, 'x', None, -1, -2, -1, -2])))
            elif name == 'data' and rng.random() < 0.25:
                kw.append((name, rng.choice([SX((1, 2)), SX((1, 200)), SX((7, 1.5)), SX(()), SX((240, 1, 2, 247)), SX((240, 5)), SX((5, 247)), SX((247,))])))
            elif rng.random() < 0.25:
                kw.append((name, rng.choice([-1, 200, 2 ** 20, 1.5, 'x', None, [1], 5 if name == 'data' else (1,)])))
            else:
                kw.append((name, _good_msg(rng, name)))
        if rng.random() < 0.08:
            kw.append((rng.choice(['foo', 'note', 'data', 'type_byte']), 1))
    elif fam == 'MetaMessage':
        attrs = metas.META[t][1] + [('time', None)]
        for a, dom in rng.sample(attrs, 1 if one else min(len(attrs), rng.randint(1, 2))):
            if a == 'time':
                kw.append(('time', rng.choice([0, 7, 2.5, 'x', None])))
            elif a == 'hours':
                kw.append(('hours', rng.choice([0, 5, 31, -1, 'x'])))
            else:
                kw.append((a, rand_value(rng, dom)))
        if rng.random() < 0.08:
            kw.append((rng.choice(['foo', 'tempo', 'text', 'data']), 1))
    else:
        for a in rng.sample(['type_byte', 'data', 'time'], 1 if one else rng.randint(1, 2)):
            if a == 'data':
                kw.append(('data', rng.choice([(), (1, 2), [5], None, b'\x07'] if one is False else [(), (1, 2), (9,), [4, 5], b'\x07'])))
            elif a == 'time':
                kw.append(('time', rng.choice([0, 3, 1.5])))
            else:
                kw.append(('type_byte', rng.choice([0x60, 0x7e, 300])))
    return kw


def sysex_frame_overrides_fail():
    """Sysex data holding the framing bytes (0xF0 in front, 0xF7 at the end: what a dump or a MIDI file payload looks like):
    constructor, copy with overrides and from_dict agree on every such value, for plain and frozen messages — a copy with
    overrides IS a fresh message with those values."""
    import mido
    from mido.frozen import freeze_message

    def outcome(f):
        try:
            m = f()
            return ('ok', type(m).__name__.replace('Frozen', ''), tuple(m.data), m.time)
        except (ValueError, TypeError) as e:
            return ('err',)
    for data in ((0xF0, 1, 2, 0xF7), (0xF0, 1, 2), (1, 2, 0xF7), (0xF7,), (0xF0,), (0xF0, 0xF7), [0xF0, 3, 0xF7], b'\xf0\x01\xf7', (1, 0xF7, 2),
                 (1, 2), ()):
        base = mido.Message('sysex', data=(9,), time=3)
        want = outcome(lambda: mido.Message('sysex', data=data, time=3))
        for how, f in (('copy(data=...)', lambda: base.copy(data=data)),
                       ('copy(data=...) of the frozen message', lambda: freeze_message(base).copy(data=data)),
                       ('from_dict', lambda: mido.Message.from_dict({'type': 'sysex', 'data': data, 'time': 3})),
                       ('copy(data=..., time=3) of another sysex message', lambda: mido.Message('sysex').copy(data=data, time=3))):
            got = outcome(f)
            if got != want:
                return (f'Message("sysex", data={data!r}, time=3) gives {want}, {how} with the same values gives {got}: a copy with '
                        f'overrides is not the freshly constructed message')
        if base.data != (9,):
            return f'the original changed: {base!r}'
    return None


def matching_class_fail():
    """freeze_message / thaw_message give a message of the MATCHING class, judged by the class of the message it is given -
    also for an UnknownMetaMessage whose `type` is not the default string (the constructor takes `type=`, assignment is
    unchecked), for subclasses of the message classes, and back."""
    import mido
    from mido.frozen import (FrozenMessage, FrozenMetaMessage, FrozenUnknownMetaMessage, freeze_message, thaw_message)
    table = [(mido.Message('note_on', note=3, time=2), FrozenMessage, mido.Message),
             (mido.MetaMessage('set_tempo', tempo=7, time=1), FrozenMetaMessage, mido.MetaMessage),
             (mido.UnknownMetaMessage(0x60, [1, 2], time=3), FrozenUnknownMetaMessage, mido.UnknownMetaMessage),
             (mido.UnknownMetaMessage(0x61, [1, 2], time=3, type='vendor_x'), FrozenUnknownMetaMessage, mido.UnknownMetaMessage),
             (mido.UnknownMetaMessage(0x62, (), type='text'), FrozenUnknownMetaMessage, mido.UnknownMetaMessage)]
    relabelled = mido.UnknownMetaMessage(0x63, [9])
    relabelled.type = 'my_event'
    table.append((relabelled, FrozenUnknownMetaMessage, mido.UnknownMetaMessage))
    for m, fcls, tcls in table:
        try:
            f = freeze_message(m)
            t = thaw_message(f)
            t2 = thaw_message(m.copy())
            if type(f) is not fcls:
                return f'freeze_message({m!r}) [a {type(m).__name__} with type {m.type!r}] is a {type(f).__name__}, the matching class is {fcls.__name__}'
            if type(t) is not tcls or type(t2) is not tcls:
                return f'thaw_message of the frozen / of a plain {type(m).__name__} with type {m.type!r} is a {type(t).__name__} / {type(t2).__name__}'
            if not (f == m and t == m and vars(t) == vars(m) and vars(f) == vars(m)):
                return f'freeze / thaw of {m!r} changed its values: {vars(f)} / {vars(t)} instead of {vars(m)}'
            if repr(t) != repr(m) or list(t.bytes()) != list(m.bytes()) or list(f.bytes()) != list(m.bytes()):
                return f'the thawed / frozen copy of {m!r} prints or encodes differently: {t!r} {list(f.bytes())}'
            hash(f)
            repr(f)
        except Exception as e:      # noqa: BLE001
            return f'freeze / thaw / use of {type(m).__name__} with type {vars(m).get("type")!r} raised {type(e).__name__}: {e}'
    return None


def run(ck):
    ck.prepare_lean(extra_targets=['MidoProofs.Props.C15b'])
    ck.run_corpus(oracle)
    hs = gen(ck)
    res = [r for part in pool_map(_chunk, list(chunks(hs, 400))) for r in part]
    reqs, impl = [], []
    for h, (lines, fail) in zip(hs, res):
        seen = False
        nontriv = False
        for o in h:
            if o[0] in ('copy', 'freeze', 'thaw'):
                seen = True
            elif o[0] == 'set' and seen:
                nontriv = True
        ck.note_case(repr(h), nontrivial=nontriv)
        for o in h:
            ck.count('op:' + o[0])
        for l in lines[::2]:
            ck.count('outcome:' + (l if l.startswith('err') else l.split(' ')[0]))
        if fail:
            ck.oracle_fail({'ops': repr(h)}, fail)
        reqs.append('h reset')
        impl.append('ok')
        for j, o in enumerate(h):
            try:
                e = enc(o)
            except ValueError:
                break
            reqs.append(e)
            impl.append(lines[2 * j])
            reqs.append('h dump')
            impl.append(lines[2 * j + 1])
    ck.sample({'ops': repr(hs[3])})
    ck.compare('heap', reqs, impl, ck.driver.run(reqs))
    f = matching_class_fail()
    ck.evaluations += 1
    ck.count('matching_class')
    if f:
        ck.oracle_fail({'matching_class': True}, f)
    f = sysex_frame_overrides_fail()
    ck.evaluations += 1
    ck.count('sysex_frame_overrides')
    if f:
        ck.oracle_fail({'sysex_frame_overrides': True}, f)
    envprobe.check(ck, ['frozen'])
    return ck.finish(RULE, assumptions=['"assigning attributes" is setattr of existing attribute names; in-place mutation of a list the caller handed in is not an assignment',
                                        'hash values are compared through the sorted item list they are computed from'])


def oracle(case):
    if 'environment' in case:
        return envprobe.oracle(case)
    if 'sysex_frame_overrides' in case:
        return sysex_frame_overrides_fail()
    if 'matching_class' in case:
        return matching_class_fail()
    return run_history(eval(case['ops']))[1]


def replay(ck, rp):
    return generic_replay(ck, rp, oracle)
