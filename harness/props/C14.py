"""C14 — text, dict and repr representations round-trip."""
import io

from .. import metas, msgs, smf
from .. import envprobe
from ..common import chunks, exc_name, generic_replay, pool_map

RULE = ('messages of all 18 types x boundary values x sysex lengths {0,1,2,50} x times {0,-3,10**30,0.5,2.25,1e-7,1e300}: '
        'str/from_str, dict/from_dict, repr/eval; meta messages, tracks of length 0,1,2,5 and files with 0..3 tracks: repr/eval; '
        'malformed text (unknown type, empty, only spaces, missing "=", "==", bad numbers, duplicated / unknown / reserved attribute '
        'names, data without parentheses / empty / trailing comma) for parse_string and, mixed with comments and blank lines, for '
        'parse_string_stream. Distinct by text / object; non-trivial = everything except the plain default messages')

BAD_LINES = ['', ' ', '\t \n', 'foo', 'foo a=1', 'note_on note', 'note_on note=', 'note_on note==1', 'note_on =1', 'note_on note=1.5',
             'note_on note=0x10', 'note_on note=999', 'note_on note=-1', 'note_on note=1 note=2', 'note_on bogus=1', 'note_on type=5',
             'note_on skip_checks=1', 'note_on note=999 skip_checks=1', 'note_on time=abc', 'note_on time=', 'sysex data=1,2', 'sysex data=(1,2',
             'sysex data=1,2)', 'sysex data=()', 'sysex data=(1,)', 'sysex data=(,1)', 'sysex data=(1,,2)', 'sysex data=(200)', 'sysex data=(a)',
             'note_on data=(1)', 'clock note=1', 'NOTE_ON', 'note_on\tnote=5', 'note_on  note=5   velocity=7', 'pitchwheel pitch=-8192',
             'pitchwheel pitch=-8193', 'note_on channel=16', 'note_on note=1_0', 'note_on note=+5', 'note_on note=1__0', 'note_on note=_1',
             'songpos pos=16383', 'songpos pos=16384', 'note_on time=1e3', 'note_on time=-2.5', 'note_on time=nan', 'note_on time=1_0',
             'sysex data=(1, 2)', 'note_on note= 5', 'note_on=5', 'quarter_frame frame_type=8', 'note_on note=٣',
             'sysex data=', 'sysex data= time=3', 'sysex data=(', 'sysex data=)', 'sysex data==', 'note_on note= velocity=3', 'sysex time=1 data=',
             'note_on channel=', 'songpos pos=', 'pitchwheel pitch=', 'note_on time= note=1']
MODEL_TIMES = [0, -3, 7, 0.5, 2.25, -1.5, 3.0, 10 ** 30]
ORACLE_TIMES = MODEL_TIMES + [1e-7, 1e300, 123456.789, 10 ** 400, -(2 ** 1030), 1.7976931348623157e308, 5e-324, 2 ** 1024]


def cps(s):
    return ' '.join(str(ord(c)) for c in s)


def tok_msg(m):
    d = vars(m)
    _, names = msgs.TYPES[d['type']]
    return ' '.join([d['type']] + [metas.val_tok(d[n]) for n in names]) + ' time=' + metas.val_tok(d['time'])


def impl_msg(case):
    """case = (type, attrs, time): str/dict/repr round trips on the implementation."""
    import mido
    from mido import Message, MetaMessage, UnknownMetaMessage, MidiTrack, MidiFile   # eval namespace
    t, d, time = case
    fail = None
    try:
        if t == 'sysex' and d.get('data'):
            # an equal-but-not-identical message formatted just before (booleans are integers) must not influence this one
            str(mido.Message('sysex', data=tuple(bool(b) if b in (0, 1) else b for b in d['data'])))
            str(mido.Message('sysex', data=tuple(d['data'])[:-1] + (True,)))
        m = mido.Message(t, time=time, **d)
        s = str(m)
        back = mido.Message.from_str(s)
        if back != m or type(back.time) is not (int if type(m.time) is bool else type(m.time)):
            fail = f'from_str(str(m)) = {back!r} differs from {m!r} (text {s!r})'
        elif mido.Message.from_dict(m.dict()) != m:
            fail = f'from_dict(m.dict()) differs from {m!r}'
        else:
            e = eval(repr(m))
            if e != m or type(e) is not type(m):
                fail = f'eval(repr(m)) = {e!r} differs from {m!r}'
        if fail is None:
            # the dictionary belongs to the caller: changing it changes neither the message nor one built from it earlier
            before = dict(vars(m))
            dd = m.dict()
            built = mido.Message.from_dict(dd)
            dd['time'] = 987
            for k2 in list(dd):
                if isinstance(dd[k2], list):
                    dd[k2].append(5)
                elif k2 not in ('type', 'time'):
                    dd[k2] = 1
            if vars(m) != before or built != m:
                fail = f'changing the dictionary returned by dict() changed the message ({vars(m)}) or a message built from it ({built!r})'
            elif m.dict() != mido.Message(t, time=time, **d).dict():
                fail = 'dict() of equal messages differs after a returned dictionary was changed'
        if fail is None and (t == 'sysex' or (len(d) + len(t)) % 3 == 0):
            # the same round trips for messages that came into being otherwise: standard-library copies, and a message whose
            # attributes were ASSIGNED (booleans are valid integers there as well)
            from .. import persist
            variants = [(how, c) for how, c in persist.clones(m)]
            a = mido.Message(t, time=time, **d)
            for n in list(vars(a)):
                if n not in ('type', 'data') and vars(a)[n] in (0, 1) and type(vars(a)[n]) is int:
                    setattr(a, n, bool(vars(a)[n]))
                    break
            else:
                a.time = True
            variants.append(('assigning a boolean to an attribute', a))
            variants.append(('assigning a boolean, then copy()', a.copy()))
            for how, c in variants:
                if isinstance(c, Exception):
                    fail = f'{how} of {m!r} raised {type(c).__name__}: {c}'
                    break
                try:
                    if mido.Message.from_str(str(c)) != c:
                        fail = f'from_str(str(x)) differs from x for the message obtained by {how}: {c!r} (text {str(c)!r}, attributes {vars(c)})'
                    elif mido.Message.from_dict(c.dict()) != c:
                        fail = f'from_dict(x.dict()) differs from x for the message obtained by {how}: {c!r} (attributes {vars(c)})'
                    elif eval(repr(c)) != c:
                        fail = f'eval(repr(x)) differs from x for the message obtained by {how}: {c!r} (attributes {vars(c)})'
                    elif 'assign' in how and list(mido.parse_string_stream([str(c)]))[0][0] != c:
                        fail = f'parse_string_stream does not give back the message obtained by {how}: {str(c)!r}'
                except Exception as e:
                    fail = f'a round trip of the message obtained by {how} ({c!r}, text {str(c)!r}) raised {type(e).__name__}: {e}'
                if fail:
                    break
        return 'ok ' + cps(s), fail
    except Exception as e:
        return 'err ' + exc_name(e), f'round trip of Message({t!r}, {d!r}, time={time!r}) raised {type(e).__name__}: {e}'


def impl_text(text):
    import mido
    try:
        m = mido.parse_string(text)
        return 'ok ' + tok_msg(m), None
    except ValueError:
        return 'err ValueError', None
    except Exception as e:
        return 'err ' + exc_name(e), f'parse_string({text!r}) raised {type(e).__name__} (only ValueError is allowed): {e}'


def impl_stream(lines):
    import mido
    out = []
    fail = None
    try:
        for m, err in mido.parse_string_stream(lines):
            if m is not None:
                out.append('msg ' + tok_msg(m))
                if err is not None:
                    fail = 'a message and an error reported together'
            else:
                # "line N: ..."
                try:
                    n = int(err.split(':')[0].split()[1])
                except Exception:
                    n = -1
                    fail = fail or f'error text without a line number: {err!r}'
                out.append('error %d' % n)
    except Exception as e:
        out.append('abort ' + exc_name(e))
        fail = fail or f'parse_string_stream was aborted by {type(e).__name__}: {e}'
    # independent expectation
    if fail is None:
        want = []
        for i, line in enumerate(lines, 1):
            body = line.split('#')[0].strip()
            if not body:
                continue
            try:
                want.append('msg ' + tok_msg(mido.parse_string(body)))
            except ValueError:
                want.append('error %d' % i)
            except Exception:
                want.append('error %d' % i)
        if want != out:
            fail = f'stream output {out} differs from per-line expectation {want}'
    return ' ; '.join(out), fail


def impl_repr(obj_desc):
    """repr/eval of meta messages, tracks and files."""
    import mido
    from mido import Message, MetaMessage, UnknownMetaMessage, MidiTrack, MidiFile   # eval namespace
    kind = obj_desc[0]
    try:
        if kind == 'event':
            x = smf.build_event(obj_desc[1])
            y = eval(repr(x))
            ok = (y == x and type(y) is type(x))
        elif kind == 'track':
            x = mido.MidiTrack(smf.build_event(e) for e in obj_desc[1])
            y = eval(repr(x))
            ok = (list(y) == list(x) and type(y) is type(x))
        elif kind == 'utf8text':
            # text that only a file of another charset can hold: messages made inside a charset scope / read from a utf-8
            # file, looked at after the scope has ended (a repr carries no charset; a message needs none to exist)
            import io
            from mido.midifiles.meta import meta_charset
            txt = obj_desc[1]
            with meta_charset('utf-8'):
                m = MetaMessage('text', text=txt, time=3)
                tr = MidiTrack([m, MetaMessage('track_name', name=txt), MetaMessage('lyrics', text=txt[::-1], time=1)])
            buf = io.BytesIO()
            MidiFile(charset='utf-8', tracks=[tr]).save(file=buf)
            x = MidiFile(file=io.BytesIO(buf.getvalue()), charset='utf-8')
            ok = True
            for obj in (m, x.tracks[0][0], x.tracks[0][1]):
                y = eval(repr(obj))
                ok = ok and y == obj and type(y) is type(obj)
            for obj in (tr, x.tracks[0]):
                y = eval(repr(obj))
                ok = ok and list(y) == list(obj) and type(y) is type(obj)
            y = eval(repr(x))
            ok = ok and y.type == x.type and y.ticks_per_beat == x.ticks_per_beat and [list(t) for t in y.tracks] == [list(t) for t in x.tracks]
        elif kind == 'loadedfile':
            # a file as it comes out of load(): the header fields are whatever 16-bit values the bytes hold (an SMPTE time
            # division is a negative ticks_per_beat, a division of 0 is storable too)
            import io
            x = mido.MidiFile(file=io.BytesIO(bytes(obj_desc[1])))
            y = eval(repr(x))
            ok = (y.type == x.type and y.ticks_per_beat == x.ticks_per_beat and
                  [list(t) for t in y.tracks] == [list(t) for t in x.tracks])
            if ok:
                b1, b2 = io.BytesIO(), io.BytesIO()
                x.save(file=b1)
                y.save(file=b2)
                ok = b1.getvalue() == b2.getvalue()
        else:
            x = smf.build_file(obj_desc[1])
            y = eval(repr(x))
            ok = (y.type == x.type and y.ticks_per_beat == x.ticks_per_beat and
                  [list(t) for t in y.tracks] == [list(t) for t in x.tracks] and all(type(t) is mido.MidiTrack for t in y.tracks))
        return None if ok else f'eval(repr(x)) differs from x for {repr(x)[:200]}'
    except Exception as e:
        return f'eval(repr(x)) raised {type(e).__name__}: {e} for {kind} {str(obj_desc[1])[:150]}'


def _msg_chunk(cs):
    return [impl_msg(c) for c in cs]


def _text_chunk(cs):
    return [impl_text(c) for c in cs]


def _stream_chunk(cs):
    return [impl_stream(c) for c in cs]


def _repr_chunk(cs):
    return [impl_repr(c) for c in cs]


def gen(ck):
    rng = ck.rng
    n = 1500 if ck.tier == 'quick' else 60000
    mcases = []
    for t in msgs.TYPE_NAMES:
        mcases.append((t, {}, 0))
    for _ in range(n):
        t, d = msgs.random_message(rng, max_sysex=rng.choice([0, 1, 2, 50]))
        time = rng.choice(ORACLE_TIMES)
        if rng.random() < 0.08:
            # booleans are integers (numbers.Integral): a message holding True/False is a valid message like any other
            d = {k: (tuple(bool(b) if b in (0, 1) else b for b in v) if k == 'data' else (bool(v) if v in (0, 1) and type(v) is int else v))
                 for k, v in d.items()}
            if type(time) is int and time in (0, 1):
                time = bool(time)
        mcases.append((t, d, time))
    mcases.append(('sysex', {'data': (True, 2, False)}, 0))
    mcases.append(('note_on', {'note': True, 'velocity': False}, True))
    texts = list(BAD_LINES)
    for _ in range(n):
        t, d = msgs.random_message(rng, max_sysex=4)
        words = [t] + ['%s=%s' % (k, ('(' + ','.join(map(str, v)) + ')') if k == 'data' else v) for k, v in d.items()]
        if rng.random() < 0.7:
            words.append('time=%s' % rng.choice(['0', '5', '-3', '0.5', '2.25', '-1.5', '3.0']))
        r = rng.random()
        if r < 0.3:
            i = rng.randrange(len(words))
            w = words[i]
            words[i] = rng.choice([w.replace('=', ''), w.replace('=', '=='), w + 'x', w.replace('=', '=-'), w.upper(), w + '=1', '=' + w, w[:-1] if len(w) > 1 else w])
        elif r < 0.4:
            words.insert(rng.randrange(1, len(words) + 1), rng.choice(['foo=1', 'type=1', 'skip_checks=1', 'time=1', 'channel=3', 'data=(1)']))
        elif r < 0.45:
            rng.shuffle(words)
        texts.append(rng.choice([' ', '  ', '\t', ' \n ']).join(words) if rng.random() < 0.2 else ' '.join(words))
    # very long (finite) numerals: integers have no largest value
    big = '9' * 401
    texts += ['note_on time=' + big, 'note_on note=999 time=' + big, 'note_on note=5 time=-' + big, 'clock time=1' + '0' * 330,
              'program_change program=' + big, 'note_on note=5 velocity=300 time=' + big]
    streams = [['note_on note=999 time=' + big, 'note_on note=1 time=' + big, 'note_on note=1000', 'clock'],
               ['note_on time=' + big + ' # big', 'bogus', 'note_off note=3']]
    for _ in range(n // 5):
        lines = []
        for _l in range(rng.randint(0, 8)):
            r = rng.random()
            if r < 0.2:
                lines.append(rng.choice(['', '   ', '# comment', '  # x', '\n']))
            else:
                base = rng.choice(texts)
                if rng.random() < 0.3:
                    base += rng.choice(['  # trailing', '#x', ' # note_on'])
                lines.append(base)
        if lines and rng.random() < 0.25:
            # text-file artefacts at the very start of a stream (byte order mark, zero-width characters): not part of any
            # valid message, hence an error on line 1 like anywhere else
            lines[0] = rng.choice(['\ufeff', '\ufeff' + lines[0], '\u200b' + lines[0], '\ufeff# comment', '\xef\xbb\xbf' + lines[0]])
        streams.append(lines)
    reprs = []
    for _ in range(n // 3):
        ev = smf.random_event(rng)
        reprs.append(('event', ev))
    for ln in [0, 1, 2, 5] * (n // 40):
        reprs.append(('track', [smf.random_event(rng) for _ in range(ln)]))
    for _ in range(n // 15):
        d = smf.random_file(rng)
        d['tracks'] = [tr[:6] for tr in d['tracks'][:3]]
        reprs.append(('file', d))
    for division in (0xE728, 0xE250, 0, 1, 0x7FFF, 0x8000, 0xFFFF, 480):
        for ty_ in (0, 1):
            reprs.append(('loadedfile', [77, 84, 104, 100, 0, 0, 0, 6, 0, ty_, 0, 1, division >> 8, division & 255,
                                         77, 84, 114, 107, 0, 0, 0, 8, 0, 0x90, 60, 64, 5, 0xff, 0x2f, 0]))
    for txt in ('snow\u2603man', '\u266a la la', 'caf\xe9', '\u65e5\u672c\u8a9e', 'na\xefve \u2014 \U0001f3b9', 'abc', ''):
        reprs.append(('utf8text', txt))
    reprs.append(('file', {'type': 1, 'tpb': 480, 'tracks': []}))
    reprs.append(('file', {'type': 1, 'tpb': 480, 'tracks': [[], [(0, 'msg', 'note_on', {})]]}))
    reprs.append(('track', [(0, 'msg', 'note_on', {})]))
    return mcases, texts, streams, reprs


def model_time_ok(time):
    return any(time == x and type(time) is type(x) for x in MODEL_TIMES)


def run(ck):
    ck.prepare_lean(extra_targets=['MidoProofs.Props.C14b'])
    ck.run_corpus(oracle)
    mcases, texts, streams, reprs = gen(ck)
    mres = [r for part in pool_map(_msg_chunk, list(chunks(mcases, 500))) for r in part]
    reqs, impl = [], []
    for (t, d, time), (line, fail) in zip(mcases, mres):
        ck.note_case(('msg', t, repr(d), repr(time)), nontrivial=bool(d) or time != 0)
        ck.count('msg:' + t)
        if fail:
            ck.oracle_fail({'msg': [t, {k: list(v) if k == 'data' else v for k, v in d.items()}, repr(time)]}, fail)
        if model_time_ok(time):
            reqs.append(('tostr %s %s time=%s' % (t, ' '.join('%s=%s' % (k, metas.val_tok(v)) for k, v in d.items()), metas.val_tok(time))).replace('  ', ' '))
            impl.append(line)
    ck.compare('strings.str', reqs, impl, ck.driver.run(reqs))
    tres = [r for part in pool_map(_text_chunk, list(chunks(texts, 500))) for r in part]
    treq, timpl = [], []
    for text, (line, fail) in zip(texts, tres):
        ck.note_case(('text', text))
        ck.count('parse:' + line.split(' ')[0] + (':' + line.split(' ')[1] if line.startswith('err') else ''))
        if fail:
            ck.oracle_fail({'text': text}, fail)
        if _in_model_grammar(text):
            treq.append(('fromstr ' + cps(text)).strip())
            timpl.append(line)
    ck.compare('strings.parse', treq, timpl, ck.driver.run(treq))
    sres = [r for part in pool_map(_stream_chunk, list(chunks(streams, 200))) for r in part]
    sreq, simpl = [], []
    for lines, (line, fail) in zip(streams, sres):
        ck.note_case(('stream', tuple(lines)))
        ck.count('stream_lines:%d' % len(lines))
        if fail:
            ck.oracle_fail({'stream': lines}, fail)
        if all(_in_model_grammar(l) for l in lines):
            sreq.append(('pstream ' + ' | '.join(cps(l) for l in lines)).strip())
            simpl.append(line)
    ck.compare('strings.stream', sreq, simpl, ck.driver.run(sreq))
    rres = [r for part in pool_map(_repr_chunk, list(chunks(reprs, 200))) for r in part]
    for desc, fail in zip(reprs, rres):
        ck.note_case(('repr', repr(desc)[:300]))
        ck.count('repr:' + desc[0])
        if fail:
            ck.oracle_fail({'repr': [desc[0], repr(desc[1])]}, fail)
    ck.sample({'text': texts[60]})
    ck.sample({'stream': streams[3]})
    ck.sample({'msg': [mcases[30][0], repr(mcases[30][1]), repr(mcases[30][2])]})
    envprobe.check(ck, ['str'])
    return ck.finish(RULE, assumptions=['eval, the full grammar of int()/float() (non-ASCII digits, exponents, nan/inf) and float printing are '
                                        'CPython\'s: the model covers ASCII decimal integers (sign, underscores) and plain floats with <= 2 decimals; '
                                        'other numerals and all repr/eval round trips are decided by the oracle on the implementation only',
                                        'MidiFile has no __eq__: "equals" is equality of type, ticks_per_beat and tracks'])


def _in_model_grammar(text):
    """Texts whose numerals lie in the fragment the model implements."""
    import re
    if any(ord(c) > 127 and not c.isspace() for c in text):
        return False
    body = text.split('#')[0]
    for w in body.split():
        if '=' in w:
            v = w.split('=', 1)[1]
            if re.search(r'[eE]|nan|inf|NaN', v) and not v.startswith('('):
                return False
            m = re.fullmatch(r'[+-]?\d*\.(\d*)', v)
            if m and not (1 <= len(m.group(1)) <= 2 and re.fullmatch(r'[+-]?\d+\.\d+', v)):
                return False
    return True


def oracle(case):
    if 'environment' in case:
        return envprobe.oracle(case)
    if 'msg' in case:
        t, d, time = case['msg']
        d = {k: tuple(v) if k == 'data' else v for k, v in d.items()}
        return impl_msg((t, d, eval(time)))[1]
    if 'text' in case:
        return impl_text(case['text'])[1]
    if 'stream' in case:
        return impl_stream(case['stream'])[1]
    return impl_repr((case['repr'][0], eval(case['repr'][1])))


def replay(ck, rp):
    return generic_replay(ck, rp, oracle)
