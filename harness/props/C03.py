"""C03 — no invalid message state is reachable through the checked API."""
import copy

from .. import metas, msgs
from ..common import chunks, exc_name, generic_replay, pool_map

RULE = ('op histories (1..12 ops) on one Message object: construct / from_dict, copy with overrides, setattr, delattr, data +=; '
        'values per attribute from {lo-1, lo, lo+1, mid, hi-1, hi, hi+1, +-2**40, True, 1.0, 1.5, "1", None, [1], (1,), b"\\x01"}, '
        'names from the type\'s own, other types\', type, time and junk; window-exhaustive single ops: every attribute x every entry '
        'point x every integer in -300..300 (quick) / -20000..20000 (thorough). After every op the outcome class and vars(msg) are '
        'compared with the model, and an independent range table is applied to the real object. Distinct by op list; non-trivial '
        '= at least one rejected op')

WRONG = [True, 1.0, 1.5, '1', '', None, [1], (1,), b'\x01', [1, 200], [1, 'a'], (), [], 2 ** 40, -2 ** 40]
ALL_NAMES = sorted(set(n for _, names in msgs.TYPES.values() for n in names)) + ['time', 'foo', 'type_']


def valid_ref(m):
    """Independent range table applied to a real object."""
    d = vars(m)
    t = d.get('type')
    if t not in msgs.TYPES:
        return f'type {t!r}'
    _, names = msgs.TYPES[t]
    if set(d) != set(names) | {'type', 'time'}:
        return f'attribute set {sorted(d)}'
    if not isinstance(d['time'], (int, float)):
        return f'time {d["time"]!r}'
    for n in names:
        v = d[n]
        if n == 'data':
            if not isinstance(v, tuple) or not all(isinstance(b, int) and 0 <= b <= 127 for b in v):
                return f'data {v!r}'
        else:
            lo, hi = msgs.RANGES[n]
            if not isinstance(v, int) or not lo <= v <= hi:
                return f'{n}={v!r}'
    return None


def tok_state(m):
    if m is None:
        return '-'
    d = vars(m)
    _, names = msgs.TYPES[d['type']]
    return ' '.join([d['type']] + [metas.val_tok(d[n]) for n in names]) + ' time=' + metas.val_tok(d['time'])


def run_history(ops):
    import mido
    cur = None
    lines = []
    fail = None
    for op in ops:
        k = op[0]
        before = copy.deepcopy(vars(cur)) if cur is not None else None
        err = None
        try:
            if k == 'new':
                cur2 = mido.Message(op[1], **{n: _real(v) for n, v in op[2]})
                cur = cur2
            elif k == 'fromdict':
                d = {n: _real(v) for n, v in op[2]}
                d['type'] = op[1]
                cur = mido.Message.from_dict(d)
            elif cur is None:
                err = 'Other'
            elif k == 'copy':
                kw = {n: _real(v) for n, v in op[2]}
                if op[1] is not None:
                    kw['type'] = op[1]
                cur = cur.copy(**kw)
            elif k == 'set':
                setattr(cur, op[1], _real(op[2]))
            elif k == 'del':
                delattr(cur, op[1])
            elif k == 'iadd':
                cur.data += _real(op[1])
            elif k == 'clone':
                # a copy made by the standard library is the same message (and the history goes on with the copy)
                import pickle
                old = cur
                cur = {'copy': copy.copy, 'deepcopy': copy.deepcopy, 'pickle': lambda o: pickle.loads(pickle.dumps(o)),
                       'pickle0': lambda o: pickle.loads(pickle.dumps(o, 0))}[op[1]](cur)
                if vars(old) != before:
                    fail = fail or f'{op[1]} changed the original message: {before} -> {vars(old)}'
                if type(cur) is not type(old) or vars(cur) != before or \
                        any(type(v) is not type(before[n]) for n, v in vars(cur).items()):
                    fail = fail or (f'{op[1]} of a message with {before} gives {type(cur).__name__} with {vars(cur)} '
                                    f'(types {[type(v).__name__ for v in vars(cur).values()]})')
        except Exception as e:
            err = exc_name(e)
            allowed = ('ValueError', 'TypeError', 'AttributeError')
            if err not in allowed and not (k in ('new', 'fromdict') and err == 'LookupError' and op[1] not in msgs.TYPES):
                fail = fail or f'{k} raised {type(e).__name__}: {e}'
            if cur is not None and before is not None and vars(cur) != before:
                fail = fail or f'rejected {k} changed the message: {before} -> {vars(cur)}'
        if cur is not None and fail is None:
            bad = valid_ref(cur)
            if bad:
                fail = f'after {op!r} the message holds an invalid state: {bad}'
        lines.append(('ok' if err is None else 'err ' + err) + ' ; ' + tok_state(cur))
    return lines, fail


def _chunk(hs):
    return [run_history(h) for h in hs]


def kw_tokens(kw):
    return ' '.join('%s=%s' % (n, metas.val_tok(v)) for n, v in kw)


def enc(op):
    k = op[0]
    if k == 'clone':
        return None             # the model's state does not change
    if k in ('new', 'fromdict'):
        return ('mo new %s %s' % (op[1], kw_tokens(op[2]))).strip()
    if k == 'copy':
        return ('mo copy %s %s' % ('type=' + op[1] if op[1] is not None else '', kw_tokens(op[2]))).replace('  ', ' ').strip()
    if k == 'set':
        return 'mo set %s %s' % (op[1], metas.val_tok(op[2]))
    if k == 'del':
        return 'mo del ' + op[1]
    return 'mo iadd ' + metas.val_tok(op[1])


class SX(tuple):
    """marker: at run time this becomes the `.data` object (a SysexData) of ANOTHER message that was built with
    skip_checks=True - the one way to get hold of a SysexData instance with arbitrary items"""

    def __repr__(self):
        return 'SX(%s)' % tuple.__repr__(self)


class OS(tuple):
    """marker: at run time this becomes a one-shot iterable of the items (a generator, iter(), map()) - data read from a
    stream is often handed over that way; for the model it is the sequence of its items"""

    def __repr__(self):
        return 'OS(%s)' % tuple.__repr__(self)


def _real(v):
    if isinstance(v, OS):
        k = len(v) % 3
        return (x for x in list(v)) if k == 0 else (iter(list(v)) if k == 1 else map(lambda x: x, list(v)))
    if isinstance(v, SX):
        import mido
        return mido.Message('sysex', data=list(v), skip_checks=True).data
    return v


def values_for(rng, name, one_shot=False):
    """one_shot: include one-shot iterables (constructor, from_dict, copy: there the items are materialised first; an
    assignment or += checks the iterable and then stores what is left of it, which is no invalid state and not judged)"""
    if name == 'data' and not one_shot:
        v = values_for(rng, name, one_shot=True)
        while isinstance(v, OS):
            v = values_for(rng, name, one_shot=True)
        return v
    if name == 'data':
        return rng.choice([(), (1, 2), [0, 127], [128], [-1], b'\x01\x02', 'ab', 5, None, [1.5], (1, 'a'), [True],
                           [1, 1.0], [7, 2, 7.0], (0, 0.0), [3, 3, 3.0], [1.0, 1], [127, 127.0],
                           SX((1, 2)), SX((1, 200)), SX((1.5, 2)), SX((3, -1)), SX(()),
                           OS((1, 2)), OS((1, 2, 128)), OS((1.5,)), OS((-1, 3)), OS(()), OS((5, 'a')), OS((0, 127, 64, 3)),
                           OS((300,)), OS((1, None))] + WRONG)
    if name == 'time':
        return rng.choice([0, 1, -5, 2.5, 10 ** 20, 'x', None, [1], True, b'12', b'2.5', b' 3 ', '12', '2.5', b'', (1,), b'\x01'])
    if name in msgs.RANGES:
        lo, hi = msgs.RANGES[name]
        return rng.choice([lo - 1, lo, lo + 1, (lo + hi) // 2, hi - 1, hi, hi + 1] * 3 + WRONG)
    return rng.choice([0, 1, 'x'])


def gen(ck):
    rng = ck.rng
    hs = []
    W = 300 if ck.tier == 'quick' else 20000
    # window-exhaustive single ops
    for t, (_, names) in msgs.TYPES.items():
        for n in names:
            if n == 'data':
                continue
            step = 1
            for v in range(-W, W + 1, step):
                lo, hi = msgs.RANGES[n]
                if ck.tier == 'quick' and not (lo - 3 <= v <= lo + 3 or hi - 3 <= v <= hi + 3 or v % 37 == 0):
                    continue
                hs.append([('new', t, [(n, v)])])
                hs.append([('new', t, []), ('set', n, v)])
                hs.append([('new', t, []), ('copy', None, [(n, v)])])
    ck.exhaustive['every attribute x {constructor, setattr, copy} x integer window'] = True
    # ill-typed values that compare EQUAL to the current value (60 == 60.0, 1 == True, (1, 2) == (1.0, 2.0))
    for t, (_, names) in msgs.TYPES.items():
        for n in names:
            for _ in range(3):
                v = _good(rng, n)
                eqv = tuple(float(x) for x in v) if n == 'data' else float(v)
                hs.append([('new', t, [(n, v)]), ('copy', None, [(n, eqv)])])
                hs.append([('new', t, [(n, v)]), ('set', n, eqv)])
                hs.append([('new', t, [(n, v)]), ('copy', t, [(n, eqv), ('time', 2)])])
    # sysex data handed to the constructor / from_dict / copy as a one-shot iterable (what came out of a stream): the items are
    # checked as those of a list would be
    for v in (OS((1, 2)), OS((1, 2, 128)), OS((1.5,)), OS((-1, 3)), OS(()), OS((5, 'a')), OS((0, 127, 64, 3)), OS((300,)),
              OS((1, None)), OS((1.0, 2.0)), OS((127, 128, 0))):
        hs.append([('new', 'sysex', [('data', v)])])
        hs.append([('fromdict', 'sysex', [('data', v)])])
        hs.append([('new', 'sysex', [('data', (7,))]), ('copy', None, [('data', v)])])
    # names that exist on the class (methods, properties) are not message attributes: assigning them is refused as well
    for t in msgs.TYPE_NAMES:
        for n in ('is_meta', 'is_cc', 'is_realtime', 'copy', 'bytes', 'bin', 'hex', 'dict', 'from_dict', 'from_bytes', '__class__',
                  '__dict__', '__len__', '_setattr', 'frozen'):
            hs.append([('new', t, []), ('set', n, rng.choice([0, 1, 'x'])), ('copy', None, [])])
    # standard-library copies, then assignments that are refused (the refused ones change nothing, in the copy either)
    for _ in range(600 if ck.tier == 'quick' else 20000):
        t = rng.choice(['sysex', 'sysex', 'note_on', 'pitchwheel', 'songpos', 'control_change'])
        names = list(msgs.TYPES[t][1])
        h = [('new', t, [(n, _good(rng, n)) for n in names if rng.random() < 0.7]), ('clone', rng.choice(['copy', 'deepcopy', 'pickle', 'pickle0']))]
        for _k in range(rng.randint(1, 4)):
            r = rng.random()
            if t == 'sysex' and r < 0.6:
                h.append(('iadd', rng.choice([[5, 300], [1, 2], (1.5,), [-1], [3], 'x', [127, 128]])))
            elif r < 0.8:
                n = rng.choice(names + ['time'])
                h.append(('set', n, values_for(rng, n)))
            else:
                h.append(('clone', rng.choice(['copy', 'deepcopy', 'pickle'])))
        hs.append(h)
    for _ in range(4000 if ck.tier == 'quick' else 150000):
        t = rng.choice(msgs.TYPE_NAMES + ['foo'] if rng.random() < 0.03 else msgs.TYPE_NAMES)
        names = list(msgs.TYPES[t][1]) if t in msgs.TYPES else []
        h = []
        kw = []
        for n in names + ['time']:
            if rng.random() < 0.3:
                kw.append((n, values_for(rng, n, one_shot=True) if rng.random() < 0.3 else _good(rng, n)))
        if rng.random() < 0.1:
            kw.append((rng.choice(ALL_NAMES), 1))
        h.append((rng.choice(['new', 'new', 'fromdict']), t, kw))
        for _ in range(rng.randint(0, 11)):
            r = rng.random()
            pool = names + ['time'] if rng.random() < 0.85 else ALL_NAMES + ['type']
            n = rng.choice(pool) if pool else 'time'
            if r < 0.4:
                h.append(('set', n, values_for(rng, n) if rng.random() < 0.5 else _good(rng, n)))
            elif r < 0.7:
                kw = [(m, values_for(rng, m, one_shot=True) if rng.random() < 0.4 else _good(rng, m)) for m in rng.sample(pool, min(len(pool), rng.randint(0, 2)))]
                tov = rng.choice([None, None, None, t, 'note_on'])
                h.append(('copy', tov, kw))
            elif r < 0.78:
                h.append(('del', n))
            elif r < 0.9:
                h.append(('iadd', values_for(rng, 'data')))
            else:
                h.append(('new', rng.choice(msgs.TYPE_NAMES), []))
        hs.append(h)
    return hs


def _good(rng, n):
    if n == 'data':
        return tuple(rng.randint(0, 127) for _ in range(rng.randint(0, 4)))
    if n == 'time':
        return rng.choice([0, 3, 1.5])
    if n in msgs.RANGES:
        lo, hi = msgs.RANGES[n]
        return rng.randint(lo, hi)
    return 0


def other_type_names_fail():
    """Every type name the constructor accepts - the 18 of the specification and whatever else the working tree's own tables
    advertise (aliases, spellings) - gives a message whose state is valid and stays valid: the caller's own data list is not
    the message's, a rejected `+=` / assignment / copy changes nothing."""
    import mido
    cands = set()
    for modname in ('mido.messages.specs', 'mido.messages.strings', 'mido.messages.messages', 'mido.messages.checks',
                    'mido.messages.decode', 'mido.messages.encode', 'mido.messages', 'mido'):
        try:
            mod = __import__(modname, fromlist=['x'])
        except Exception:      # noqa: BLE001
            continue
        for v in list(vars(mod).values()):
            items = []
            if isinstance(v, dict):
                items = list(v.keys()) + list(v.values())
            elif isinstance(v, (list, tuple, set, frozenset)):
                items = list(v)
            for x in items:
                if isinstance(x, str) and 0 < len(x) < 40:
                    cands.add(x)
                elif isinstance(x, dict):
                    cands.update(y for y in list(x.keys()) + list(x.values()) if isinstance(y, str) and 0 < len(y) < 40)
    for nm in sorted(cands - set(msgs.TYPES)):
        for via in ('constructor', 'from_dict'):
            source = [1, 2, 3]
            try:
                m = mido.Message(nm, data=source) if via == 'constructor' else mido.Message.from_dict({'type': nm, 'data': source})
            except Exception:      # noqa: BLE001 - not a type name (or not one that takes data): nothing to judge
                try:
                    m = mido.Message(nm) if via == 'constructor' else mido.Message.from_dict({'type': nm})
                except Exception:      # noqa: BLE001
                    continue
            bad = valid_ref(m)
            if bad:
                return f'Message({nm!r}, …) ({via}) is accepted and holds an invalid state: {bad} ({vars(m)})'
            if 'data' in vars(m):
                source.append(999)
                if valid_ref(m):
                    return (f'Message({nm!r}, data=<list>) ({via}) keeps the caller\'s list: appending 999 to that list afterwards '
                            f'changed the message to {vars(m)}')
                snap = copy.deepcopy(vars(m))
                for attempt in (lambda: m.__iadd__([4, 300]) if False else m.__setattr__('data', m.data.__iadd__([4, 300])),
                                lambda: setattr(m, 'data', [1, 200]), lambda: m.copy(data=[1, 300])):
                    try:
                        attempt()
                    except Exception:      # noqa: BLE001
                        pass
                    if valid_ref(m) or vars(m) != snap:
                        return (f'after a rejected change of the data of Message({nm!r}, data=[1, 2, 3]) ({via}) the message holds '
                                f'{vars(m)} (before: {snap})')
                try:
                    d = m.data
                    d += [5, 300]
                except Exception:      # noqa: BLE001
                    pass
                if valid_ref(m) or vars(m) != snap:
                    return f'`d = msg.data; d += [5, 300]` on Message({nm!r}, data=[1, 2, 3]) ({via}) changed the message to {vars(m)}'
                try:
                    m.data += [4, 300]
                except Exception:      # noqa: BLE001
                    pass
                if valid_ref(m) or vars(m) != snap:
                    return f'a rejected `msg.data += [4, 300]` on Message({nm!r}, data=[1, 2, 3]) ({via}) left the message as {vars(m)}'
    return None


def handed_out_values_fail():
    """What a message hands out (dict(), bytes(), bin(), the data of a sysex message, a copy) belongs to the caller: changing it
    is no entry point of the checked API, so it cannot change the message — its type, its set of attributes, its values."""
    import mido
    for t in msgs.TYPE_NAMES:
        for frozen in (False, True):
            m = mido.Message(t, time=3)
            if frozen:
                from mido.frozen import freeze_message
                m = freeze_message(m)
            before = (m.type, sorted((k, repr(v), type(v).__name__) for k, v in vars(m).items()))
            what = 'frozen ' + t if frozen else t
            try:
                d = m.dict()
                for k in list(d):
                    d[k] = 300 if k not in ('type', 'data') else ('note_off' if k == 'type' else [999])
                d['bogus'] = 1
                for k in list(d)[:2]:
                    del d[k]
                d.clear()
                b = m.bytes()
                if isinstance(b, list):
                    b[:] = [0x90, 1, 2, 3]
                bb = m.bin()
                if isinstance(bb, bytearray):
                    bb[:] = b'\x00'
                c = m.copy()
                for k in vars(c):
                    if k not in ('type',) and not frozen:
                        try:
                            setattr(c, k, 1 if k != 'data' else (1,))
                        except Exception:      # noqa: BLE001
                            pass
                if t == 'sysex':
                    dd = m.data
                    try:
                        dd += (5,)
                    except Exception:      # noqa: BLE001
                        pass
            except Exception as e:      # noqa: BLE001
                return f'using what a {what} message hands out raised {type(e).__name__}: {e}'
            after = (m.type, sorted((k, repr(v), type(v).__name__) for k, v in vars(m).items()))
            if after != before:
                return (f'after the caller changed what a {what} message handed out (its dict(), bytes(), bin(), a copy), the message '
                        f'itself changed: {before} -> {after}')
            bad = valid_ref(m)
            if bad:
                return f'after the caller changed what a {what} message handed out the message is invalid ({bad}): {vars(m)}'
    return None


def run(ck):
    ck.prepare_lean()
    ck.run_corpus(oracle)
    ck.evaluations += 1
    ck.count('other_type_names')
    f0 = other_type_names_fail()
    if f0:
        ck.oracle_fail({'other_type_names': True}, f0)
    hs = gen(ck)
    res = [r for part in pool_map(_chunk, list(chunks(hs, 2000))) for r in part]
    reqs, impl = [], []
    for h, (lines, fail) in zip(hs, res):
        rejected = any(l.startswith('err') for l in lines)
        ck.note_case(repr(h), nontrivial=rejected)
        for o, l in zip(h, lines):
            ck.count('op:' + o[0])
            ck.count('outcome:' + l.split(' ;')[0])
        if fail:
            ck.oracle_fail({'ops': repr(h)}, fail)
        reqs.append('mo reset')
        impl.append('ok')
        for o, l in zip(h, lines):
            try:
                e = enc(o)
                if e is None:
                    continue
                reqs.append(e)
                impl.append(l)
            except ValueError:
                break
    ck.sample({'ops': repr(hs[-1])})
    ck.sample({'ops': repr(hs[7])})
    ck.compare('msgobj', reqs, impl, ck.driver.run(reqs))
    f = handed_out_values_fail()
    ck.evaluations += 1
    ck.count('handed_out_values')
    if f:
        ck.oracle_fail({'handed_out_values': True}, f)
    return ck.finish(RULE, assumptions=['vars(msg)[...] = ... and skip_checks=True are outside the checked API',
                                        'an unknown message TYPE raises LookupError (the property lists exceptions for unknown attributes)'])


def oracle(case):
    if isinstance(case, dict) and case.get('other_type_names'):
        return other_type_names_fail()
    if isinstance(case, dict) and case.get('handed_out_values'):
        return handed_out_values_fail()
    return run_history(eval(case['ops']))[1]


def replay(ck, rp):
    return generic_replay(ck, rp, oracle)
