"""C11 — port lifecycle: idempotent close, drain then stop, blocking calls terminate."""
import itertools

from .. import portsim
from ..common import chunks, exc_name, generic_replay, pool_map

RULE = ('histories (<= 14 ops) of send / receive / poll / for-loop / iter_pending / close / with-exit on a scripted device double '
        '(autoreset on/off; optionally a device that stops accepting sends after k messages), EchoPort and MultiPort over such ports, with ports.sleep replaced by a counter that reports a hang; '
        'exhaustively every position of the device closing itself relative to 0..3 arrivals and 0..3 queued messages; outcome of every '
        'op and the final device log compared with the model; two real threads (one waiting in a blocking receive / for-loop on an idle device, Echo or Multi port, the other closing the port or sending) under a 2 s watchdog. Distinct by (port setup, op list); non-trivial = at least one op '
        'after a close or an environment step that closes')


def spec_str(spec):
    return 'kind=%s autoreset=%d closed=0 queue=%s script=%s budget=%s' % (
        spec['kind'], 1 if spec['autoreset'] else 0,
        ','.join(map(str, spec['queue'])) or '-',
        ';'.join('%s:%d' % (','.join(map(str, a)), 1 if c else 0) for a, c in spec['script']) or '-',
        '-' if spec.get('budget') is None else spec['budget'])


def build_port(spec, Dev):
    import mido
    from mido.ports import EchoPort
    if spec['kind'] == 'echo':
        class LoggedEcho(EchoPort):
            def _close(self):
                self.log.append('C')
        p = LoggedEcho()
        p.log = []
    else:
        p = Dev('d', autoreset=spec['autoreset'], script=spec['script'], budget=spec.get('budget'))
    p._messages.extend(portsim.msg_of(k) for k in spec['queue'])
    return p


def out_of(fn):
    """Run a receive-like call; map its outcome to the protocol."""
    try:
        m = fn()
    except portsim.Hang:
        return 'hang'
    except Exception as e:
        return 'err ' + exc_name(e)
    if m is None:
        return 'none'
    return 'msg %d' % portsim.ident(m)


def iterate(it):
    got = []
    try:
        for m in it:
            got.append(portsim.ident(m))
        end = 'normal'
    except portsim.Hang:
        end = 'hang'
    except Exception as e:
        end = 'err ' + exc_name(e)
    return 'yield %s %s' % (','.join(map(str, got)), end)


def state_str(p, sleeps):
    return 'closed=%d queue=%s log=%s sleeps=%d' % (1 if p.closed else 0, ','.join(str(portsim.ident(m)) for m in p._messages),
                                                    ','.join(x for x in p.log if x != '<'), sleeps)


def run_history(case):
    """case = (spec, ops). Returns (lines, failure)."""
    import mido
    spec, ops = case
    Dev = portsim.make_dev_class()
    lines = []
    fail = None
    with portsim.patched_sleep() as sl:
        p = build_port(spec, Dev)
        closed_seen = False
        sent_ok = 0
        handed_in = list(spec['queue'])
        handed_out = []
        for op in ops:
            sl.n_before = sl.n
            k = op[0]
            if k == 'send':
                try:
                    p.send(portsim.msg_of(op[1]))
                    lines.append('ok')
                    sent_ok += 1
                    if spec['kind'] == 'echo':
                        handed_in.append(op[1])
                    if closed_seen and fail is None:
                        fail = 'send after close did not raise'
                except ValueError:
                    lines.append('err ValueError')
                    if not p.closed and fail is None:
                        fail = 'send raised ValueError on an open port'
                except Exception as e:
                    lines.append('err ' + exc_name(e))
                    gone = spec.get('budget') is not None and sum(1 for x in p.log if x.startswith('s')) >= spec['budget'] and isinstance(e, OSError)
                    if not gone:
                        fail = fail or f'send raised {type(e).__name__}'
            elif k in ('receive', 'poll'):
                before = sl.n
                o = out_of(p.receive if k == 'receive' else p.poll)
                lines.append(o)
                if o.startswith('msg'):
                    handed_out.append(int(o[4:]))
                if o.startswith('err') and len(p._messages) and fail is None:
                    fail = f'{k}() gave {o} although {len(p._messages)} message(s) the port had taken in were deliverable'
                if k == 'poll' and sl.n != before and fail is None:
                    fail = 'poll() waited (called ports.sleep)'
                if k == 'poll' and o.startswith('err') and fail is None:
                    fail = f'poll() raised: {o}'
                if o == 'hang' and fail is None and (p.closed or (spec['kind'] == 'dev' and False)):
                    fail = 'blocking receive did not terminate on a closed port'
            elif k == 'iter':
                o = iterate(p)
                lines.append(o)
                handed_out += [int(x) for x in o.split(' ')[1].split(',') if x]
                if o.endswith('hang') is False and not o.endswith('normal') and fail is None:
                    fail = f'iteration over the port ended with an exception: {o}'
                if o.endswith('normal') and spec['kind'] == 'dev' and len(p._messages) and fail is None:
                    fail = f'iteration stopped with {len(p._messages)} message(s) the port had taken in not handed out'
            elif k == 'iterpending':
                o = iterate(p.iter_pending())
                lines.append(o)
                handed_out += [int(x) for x in o.split(' ')[1].split(',') if x]
                if not o.endswith('normal') and fail is None:
                    fail = f'iter_pending ended with {o}'
            elif k == 'reset':
                try:
                    was_closed = p.closed
                    p.reset()
                    lines.append('ok')
                    if spec['kind'] == 'echo' and not was_closed:
                        handed_in += [1000 + i for i in range(32)]      # an EchoPort receives what it sends
                except OSError:
                    lines.append('err OSError')
                    if (spec.get('budget') is None or sum(1 for x in p.log if x.startswith('s')) < spec['budget']) and fail is None:
                        fail = 'reset() raised OSError on a healthy device'
                except Exception as e:
                    lines.append('err ' + exc_name(e))
                    fail = fail or f'reset() raised {type(e).__name__}'
            elif k == 'close':
                p.close()
                lines.append('ok')
                if not p.closed and fail is None:
                    fail = f'close() returned and the port is still open (device log {p.log[-6:]})'
            elif k == 'exit':
                with p:
                    pass
                lines.append('ok')
                if not p.closed and fail is None:
                    fail = f'leaving the with block returned and the port is still open (device log {p.log[-6:]})'
            if p.closed:
                closed_seen = True
        lines.append(state_str(p, sl.n))
        if fail is None:
            log = [x for x in p.log if x != '<']
            mark = p.log.index('<') if '<' in p.log else None
            ncl = p.log.count('C')
            if ncl > 1 or (p.closed and spec['kind'] == 'dev' and ncl != 1):
                fail = f'device released {ncl} times: log {p.log}'
            resets = [x for x in p.log if x.startswith('s1') and len(x) == 5]
            if spec['kind'] == 'dev' and p.closed:
                want = ['s%d' % (1000 + i) for i in range(32)] if spec['autoreset'] else []
                if spec.get('budget') is not None and mark is not None:
                    # a device that stops accepting messages: the resets it still took, then the release
                    taken_before = sum(1 for x in p.log[:mark] if x.startswith('s'))
                    want = want[:max(0, spec['budget'] - taken_before)]
                tail = (p.log[mark + 1:] if mark is not None else log[-(len(want) + 1):])
                if tail != want + ['C']:
                    fail = f'reset messages / release out of order at close: log tail {tail}'
            # drain then stop: once closed, everything taken in is handed out by a final drain
            if fail is None and p.closed:
                rest = iterate(p)
                if not rest.endswith('normal'):
                    fail = f'draining a closed port ended with {rest}'
                else:
                    handed_out += [int(x) for x in rest.split(' ')[1].split(',') if x]
                    consumed_script = len(spec['script']) - len(getattr(p, 'script', []))
                    taken = handed_in + [k for a, c in spec['script'][:consumed_script] for k in a]
                    if handed_out != taken:
                        fail = f'messages taken in {taken} but handed out {handed_out}'
                    elif p.poll() is not None:
                        fail = 'poll() on a closed, drained port returned a message'
    return lines, fail


def run_multi(case):
    """case = (child specs, ops) on a MultiPort with the identity shuffle."""
    import mido
    import mido.ports as P
    specs, ops = case
    Dev = portsim.make_dev_class()
    lines = []
    fail = None
    old_shuffle = P.random.shuffle
    P.random.shuffle = lambda l: None
    try:
        with portsim.patched_sleep() as sl:
            kids = [build_port(s, Dev) for s in specs]
            mp = P.MultiPort(kids)
            for op in ops:
                if op[0] == 'receive':
                    o = out_of(lambda: mp.receive(block=op[1]))
                    lines.append(o)
                    if not op[1] and (o == 'hang' or o.startswith('err')) and fail is None:
                        fail = f'non-blocking MultiPort.receive gave {o}'
                    if o == 'hang' and fail is None:
                        deliverable = len(mp._messages) > 0 or any(len(k._messages) for k in kids if not k.closed) or any(
                            any(a for a, c in getattr(k, 'script', [])) for k in kids if not k.closed)
                        if deliverable:
                            fail = 'MultiPort.receive() hangs although a child has a deliverable message'
                else:
                    try:
                        mp.send(portsim.msg_of(op[1]))
                        lines.append('ok')
                    except Exception as e:
                        lines.append('err ' + exc_name(e))
            lines.append('closed=%d queue=%s sleeps=%d | ' % (1 if mp.closed else 0, ','.join(str(portsim.ident(m)) for m in mp._messages), sl.n) +
                         ' | '.join(state_str(k, 0) for k in kids))
    finally:
        P.random.shuffle = old_shuffle
    return lines, fail


def reset_independence(iterable_ports=False):
    """The reset messages of one closing port belong to whoever receives them: changing them must not change what the next
    autoreset close sends.  With iterable_ports: a MultiPort built from a one-shot iterable of ports keeps its ports."""
    import mido.ports as P
    if iterable_ports:
        kids = [P.EchoPort(), P.EchoPort()]
        mp = P.MultiPort(k for k in kids)
        for rnd in range(3):
            kids[rnd % 2].send(portsim.msg_of(40 + rnd))
            m = mp.poll()
            if m is None or portsim.ident(m) != 40 + rnd:
                return f'MultiPort built from a generator of ports: poll() in round {rnd} gave {m!r} with a message pending in a child'
        mp.send(portsim.msg_of(50))
        if [portsim.ident(k.poll()) for k in kids] != [50, 50]:
            return 'MultiPort built from a generator of ports: send() did not reach the child ports'
        return None
    want = [1000 + i for i in range(32)]
    seen = []
    for rnd in range(3):
        p = P.EchoPort(autoreset=True)
        p.close()
        got = list(p.iter_pending())
        ids = [portsim.ident(m) for m in got]
        if ids != want or any(m.time != 0 for m in got):
            return f'autoreset close number {rnd + 1} sent {ids[:6]}... (times {[m.time for m in got][:4]}) instead of the 32 reset messages'
        if any(any(m is o for o in seen) for m in got):
            return 'two closing ports handed out the very same message objects'
        seen += got
        for m in got:                      # the receiver does what it likes with what it received
            m.channel = (m.channel + 5) % 16
            m.time = 9
    return None


def multi_big_child(n):
    """A child of a MultiPort takes in n messages and closes itself in the same step: the MultiPort hands out all n."""
    import mido.ports as P
    Dev = portsim.make_dev_class()
    old = P.random.shuffle
    P.random.shuffle = lambda l: None
    try:
        with portsim.patched_sleep():
            child = Dev('d', script=[(list(range(n)), True)])
            mp = P.MultiPort([P.EchoPort(), child])
            got = []
            for _ in range(5):
                got += [portsim.ident(m) for m in mp.iter_pending()]
            while True:
                m = mp.poll()
                if m is None:
                    break
                got.append(portsim.ident(m))
        if got != list(range(n)):
            return f'a child port took in {n} messages and closed itself; the MultiPort handed out {len(got)} of them'
        return None
    finally:
        P.random.shuffle = old


def concurrent_case(kind, action):
    """Two real threads: one waits in a blocking receive() / a for-loop on an idle port, the other closes the port or
    makes a message deliverable.  The waiting call must end promptly (2 s watchdog)."""
    import threading
    import time
    import mido.ports as P
    old_sleep = P.sleep
    P.sleep = lambda: time.sleep(0.002)
    try:
        Dev = portsim.make_dev_class()
        if kind == 'multi':
            kids = [P.EchoPort(), P.EchoPort()]
            port = P.MultiPort(kids)
        elif kind == 'echo':
            port = P.EchoPort()
            kids = [port]
        else:
            port = Dev('d', script=[])
            kids = []
        result = {}

        def waiter():
            try:
                if action.startswith('iter'):
                    result['got'] = [portsim.ident(m) for m in port]
                else:
                    result['got'] = [portsim.ident(port.receive())]
            except Exception as e:
                result['exc'] = e
        t = threading.Thread(target=waiter, daemon=True)
        t.start()
        time.sleep(0.05)
        if action.endswith('close'):
            c = threading.Thread(target=port.close, daemon=True)
            c.start()
            c.join(2)
            if c.is_alive():
                return f'close() called from another thread does not return while a blocking {action.split("_")[0]} waits on the {kind} port'
            t.join(2)
            if t.is_alive():
                return f'the blocking {action.split("_")[0]} on the {kind} port does not end after another thread closed the port'
            if action.startswith('iter') and 'exc' in result:
                return f'iteration ended with {type(result["exc"]).__name__} after another thread closed the port'
            if 'exc' in result and not isinstance(result['exc'], (OSError, ValueError)):
                return f'receive() raised {type(result["exc"]).__name__} after another thread closed the port'
        else:
            if not kids:
                return None
            s = threading.Thread(target=lambda: kids[-1].send(portsim.msg_of(77)), daemon=True)
            s.start()
            s.join(2)
            if s.is_alive():
                return f'send() from another thread does not return while a blocking receive waits on the {kind} port'
            if action.startswith('iter'):
                time.sleep(0.1)
                c = threading.Thread(target=port.close, daemon=True)
                c.start()
                c.join(2)
            t.join(2)
            if t.is_alive():
                return f'a blocking {action.split("_")[0]} on the {kind} port did not return although a message became deliverable'
            if result.get('got') != [77]:
                return f'the waiting call on the {kind} port ended with {result}'
        return None
    finally:
        P.sleep = old_sleep


def arrivals_and_close_in_one_pause(kind, action):
    """A blocking receive() / for-loop waits on an idle port.  Inside ONE of its pauses (between two polls) messages become
    deliverable AND the port is closed (what another thread does while this one sleeps; played here by the patched sleep, so
    the interleaving is exact).  Drain then stop: the waiting call hands out the messages first."""
    import mido.ports as P
    old_sleep = P.sleep
    state = {'done': False, 'calls': 0}
    try:
        if kind == 'multi':
            kids = [P.EchoPort(), P.EchoPort()]
            port = P.MultiPort(kids)
        else:
            port = P.EchoPort()
            kids = [port]

        def sleeper():
            state['calls'] += 1
            if state['calls'] > 50:
                raise portsim.Hang()
            if not state['done']:
                state['done'] = True
                kids[-1].send(portsim.msg_of(41))
                kids[0].send(portsim.msg_of(42))
                port.close()
        P.sleep = sleeper
        got = []
        try:
            if action == 'iter':
                for m in port:
                    got.append(portsim.ident(m))
            else:
                got.append(portsim.ident(port.receive()))
                while True:
                    m = port.poll()
                    if m is None:
                        break
                    got.append(portsim.ident(m))
        except portsim.Hang:
            return f'the blocking {action} on the {kind} port never ended'
        except Exception as e:
            return (f'messages became deliverable and the port was closed inside one pause of a blocking {action} on the {kind} port: '
                    f'it raised {type(e).__name__} ({e}) after handing out {got} instead of draining first')
        if sorted(got) != [41, 42]:
            return (f'messages 41, 42 became deliverable and the port was closed inside one pause of a blocking {action} on the {kind} '
                    f'port: it handed out {got}')
        return None
    finally:
        P.sleep = old_sleep


def closed_port_kinds_fail():
    """After close, every kind of port the library has - device double, EchoPort, IOPort, MultiPort, SocketPort (closed by the
    program, and closed by itself when the peer hung up), PortServer - refuses send() with ValueError, answers poll() without
    raising, refuses a blocking receive() with ValueError, reports closed, and can still be printed."""
    import socket
    import mido
    import mido.ports as P
    from mido.sockets import PortServer, SocketPort
    Dev = portsim.make_dev_class()
    made = []

    def sock_port(self_close):
        a, b = socket.socketpair()
        p = SocketPort('pair', 1, conn=a)
        made.extend([a, b])
        if self_close:
            b.close()
            for _ in p.iter_pending():
                pass
        return p
    kinds = [('device port', lambda: Dev('d', autoreset=False, script=[], budget=None)), ('EchoPort', P.EchoPort),
             ('IOPort', lambda: P.IOPort(P.EchoPort(), P.EchoPort())), ('MultiPort', lambda: P.MultiPort([P.EchoPort()])),
             ('SocketPort', lambda: sock_port(False)), ('SocketPort closed by the peer', lambda: sock_port(True)),
             ('PortServer', lambda: PortServer('127.0.0.1', 0))]
    try:
        with portsim.patched_sleep(limit=50):
            for name, mk in kinds:
                try:
                    p = mk()
                except Exception as e:      # noqa: BLE001 - no network namespace etc.: not judged
                    if name == 'PortServer':
                        continue
                    return f'creating a {name} raised {type(e).__name__}: {e}'
                try:
                    p.close()
                    p.close()
                    if not p.closed:
                        return f'a {name} does not report closed after close()'
                    try:
                        repr(p), str(p)
                    except Exception as e:      # noqa: BLE001
                        return f'repr() of a closed {name} raised {type(e).__name__}: {e}'
                    for what, call in (('send', lambda: p.send(mido.Message('note_on'))), ('receive', lambda: p.receive())):
                        try:
                            call()
                            return f'{what}() on a closed {name} did not raise'
                        except ValueError:
                            pass
                        except portsim.Hang:
                            return f'{what}() on a closed {name} blocked'
                        except Exception as e:      # noqa: BLE001
                            return f'{what}() on a closed {name} raised {type(e).__name__} ({e}) instead of ValueError'
                    try:
                        if p.poll() is not None:
                            return f'poll() on a closed, empty {name} returned a message'
                    except Exception as e:      # noqa: BLE001
                        return f'poll() on a closed {name} raised {type(e).__name__}: {e}'
                finally:
                    try:
                        p.close()
                    except Exception:      # noqa: BLE001
                        pass
    finally:
        for s_ in made:
            try:
                s_.close()
            except Exception:      # noqa: BLE001
                pass
    return None


def ioport_wrapping(arrivals, pending_before, close_how):
    """An IOPort wrapped around an input port (with nothing / something pending at that moment) and an output port.  One
    device read takes in several messages, then the IOPort (or the input port) is closed: every message taken in is handed
    out, in order, then the port stops."""
    import mido.ports as P
    Dev = portsim.make_dev_class()
    old_sleep = P.sleep
    cnt = portsim.SleepCounter(limit=50)
    P.sleep = cnt
    try:
        inp = Dev('in', script=[])
        out = Dev('out', script=[])
        for k in range(pending_before):
            inp._messages.append(portsim.msg_of(900 + k))
        io = P.IOPort(inp, out)
        inp.script = [(list(arrivals), False)]
        got = []
        for _ in range(pending_before + 1):          # until the device has been read once
            m = io.poll()
            if m is not None:
                got.append(portsim.ident(m))
            if not inp.script:
                break
        if inp.script:
            return None                               # the device was never read: nothing was taken in
        io.close()
        try:
            for m in io:
                got.append(portsim.ident(m))
        except portsim.Hang:
            return f'iteration over the closed IOPort never ended (arrivals {arrivals}, {pending_before} pending when wrapped)'
        except Exception as e:
            return f'iteration over the closed IOPort raised {type(e).__name__}: {e}'
        left = io.poll()
        want = [900 + k for k in range(pending_before)] + list(arrivals)
        if got != want or left is not None:
            return (f'an IOPort wrapped around an input port with {pending_before} message(s) pending; one device read took in {arrivals}; '
                    f'after close ({close_how}) it handed out {got} (then poll() = {left!r}), taken in: {want}')
        return None
    finally:
        P.sleep = old_sleep


def _chunk(cs):
    return [run_history(c) for c in cs]


def _mchunk(cs):
    return [run_multi(c) for c in cs]


def enc(op):
    if op[0] == 'reset':
        return 'lop reset'
    if op[0] == 'send':
        return 'lop send %d' % op[1]
    return 'lop ' + op[0]


def gen(ck):
    rng = ck.rng
    cases = []
    # exhaustive: every close position x arrivals x queued
    n = itertools.count(1)
    for queued in range(0, 4):
        for narr in range(0, 4):
            for closepos in range(0, narr + 2):        # the step at which the device closes itself
                for empties in (0, 1):
                    for autoreset in (False, True):
                        q = [next(n) for _ in range(queued)]
                        script = []
                        for i in range(narr + 1):
                            arr = [next(n)] if i < narr else []
                            if empties and i == 1:
                                script.append(([], False))
                            script.append((arr, i == closepos))
                        spec = {'kind': 'dev', 'autoreset': autoreset, 'queue': q, 'script': script}
                        if autoreset and empties == 0:
                            # the device stops accepting messages before / inside / after the reset loop of close()
                            for budget in (0, 1, 31, 32):
                                fs = dict(spec, budget=budget)
                                for tail in (['close', 'close', 'send'], ['iter', 'close', 'exit'], ['send', 'send', 'exit', 'close', 'poll'],
                                             ['reset', 'close'], ['send', 'reset', 'poll', 'close', 'reset']):
                                    cases.append((fs, [(t,) if t != 'send' else ('send', next(n)) for t in tail]))
                        for tail in (['reset', 'close', 'send'], ['send', 'reset', 'poll', 'exit'], ['iter'], ['receive', 'iter'], ['poll', 'poll', 'iter', 'poll'], ['iterpending', 'iter', 'receive'],
                                     ['close', 'iter', 'send'], ['iter', 'close', 'close', 'exit', 'send', 'poll']):
                            cases.append((spec, [(t,) if t != 'send' else ('send', next(n)) for t in tail]))
    ck.exhaustive['every self-close position x 0..3 arrivals x 0..3 queued messages x autoreset'] = True
    for _ in range(4000 if ck.tier == 'quick' else 150000):
        kind = rng.choice(['dev', 'dev', 'dev', 'echo'])
        q = [next(n) % 100000 for _ in range(rng.randint(0, 3))]
        script = []
        if kind == 'dev':
            closes_at = rng.choice([None, None, rng.randint(0, 5)])
            for i in range(rng.randint(0, 6)):
                script.append(([next(n) % 100000 for _ in range(rng.choice([0, 0, 1, 2]))], i == closes_at))
        spec = {'kind': kind, 'autoreset': rng.random() < 0.3 and kind == 'dev', 'queue': q, 'script': script}
        if kind == 'dev' and rng.random() < 0.25:
            spec['budget'] = rng.choice([0, 1, 2, 3, 31, 32, 33, 34, 40])
        ops = []
        for _ in range(rng.randint(1, 14)):
            t = rng.choice(['send', 'receive', 'poll', 'poll', 'iter', 'iterpending', 'close', 'exit', 'reset'])
            if t == 'iter' and rng.random() < 0.5:
                t = 'poll'
            ops.append(('send', next(n) % 100000) if t == 'send' else (t,))
        cases.append((spec, ops))
    multis = []
    for _ in range(1500 if ck.tier == 'quick' else 40000):
        specs = []
        for _c in range(rng.randint(0, 3)):
            kind = rng.choice(['dev', 'echo'])
            script = []
            if kind == 'dev':
                closes_at = rng.choice([None, None, rng.randint(0, 3)])
                for i in range(rng.randint(0, 4)):
                    script.append(([next(n) % 100000 for _ in range(rng.choice([0, 0, 1, 2]))], i == closes_at))
            specs.append({'kind': kind, 'autoreset': False, 'queue': [next(n) % 100000 for _ in range(rng.randint(0, 2))], 'script': script})
        ops = []
        for _ in range(rng.randint(1, 8)):
            if rng.random() < 0.3:
                ops.append(('send', next(n) % 100000))
            else:
                ops.append(('receive', rng.random() < 0.6))
        multis.append((specs, ops))
    return cases, multis


def _mask_hang_sleeps(reqs, impl, model, reset_word):
    """After a hang the number of sleep rounds is meaningless (the harness stops waiting after 60, the model when its
    script is exhausted): it is not compared for histories that contain a hang."""
    import re
    start = 0
    n = len(reqs)
    for i in range(n + 1):
        if i == n or reqs[i].startswith(reset_word):
            if i > start:
                seg = range(start, i)
                if any('hang' in impl[j] or 'hang' in model[j] for j in seg):
                    for j in seg:
                        impl[j] = re.sub(r'sleeps=\d+', 'sleeps=*', impl[j])
                        model[j] = re.sub(r'sleeps=\d+', 'sleeps=*', model[j])
            start = i


def abandoned_iteration_fail():
    """Messages a port has taken in are handed out by SOME later call: an iter_pending() / iteration that is started and
    abandoned (break after the first message, a single next(), an exception in the loop body) has handed out what it handed
    out - the rest stays receivable, before and after close()."""
    import mido
    import mido.ports as P

    class Dev(P.BaseInput):
        """a device that delivers its messages in bursts, then (optionally) fails once, then goes on"""
        def __init__(self, bursts, **kw):
            self.bursts = list(bursts)
            P.BaseInput.__init__(self, 'dev', **kw)

        def _receive(self, block=True):
            if self.bursts:
                b = self.bursts.pop(0)
                if b == 'fail':
                    raise OSError('transient device error')
                self._messages.extend(mido.Message('note_on', note=n) for n in b)

    def notes(ms):
        return [m.note for m in ms]
    for how in ('break', 'next', 'raise'):
        for maker, label in ((lambda: Dev([[1, 2, 3, 4]]), 'a device port that took in 4 messages at once'),
                             (None, 'an EchoPort that was sent 4 messages')):
            if maker is None:
                port = P.EchoPort()
                for n in (1, 2, 3, 4):
                    port.send(mido.Message('note_on', note=n))
            else:
                port = maker()
            got = []
            try:
                if how == 'break':
                    for m in port.iter_pending():
                        got.append(m)
                        break
                elif how == 'next':
                    got.append(next(port.iter_pending()))
                else:
                    try:
                        for m in port.iter_pending():
                            got.append(m)
                            raise KeyError('consumer bug')
                    except KeyError:
                        pass
                got.append(port.poll())
                port.close()
                got.extend(port.iter_pending())
                got = [m for m in got if m is not None]
            except Exception as e:      # noqa: BLE001
                return f'{label}: abandoned iter_pending() ({how}), poll(), close(), iter_pending() raised {type(e).__name__}: {e}'
            if notes(got) != [1, 2, 3, 4]:
                return (f'{label}: iter_pending() abandoned after one message ({how}), then poll(), close() and a full iter_pending() hand '
                        f'out {notes(got)}; the port took in [1, 2, 3, 4]')
    # a transient failure of the device in the middle of a drain: what was taken in before it is still handed out afterwards
    port = Dev([[1, 2], 'fail', [3]])
    got = []
    for _ in range(4):
        try:
            got.extend(port.iter_pending())
        except OSError:
            pass
    if notes(got) != [1, 2, 3]:
        return (f'a device port took in [1, 2], failed once (OSError) and then took in [3]: repeated iter_pending() handed out '
                f'{notes(got)}')
    return None


def wrapper_close_fail():
    """An IOPort whose input or output port was closed on its own (the device hung up, the program closed that one directly):
    close() / leaving a `with` block on the wrapper still closes the OTHER wrapped port - its device is released exactly once,
    after its reset messages were sent once."""
    import mido
    import mido.ports as P
    log = []

    class In(P.BaseInput):
        def _receive(self, block=True):
            return None

        def _close(self):
            log.append('in released')

    class Out(P.BaseOutput):
        def _send(self, msg):
            log.append('sent')

        def _close(self):
            log.append('out released')
    for which in ('input', 'output'):
        for how in ('close', 'with'):
            del log[:]
            inp, out = In('i'), Out('o', autoreset=True)
            port = P.IOPort(inp, out)
            (inp if which == 'input' else out).close()
            del log[:]
            try:
                if how == 'close':
                    port.close()
                    port.close()
                else:
                    with port:
                        pass
            except Exception as e:      # noqa: BLE001
                return f'IOPort whose {which} port was closed directly: {how} raised {type(e).__name__}: {e}'
            other = out if which == 'input' else inp
            if not other.closed or not port.closed:
                return (f'IOPort whose {which} port was closed directly: after {how} on the wrapper the other wrapped port is '
                        f'{"closed" if other.closed else "still open"}, the wrapper reports closed={port.closed}')
            want = ['sent'] * len(out.reset_messages() if hasattr(out, 'reset_messages') else []) if which == 'input' else None
            released = log.count('out released') if which == 'input' else log.count('in released')
            if released != 1:
                return f'IOPort whose {which} port was closed directly: after {how} the other device was released {released} times ({log})'
            if which == 'input' and log.count('sent') == 0:
                return f'IOPort whose input port was closed directly: {how} on the wrapper released the autoreset output without sending its reset messages ({log})'
    return None


def close_from_other_thread_fail():
    """Iteration ends without an exception when the port is closed INSIDE a receive call: a thread sits in `for msg in port`
    on a port with nothing pending (a device double polled through receive, and a real SocketPort over a socket pair), another
    thread closes the port; the loop ends quietly and the thread finishes."""
    import socket
    import threading
    import mido.ports as P
    from mido.sockets import SocketPort

    class Idle(P.BaseInput):
        def _receive(self, block=True):
            return None

    def make_socket_port():
        a, b = socket.socketpair()
        return SocketPort('localhost', 9, conn=a), b
    for kind in ('device double', 'SocketPort'):
        peer = None
        try:
            if kind == 'SocketPort':
                port, peer = make_socket_port()
            else:
                port = Idle('idle')
        except Exception as e:      # noqa: BLE001 - this way of building the port is not available: nothing to judge
            continue
        seen = {}

        def loop():
            try:
                seen['msgs'] = [m for m in port]
            except BaseException as e:      # noqa: BLE001
                seen['exc'] = e
        t = threading.Thread(target=loop, daemon=True)
        t.start()
        import time
        time.sleep(0.3)
        try:
            port.close()
        except Exception as e:      # noqa: BLE001
            return f'close() of a {kind} from another thread raised {type(e).__name__}: {e}'
        t.join(3)
        if peer is not None:
            peer.close()
        if t.is_alive():
            return f'a thread iterating a {kind} with nothing pending is still inside the loop 3 s after another thread closed the port'
        if 'exc' in seen:
            return (f'a {kind} was closed by another thread while `for msg in port` was waiting inside receive(): the loop raised '
                    f'{type(seen["exc"]).__name__}: {seen["exc"]} instead of ending')
        if seen.get('msgs') != []:
            return f'iteration of an idle {kind} closed from another thread yielded {seen.get("msgs")}'
    return None


def hangup_mid_message_fail():
    """A device that closes itself inside receive() after it took in complete messages AND the beginning of another one (a
    socket peer that hangs up in the middle of a message): the complete messages are handed out, then iteration stops."""
    import socket
    import time
    from mido.sockets import SocketPort
    import mido
    whole = [mido.Message('note_on', note=1), mido.Message('control_change', control=7, value=9), mido.Message('sysex', data=(1, 2, 3))]
    for partial in ([0x90, 0x40], [0xF0, 1, 2], [0xB0], []):
        for how in ('iterate', 'poll'):
            try:
                a, b = socket.socketpair()
                port = SocketPort('localhost', 9, conn=a)
            except Exception:      # noqa: BLE001 - this way of building the port is not available: nothing to judge
                return None
            b.sendall(bytes([x for m in whole for x in m.bytes()] + partial))
            b.close()
            time.sleep(0.05)
            got = []
            try:
                if how == 'iterate':
                    got = list(port)
                else:
                    for _ in range(10):
                        m = port.poll()
                        if m is not None:
                            got.append(m)
            except Exception as e:      # noqa: BLE001
                return f'a socket peer sent 3 messages and {partial} and hung up: {how} raised {type(e).__name__}: {e}'
            finally:
                try:
                    port.close()
                except Exception:      # noqa: BLE001
                    pass
            if [m.bytes() for m in got] != [m.bytes() for m in whole]:
                return (f'a socket peer sent 3 complete messages followed by the bytes {partial} and hung up: {how} handed out '
                        f'{[str(m) for m in got]}; the port had taken in {[str(m) for m in whole]}')
    return None


def run(ck):
    ck.prepare_lean(extra_targets=['MidoProofs.Props.C11b'])
    ck.run_corpus(oracle)
    cases, multis = gen(ck)
    res = [r for part in pool_map(_chunk, list(chunks(cases, 500))) for r in part]
    reqs, impl = [], []
    for (spec, ops), (lines, fail) in zip(cases, res):
        closes = any(c for _a, c in spec['script']) or any(o[0] in ('close', 'exit') for o in ops)
        ck.note_case(repr((spec, ops)), nontrivial=closes)
        ck.count('kind:' + spec['kind'])
        if spec.get('budget') is not None:
            ck.count('device_send_fault')
        for o in ops:
            ck.count('op:' + o[0])
        for l in lines[:-1]:
            ck.count('outcome:' + ' '.join(l.split(' ')[:1] + (l.split(' ')[1:2] if l.startswith('err') else [])))
        if fail:
            ck.oracle_fail({'spec': spec, 'ops': ops}, fail)
        reqs.append('lreset ' + spec_str(spec))
        impl.append('ok')
        for o, l in zip(ops, lines):
            reqs.append(enc(o))
            impl.append(l)
        reqs.append('lstate')
        impl.append(lines[-1])
    model = ck.driver.run(reqs)
    _mask_hang_sleeps(reqs, impl, model, 'lreset')
    ck.compare('ports_seq', reqs, impl, model)
    for n in ([342, 1025, 5000] if ck.tier == 'quick' else [1, 341, 342, 1024, 1025, 4097, 70000]):
        ck.evaluations += 1
        ck.count('multi_big_child')
        f = multi_big_child(n)
        if f:
            ck.oracle_fail({'multi_big_child': n}, f)
    for flag in (False, True):
        ck.evaluations += 1
        ck.count('reset_independence')
        f = reset_independence(flag)
        if f:
            ck.oracle_fail({'reset_independence': flag}, f)
    for kind in ('dev', 'echo', 'multi'):
        for action in ('receive_close', 'iter_close', 'receive_send', 'iter_send'):
            if kind == 'echo' and action.startswith('iter'):
                continue        # EchoPort.__iter__ is iter_pending: it never waits
            ck.evaluations += 1
            ck.count('two_threads:' + action)
            ck.note_case(('two-threads', kind, action))
            f = concurrent_case(kind, action)
            if f:
                ck.oracle_fail({'two_threads': [kind, action]}, f)
    for kind in ('echo', 'multi'):
        for action in ('receive', 'iter'):
            if kind == 'echo' and action == 'iter':
                continue
            ck.evaluations += 1
            ck.count('arrivals_and_close_in_one_pause')
            f = arrivals_and_close_in_one_pause(kind, action)
            if f:
                ck.oracle_fail({'one_pause': [kind, action]}, f)
    ck.evaluations += 1
    ck.count('hangup_mid_message')
    f = hangup_mid_message_fail()
    ck.evaluations += 1
    if f:
        ck.oracle_fail({'hangup_mid_message': True}, f)
    ck.count('close_from_other_thread')
    f = close_from_other_thread_fail()
    ck.evaluations += 1
    if f:
        ck.oracle_fail({'close_from_other_thread': True}, f)
    ck.count('wrapper_close')
    f = wrapper_close_fail()
    ck.evaluations += 1
    if f:
        ck.oracle_fail({'wrapper_close': True}, f)
    ck.count('abandoned_iteration')
    f = abandoned_iteration_fail()
    ck.evaluations += 1
    if f:
        ck.oracle_fail({'abandoned_iteration': True}, f)
    ck.count('closed_port_kinds')
    f = closed_port_kinds_fail()
    if f:
        ck.oracle_fail({'closed_port_kinds': True}, f)
    for arrivals in ([1, 2, 3], [7], [4, 5]):
        for pending_before in (0, 1):
            for close_how in ('io',):
                ck.evaluations += 1
                ck.count('ioport_wrapping')
                f = ioport_wrapping(arrivals, pending_before, close_how)
                if f:
                    ck.oracle_fail({'ioport': [arrivals, pending_before, close_how]}, f)
    mres = [r for part in pool_map(_mchunk, list(chunks(multis, 300))) for r in part]
    mreq, mimpl = [], []
    for (specs, ops), (lines, fail) in zip(multis, mres):
        ck.note_case(repr((specs, ops)))
        ck.count('multi_children:%d' % len(specs))
        if fail:
            ck.oracle_fail({'multi': specs, 'ops': ops}, fail)
        mreq.append(('mreset ' + ' | '.join(spec_str(s) for s in specs)).strip())
        mimpl.append('ok')
        for o, l in zip(ops, lines):
            mreq.append('mop receive %d' % (1 if o[1] else 0) if o[0] == 'receive' else 'mop send %d' % o[1])
            mimpl.append(l)
        mreq.append('mstate')
        mimpl.append(lines[-1])
    mmodel = ck.driver.run(mreq)
    _mask_hang_sleeps(mreq, mimpl, mmodel, 'mreset')
    ck.compare('ports_seq.multi', mreq, mimpl, mmodel)
    ck.sample({'spec': cases[100][0], 'ops': cases[100][1]})
    ck.sample({'multi': multis[3][0], 'ops': multis[3][1]})
    return ck.finish(RULE, assumptions=['real elapsed time is not measured: "as soon as" means "without an additional sleep round"',
                                        '__del__ is exercised only through explicit close calls',
                                        'random.shuffle in multi_receive is replaced by the identity for the comparison (the property does not order messages of different children)'])


def oracle(case):
    if 'closed_port_kinds' in case:
        return closed_port_kinds_fail()
    if 'abandoned_iteration' in case:
        return abandoned_iteration_fail()
    if 'wrapper_close' in case:
        return wrapper_close_fail()
    if 'close_from_other_thread' in case:
        return close_from_other_thread_fail()
    if 'hangup_mid_message' in case:
        return hangup_mid_message_fail()
    if 'multi_big_child' in case:
        return multi_big_child(case['multi_big_child'])
    if 'reset_independence' in case:
        return reset_independence(case['reset_independence'])
    if 'two_threads' in case:
        return concurrent_case(*case['two_threads'])
    if 'ioport' in case:
        return ioport_wrapping(*case['ioport'])
    if 'one_pause' in case:
        return arrivals_and_close_in_one_pause(*case['one_pause'])
    if 'multi' in case:
        return run_multi((case['multi'], [tuple(o) for o in case['ops']]))[1]
    spec = dict(case['spec'])
    spec['script'] = [(list(a), c) for a, c in spec['script']]
    return run_history((spec, [tuple(o) for o in case['ops']]))[1]


def replay(ck, rp):
    return generic_replay(ck, rp, oracle)
