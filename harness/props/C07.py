"""C07 — MIDI file save then load preserves every track."""
import io

from .. import metas, msgs, smf
from ..common import chunks, exc_name, generic_replay, pool_map

RULE = ('files: type 0/1/2, 0..4 tracks, 0..40 events mixing channel / system-common / sysex / every known meta type / unknown '
        'meta, runs that trigger and break running status, deltas at every VLQ size boundary, payload lengths '
        '{0,1,2,127,128,129} (thorough also 16383/16384), end_of_track missing / repeated / mid-track; unstorable variants '
        '(each real-time type, negative, float and bool times, type 0 with 0 or 2 tracks, header fields outside 16 bits); '
        'byte-level mutations (flip, delete, insert, truncate) of saved files for the fixed-point clause. Distinct by file '
        'description / byte string; non-trivial = at least one event, or a mutated byte string')


def save_bytes(mid):
    buf = io.BytesIO()
    mid.save(file=buf)
    return buf.getvalue()


def tracks_equal(mid, want_tracks):
    """Compare loaded tracks with expected event descriptions (already EOT-normalised)."""
    if len(mid.tracks) != len(want_tracks):
        return f'track count {len(mid.tracks)} != {len(want_tracks)}'
    for ti, (tr, want) in enumerate(zip(mid.tracks, want_tracks)):
        got = [smf.loaded_token(m) for m in tr]
        exp = [smf.event_token(e).replace('i', '', 1) if False else _loaded_form(e) for e in want]
        if got != exp:
            for k, (g, e) in enumerate(zip(got, exp)):
                if g != e:
                    return f'track {ti} event {k}: loaded {g!r}, expected {e!r}'
            return f'track {ti}: {len(got)} events loaded, {len(exp)} expected'
    return None


def _loaded_form(ev):
    tok = smf.event_token(ev)
    # the loaded token has a bare integer time
    t, rest = tok.split(';', 1)
    return str(int(t[1:])) + ';' + rest


def impl_file(desc):
    """save, load, oracle.  Returns (write_line, read_line, failure)."""
    import mido
    fail = None
    if (desc['tpb'] + len(desc['tracks'])) % 5 == 0:
        # the documented helper functions hand out values that belong to the caller: whatever it does with them must not
        # change what is written later
        from mido.midifiles import meta as _meta
        for n in list(range(0, 130)) + [16383, 16384]:
            try:
                r = _meta.encode_variable_int(n)
                if isinstance(r, list):
                    r.extend([0x99, 0x98])
                    r[0] = 0x7f
            except Exception:
                pass
    if (desc['tpb'] + len(desc['tracks'])) % 4 == 0:
        # a merged track handed out earlier belongs to the caller: padding its end (or anything else done to it) must not
        # show in a file that is saved later
        try:
            mt = mido.merge_tracks([mido.MidiTrack([mido.Message('note_on', note=1, time=3)]), mido.MidiTrack()])
            mt[-1].time = 960
            mf = mido.MidiFile(tracks=[mido.MidiTrack([mido.Message('note_on', note=2, time=0)])])
            mm = mf.merged_track
            mm[-1].time = 777
            for x in mm:
                x.time = 5
        except Exception:
            pass
    try:
        mid = smf.build_file(desc)
    except Exception as e:
        return 'err build', 'skip', f'harness could not build the file: {type(e).__name__}: {e}'
    storable, why = storable_ref(desc)
    if storable and mid.tracks and (desc['tpb'] + 2 * len(desc['tracks'])) % 3 == 0:
        # "save fails, fix the file, save again" on the SAME MidiFile object: a save refused part-way through a track (a
        # real-time message behind storable events, a text the charset cannot encode, an output file that fails) must leave
        # nothing behind in the object
        k = desc['tpb'] % len(mid.tracks)
        tr = mid.tracks[k]
        pos = len(tr) // 2 + (1 if len(tr) else 0)
        bad = [mido.Message('clock'), mido.MetaMessage('text', text='\u20ac\u4e2d')][desc['tpb'] % 2]
        tr.insert(min(pos, len(tr)), bad)
        try:
            save_bytes(mid)
        except Exception:
            pass
        tr.remove(bad)

        class _Full:
            def __init__(self, n):
                self.n = n

            def write(self, b):
                self.n -= len(b)
                if self.n < 0:
                    raise OSError('disk full')
        try:
            mid.save(file=_Full(14 + 8 + desc['tpb'] % 7))
        except Exception:
            pass        # whatever this refused save raises: the save that follows is the one that is judged
    try:
        data = save_bytes(mid)
    except Exception as e:
        name = exc_name(e)
        if storable:
            fail = f'storable file refused: save raised {type(e).__name__}: {e}'
        elif why in ('realtime', 'negative time', 'non-integer time', 'type 0 track count') and not isinstance(e, ValueError):
            fail = f'unstorable contents ({why}) must raise ValueError, save raised {type(e).__name__}: {e}'
        return 'err ' + name, 'skip', fail
    wline = 'ok ' + ' '.join(map(str, data))
    if not storable and why in ('realtime', 'negative time', 'non-integer time', 'type 0 track count'):
        fail = f'unstorable contents ({why}) were saved without ValueError'
    try:
        back = mido.MidiFile(file=io.BytesIO(data), charset=desc.get('charset', 'latin1'))
        rline = 'ok ' + smf.file_line(back)
    except Exception as e:
        return wline, 'err ' + exc_name(e), fail or f'the saved file does not load: {type(e).__name__}: {e}'
    if fail is None and storable:
        if back.type != desc['type'] or back.ticks_per_beat != desc['tpb']:
            fail = f'header changed: type {back.type} tpb {back.ticks_per_beat}'
        else:
            fail = tracks_equal(back, [smf.fix_eot_ref(tr) for tr in desc['tracks']])
            if fail:
                fail = 'load(save(f)) differs from f: ' + fail
    if fail is None and storable:
        # a saved file holds valid data bytes only: loading it with clip=True must give the very same tracks
        try:
            clipped = mido.MidiFile(file=io.BytesIO(data), charset=desc.get('charset', 'latin1'), clip=True)
            if smf.file_line(clipped) != smf.file_line(back):
                fail = 'loading the saved file with clip=True differs from clip=False: ' + smf.file_line(clipped)[:200]
        except Exception as e:
            fail = f'loading the saved file with clip=True raised {type(e).__name__}: {e}'
    return wline, rline, fail


def storable_ref(desc):
    """Independent statement of what can be stored."""
    if desc['type'] == 0 and len(desc['tracks']) != 1:
        return False, 'type 0 track count'
    for tr in desc['tracks']:
        for (time, kind, a, b) in tr:
            if kind == 'msg' and a in msgs.REALTIME:
                return False, 'realtime'
            if not isinstance(time, int):
                return False, 'non-integer time'
            if time < 0:
                return False, 'negative time'
            if kind == 'msg' and a == 'sysex' and len(b.get('data', ())) + 1 > 1000000:
                return False, 'too long'
    if not (-32768 <= desc['tpb'] <= 32767) or not (-32768 <= desc['type'] <= 32767):
        return False, 'header range'
    return True, None


def impl_bytes(case):
    """load arbitrary bytes; if it loads and saves, check the fixed point. Returns (read_line, failure)."""
    import mido
    data, clip = case
    try:
        mid = mido.MidiFile(file=io.BytesIO(bytes(data)), clip=clip)
    except Exception as e:
        return 'err ' + exc_name(e), None
    line = 'ok ' + smf.file_line(mid)
    fail = None
    try:
        again = save_bytes(mid)
    except ValueError:
        return line, None          # covered by the ValueError clause (e.g. a real-time status byte in the file)
    except Exception as e:
        return line, None
    try:
        mid2 = mido.MidiFile(file=io.BytesIO(again))
        l2 = smf.file_line(mid2)
        again2 = save_bytes(mid2)
        mid3 = mido.MidiFile(file=io.BytesIO(again2))
        if smf.file_line(mid3) != l2 or again2 != again:
            fail = 'load-save-load is not a fixed point (second round differs)'
        else:
            # first round: equal up to end_of_track normalisation
            norm = ['%d %d' % (mid.type, mid.ticks_per_beat)]
            for tr in mid.tracks:
                acc = 0
                out = []
                for m in tr:
                    if m.type == 'end_of_track':
                        acc += m.time
                    else:
                        tok = smf.loaded_token(m)
                        t, rest = tok.split(';', 1)
                        out.append('%d;%s' % (int(t) + acc, rest))
                        acc = 0
                out.append('%d;meta;end_of_track' % acc)
                norm.append('|' + ''.join(' ' + o for o in out))
            if ' '.join(norm) != l2:
                fail = f'a loadable byte string is not a fixed point of load-save-load: {l2[:200]!r} vs {" ".join(norm)[:200]!r}'
    except Exception as e:
        fail = f'a file produced by save does not load again: {type(e).__name__}: {e}'
    return line, fail


def _file_chunk(ds):
    return [impl_file(d) for d in ds]


def _bytes_chunk(cs):
    return [impl_bytes(c) for c in cs]


def unstorable_variants(rng, desc):
    out = []
    import copy
    for kind in ('realtime', 'neg', 'float', 'bool', 'type0', 'eotneg', 'hdr'):
        d = copy.deepcopy(desc)
        if kind == 'type0':
            d['type'] = 0
            if len(d['tracks']) == 1:
                d['tracks'].append([(0, 'msg', 'note_on', {})])
            out.append(d)
            d2 = copy.deepcopy(desc)
            d2['type'] = 0
            d2['tracks'] = []
            out.append(d2)
            continue
        if kind == 'hdr':
            d['tpb'] = rng.choice([32768, -32769, 40000])
            out.append(d)
            continue
        if not d['tracks']:
            d['tracks'] = [[]]
        tr = rng.choice(d['tracks'])
        pos = rng.randrange(len(tr) + 1)
        if kind == 'realtime':
            tr.insert(pos, (rng.choice([0, 5]), 'msg', rng.choice(msgs.REALTIME), {}))
        elif kind == 'neg':
            tr.insert(pos, (-rng.choice([1, 2, 1000]), 'msg', 'note_on', {'note': 1}))
        elif kind == 'float':
            tr.insert(pos, (rng.choice([1.5, 2.0, 0.0]), 'msg', 'note_on', {'note': 2}))
        elif kind == 'bool':
            tr.insert(pos, (True, 'msg', 'note_on', {'note': 3}))
        elif kind == 'eotneg':
            tr.insert(pos, (rng.choice([4, 1]), 'msg', 'note_on', {'note': 4}))
            tr.insert(pos, (-1, 'meta', 'end_of_track', {}))
        out.append(d)
    return out


def mutate(rng, data):
    data = list(data)
    r = rng.random()
    if not data:
        return data
    if r < 0.35:
        i = rng.randrange(len(data))
        data[i] = rng.choice([0, 0x7f, 0x80, 0xff, 0xf0, 0xf7, 0x90, data[i] ^ (1 << rng.randrange(8)), rng.randrange(256)])
    elif r < 0.55:
        del data[rng.randrange(len(data))]
    elif r < 0.75:
        data.insert(rng.randrange(len(data) + 1), rng.choice([0, 0x80, 0xff, 0xf8, 0x2f, rng.randrange(256)]))
    elif r < 0.9:
        data = data[:rng.randrange(len(data))]
    else:
        i = rng.randrange(len(data))
        data[i:i] = [rng.randrange(256) for _ in range(rng.randint(1, 4))]
    return data


def gen(ck):
    rng = ck.rng
    thorough = ck.tier == 'thorough'
    files = []
    for _ in range(1500 if not thorough else 40000):
        files.append(smf.random_file(rng, big=thorough and rng.random() < 0.05))
        if rng.random() < 0.15:
            smf.make_utf8(rng, files[-1])       # the file's own charset must be in force while its text is encoded and decoded
    bad = []
    for d in files[:120 if not thorough else 3000]:
        bad += unstorable_variants(rng, d)
    return files, bad


def desc_request(desc):
    cs = {'latin1': 'latin1', 'ascii': 'ascii', 'utf-8': 'utf8'}[desc.get('charset', 'latin1')]
    return ('smfwrite %s %d %d' % (cs, desc['type'], desc['tpb']) +
            ''.join(' |' + ''.join(' ' + smf.event_token(e) for e in tr) for tr in desc['tracks']))


def jsonable(desc):
    return {'type': desc['type'], 'tpb': desc['tpb'],
            'tracks': [[[repr(t), k, a, (repr(b))] for (t, k, a, b) in tr] for tr in desc['tracks']]}


def from_jsonable(j):
    return {'type': j['type'], 'tpb': j['tpb'],
            'tracks': [[(eval(t), k, a, eval(b)) for (t, k, a, b) in tr] for tr in j['tracks']]}


def _is_f20(case, reason):
    return False


def run(ck):
    ck.prepare_lean()
    ck.run_corpus(oracle)
    files, bad = gen(ck)
    allf = files + bad
    res = [r for part in pool_map(_file_chunk, list(chunks(allf, 100))) for r in part]
    wreq, wimpl, rreq, rimpl = [], [], [], []
    saved = []
    for d, (wl, rl, fail) in zip(allf, res):
        nev = sum(len(t) for t in d['tracks'])
        ck.note_case(repr(d), nontrivial=nev > 0)
        ck.count('type:%s' % d['type'])
        ck.count('tracks:%d' % len(d['tracks']))
        ck.count('save:' + wl.split(' ')[0] + (':' + wl.split(' ')[1] if wl.startswith('err') else ''))
        if fail:
            ck.oracle_fail({'file': jsonable(d)}, fail)
        wreq.append(desc_request(d))
        wimpl.append(wl)
        if wl.startswith('ok') and rl != 'skip':
            cs = {'latin1': 'latin1', 'ascii': 'ascii', 'utf-8': 'utf8'}[d.get('charset', 'latin1')]
            rreq.append('smfread %s 0 %s' % (cs, wl[3:]))
            rimpl.append(rl)
            if cs == 'latin1':
                saved.append([int(x) for x in wl[3:].split()])
            ck.count('charset:' + cs)
    for d in (files[0], files[7]):
        ck.sample({'type': d['type'], 'tpb': d['tpb'], 'tracks': [[smf.event_token(e) for e in tr[:6]] for tr in d['tracks'][:2]]})
    ck.compare('smf_write', wreq, wimpl, ck.driver.run(wreq))
    ck.compare('smf_read', rreq, rimpl, ck.driver.run(rreq))
    # byte-level mutants of saved files
    rng = ck.rng
    small = [s for s in saved if len(s) < 400]
    muts = []
    nm = 12000 if ck.tier == 'quick' else 400000
    while len(muts) < nm and small:
        base = rng.choice(small)
        m = mutate(rng, base)
        if rng.random() < 0.3:
            m = mutate(rng, m)
        muts.append((m, rng.random() < 0.3))
    # every truncation of a few small files
    for base in small[:20 if ck.tier == 'quick' else 300]:
        for k in range(len(base)):
            muts.append((base[:k], False))
    mres = [r for part in pool_map(_bytes_chunk, list(chunks(muts, 1000))) for r in part]
    mreq = []
    for (data, clip), (line, fail) in zip(muts, mres):
        ck.note_case(('mut', bytes(data), clip))
        ck.count('load:' + line.split(' ')[0] + (':' + line.split(' ')[1] if line.startswith('err') else ''))
        if fail:
            ck.oracle_fail({'bytes': list(data), 'clip': clip}, fail)
        mreq.append('smfread latin1 %d %s' % (1 if clip else 0, ' '.join(map(str, data))))
    ck.compare('smf_read.mutants', mreq, [r[0] for r in mres], ck.driver.run(mreq))
    return ck.finish(RULE, assumptions=[
        'text is encodable in the file charset (latin1 here; other charsets: C17)',
        'an UnknownMetaMessage whose type byte is a known meta type is outside the property (it loads as that type)',
        'header fields outside 16 bits raise struct.error and are outside the storable domain'])


def oracle(case):
    if 'bytes' in case:
        return impl_bytes((case['bytes'], case.get('clip', False)))[1]
    return impl_file(from_jsonable(case['file']))[2]


def replay(ck, rp):
    return generic_replay(ck, rp, oracle)
