"""C06 — the parser resynchronises: a complete message is always recognised."""
from .. import msgs, parsing
from ..common import chunks, generic_replay, pool_map

RULE = ('(prefix, message) pairs: prefix in {empty, every truncated encoding of a message of every type, garbage of '
        'length <= 3 over the byte-class alphabet, open sysex, random streams} x a message of every type; sysex messages '
        'with 0..3 real-time bytes (defined and undefined) at every insertion position for payload lengths 0..6; '
        'concatenations of 1..12 random messages; prefixes made of natural units (message cut short / complete message / stray bytes) fed to one Parser unit by unit. Distinct by the byte string; all non-trivial')


def _case(c):
    """c = (prefix bytes, tail bytes, expected tail messages as canon text list)"""
    import mido
    P, tail, expect = c[:3]
    pieces = c[3] if len(c) > 3 else None
    if (len(P) + len(tail)) % 5 == 0:
        # an earlier, unrelated call that was rejected half-way (a complete message, then an item that is no byte) must not
        # be able to influence this one
        for bad in ([0x90, 1, 2, 256], [0xf0, 5, 0xf7, 0xc0, -1], [0xf8, 0x80, 1, 'x']):
            try:
                mido.parse_all(bad)
            except (ValueError, TypeError):
                pass
            try:
                mido.parse(bad)
            except (ValueError, TypeError):
                pass
    try:
        a = mido.parse_all(P)
        b = mido.parse_all(P + tail)
    except Exception as e:
        return 'err', f'parse_all raised {type(e).__name__}: {e}'
    ca = [msgs.canon_msg(m) for m in a]
    cb = [msgs.canon_msg(m) for m in b]
    fail = None
    if cb != ca + expect:
        fail = (f'parse_all(P + M) = {cb} but parse_all(P) = {ca} and the appended messages are {expect} '
                f'(P={P}, appended bytes={tail})')
    if fail is None:
        try:
            ci = [msgs.canon_msg(m) for m in mido.parse_all(iter(P + tail))]
            cg = [msgs.canon_msg(m) for m in mido.Parser(b for b in (P + tail))]
        except Exception as e:
            return 'ok' + (' ' + ';'.join(cb) if cb else ''), f'parsing the bytes from an iterator raised {type(e).__name__}: {e}'
        if ci != cb or cg != cb:
            fail = f'the bytes handed over as an iterator / generator parse to {ci} / {cg}, as a list to {cb}'
    if fail is None and pieces is not None:
        # the same bytes handed to one Parser piece by piece (the prefix in its natural units, then the message)
        try:
            p = mido.Parser()
            for ch in pieces:
                if isinstance(ch, str):
                    import time as _t
                    _t.sleep(float(ch.split()[1]))
                    continue
                if ch and ch[0] == 'B':
                    ch = bytes(ch[1])        # one bytes object
                p.feed(ch)
            cc = [msgs.canon_msg(m) for m in p]
        except Exception as e:
            return 'ok' + (' ' + ';'.join(cb) if cb else ''), f'feeding {pieces} piece by piece raised {type(e).__name__}: {e}'
        if cc != ca + expect:
            fail = (f'fed piece by piece {pieces} the parser yields {cc}; the messages of the prefix are {ca} and the appended '
                    f'messages are {expect}')
    return 'ok' + (' ' + ';'.join(cb) if cb else ''), fail


def _chunk(cs):
    return [_case(c) for c in cs]


def gen(ck):
    rng = ck.rng
    thorough = ck.tier == 'thorough'
    prefixes = [[]]
    for t in msgs.TYPE_NAMES:
        for _ in range(2 if not thorough else 6):
            tt, d = msgs.random_message(rng, types=[t], max_sysex=4)
            enc = msgs.encode_ref(tt, d)
            for k in range(1, len(enc)):
                prefixes.append(enc[:k])
    prefixes += [list(s) for s in parsing.strings_upto(parsing.CLASS_ALPHABET, 2 if not thorough else 3)]
    prefixes += [[0xf0], [0xf0, 1, 2], [0xf0, 0xf8, 3], [0x90, 1, 0xf0, 5]]
    for _ in range(200 if not thorough else 2000):
        prefixes.append(parsing.random_stream(rng, rng.randint(1, 30), 0.3))
    cases = []
    for P in prefixes:
        for t in msgs.TYPE_NAMES:
            for _ in range(1 if not thorough else 3):
                tt, d = msgs.random_message(rng, types=[t], max_sysex=5)
                cases.append((P, msgs.encode_ref(tt, d), [msgs.canon_vals(tt, d)]))
    # real-time bytes inside sysex
    rts = [0xf8, 0xfa, 0xfb, 0xfc, 0xfe, 0xff, 0xf9, 0xfd]
    some_prefixes = [[], [0x90, 1], [0xf0, 3], [0xf4, 5], [0xc1]]
    for ln in range(0, 7):
        payload = [rng.randint(0, 127) for _ in range(ln)]
        for nrt in range(0, 4):
            positions = [tuple(sorted(rng.randint(0, ln) for _ in range(nrt))) for _ in range(1 if nrt == 0 else (12 if not thorough else 60))]
            if nrt == 1:
                positions = [(i,) for i in range(ln + 1)]
            for pos in set(positions):
                ins = [rng.choice(rts) for _ in pos]
                body = list(payload)
                for off, (p, b) in enumerate(sorted(zip(pos, ins), key=lambda x: x[0])):
                    body.insert(p + off, b)
                expect = [parsing.RT_TYPE[b] for b in body if b in parsing.RT_TYPE]
                expect.append(msgs.canon_vals('sysex', {'data': payload}))
                for P in some_prefixes:
                    cases.append((P, [0xf0] + body + [0xf7], expect))
    # prefixes made of natural units (a message cut short, a complete message, stray bytes), fed unit by unit
    nonrt = [x for x in msgs.TYPE_NAMES if x not in msgs.REALTIME and x != 'tune_request']
    for _ in range(1500 if not thorough else 20000):
        units = []
        for _u in range(rng.randint(1, 4)):
            r = rng.random()
            if r < 0.4:
                tt, d = msgs.random_message(rng, types=nonrt, max_sysex=4)
                enc = msgs.encode_ref(tt, d)
                units.append(enc[:rng.randrange(1, len(enc))])
            elif r < 0.75:
                tt, d = msgs.random_message(rng, max_sysex=4)
                units.append(msgs.encode_ref(tt, d))
            else:
                units.append([rng.choice([1, 2, 0x7f, 0xf7, 0xf4])] * rng.randint(1, 2))
        tt, d = msgs.random_message(rng, max_sysex=4)
        M = msgs.encode_ref(tt, d)
        P = [b for u in units for b in u]
        cases.append((P, M, [msgs.canon_vals(tt, d)], units + [M]))
    # a sysex with thousands of real-time bytes inside (as list and as one bytes object), and a message whose two halves
    # are fed with a real pause in between
    for nrt in ([1500, 4000] if not thorough else [999, 1000, 1500, 4000, 20000]):
        payload = [rng.randint(0, 127) for _ in range(50)]
        body = []
        for i in range(nrt):
            body.append(rng.choice(rts[:6]))
            if i % 40 == 0 and payload:
                body.append(payload[(i // 40) % len(payload)])
        data = [b for b in body if b < 0x80]
        expect = [parsing.RT_TYPE[b] for b in body if b in parsing.RT_TYPE] + [msgs.canon_vals('sysex', {'data': data})]
        cases.append(([0x90, 1], [0xf0] + body + [0xf7], expect, [['B', [0x90, 1]], ['B', [0xf0] + body + [0xf7]]]))
    cases.append(([0xf0, 1, 0xf8], [2, 0xf7, 0x80, 5, 6], ['sysex 1 2'.replace('sysex 1 2', msgs.canon_vals('sysex', {'data': (1, 2)})),
                                                             msgs.canon_vals('note_off', {'channel': 0, 'note': 5, 'velocity': 6})],
                  [[0xf0, 1, 0xf8], 'PAUSE 2.3', [2, 0xf7, 0x80], 'PAUSE 1.2', [5, 6]]))
    # concatenations
    for _ in range(2000 if not thorough else 30000):
        ms = [msgs.random_message(rng, max_sysex=5) for _ in range(rng.randint(1, 12))]
        tail = [b for t, d in ms for b in msgs.encode_ref(t, d)]
        P = rng.choice(some_prefixes)
        cases.append((P, tail, [msgs.canon_vals(t, d) for t, d in ms]))
    return cases


def run(ck):
    ck.prepare_lean()
    ck.run_corpus(oracle)
    cases = gen(ck)
    res = [r for part in pool_map(_chunk, list(chunks(cases, 3000))) for r in part]
    reqs = []
    for (P, tail, expect, *_pieces), (line, fail) in zip(cases, res):
        ck.note_case(bytes(P) + b'|' + bytes(tail))
        ck.count('prefix_len:%d' % min(len(P), 4))
        ck.count('appended_msgs:%d' % min(len(expect), 5))
        if fail:
            ck.oracle_fail({'prefix': P, 'tail': tail, 'expect': expect, 'pieces': _pieces[0] if _pieces else None}, fail)
        reqs.append('parseall ' + ' '.join(map(str, P + tail)))
    for c in (cases[5], cases[len(cases) // 2], cases[-1]):
        ck.sample({'prefix': c[0], 'appended_bytes': c[1][:30], 'expected_messages': c[2][:6]})
    ck.compare('parser.resync', reqs, [r[0] for r in res], ck.driver.run(reqs))
    # resynchronisation inside longer sessions: a call left by an exception, a sysex continued by long chunks, a cut-short
    # message followed by a chunk that is exactly one message, two parsers that are both inside a message
    from . import C05 as c05
    sess = c05.special_sessions(ck.rng, 1200 if ck.tier == 'quick' else 12000)
    for h, (lines, fail) in zip(sess, pool_map(c05.run_history, sess, chunksize=200)):
        ck.evaluations += 1
        ck.count('sessions')
        if fail:
            ck.oracle_fail({'session': h}, fail)
    return ck.finish(RULE)


def oracle(case):
    if 'session' in case:
        from . import C05 as c05
        return c05.oracle({'ops': case['session']})
    c = (case['prefix'], case['tail'], case['expect'])
    if case.get('pieces'):
        c = c + (case['pieces'],)
    return _case(c)[1]


def replay(ck, rp):
    return generic_replay(ck, rp, oracle)
