"""C17 — text encoding follows the file charset and never leaks out of a call."""
import io

from .. import metas, smf
from .. import envprobe
from ..common import chunks, exc_name, generic_replay, pool_map

RULE = ('charsets latin1, utf-8, cp1252, shift_jis, utf-16, utf-32, ascii, koi8-r (and, for the round trip and the file bytes, 14 more: not ASCII-compatible, stateful or 7-bit: utf-16-le/be, utf-32-le/be, utf-7, hz, iso2022_jp, cp037, cp500, euc_jp, gb2312, big5, cp437, mac_roman) x texts from each codec\'s repertoire (and '
        'unencodable ones) x fault points: truncation of a valid file at each byte offset, a data byte >= 0x80 in the n-th '
        'message, a non-integer time in the n-th message on save, undecodable text; after EVERY call - successful or raised - the '
        'process-wide charset and a probe encoding are examined. Distinct by (charset, text, fault); all non-trivial')

CHARSETS = ['latin1', 'utf-8', 'cp1252', 'shift_jis', 'utf-16', 'utf-32', 'ascii', 'koi8-r']
MODEL_CS = {'latin1': 'latin1', 'ascii': 'ascii', 'utf-8': 'utf8'}
TEXTS = ['\xef\xbb\xbfLa la la', '\xef\xbb\xbf', '', 'A', 'hello world', 'é', 'caf\xe9 \xff', 'naïve Über', '€5', '日本語', 'Жук',
         'snow☃man', '\U0001f3b5 music', '\x00\x7f', '\x80\x9f', 'a' * 130, 'é' * 70, '\udc80']


def probe_state():
    """What the rest of the process sees: the global and an encoding made 'elsewhere'."""
    import mido
    from mido.midifiles import meta
    try:
        b = mido.MetaMessage('text', text='\xe9').bytes()
    except Exception as e:
        b = 'err ' + exc_name(e)
    return meta._charset, b


def build(charset, texts, bad_time_at=None):
    import mido
    tr = mido.MidiTrack()
    for i, t in enumerate(texts):
        kind = ['text', 'track_name', 'lyrics', 'marker', 'copyright', 'cue_marker', 'instrument_name', 'device_name'][i % 8]
        attr = 'name' if kind in ('track_name', 'instrument_name', 'device_name') else 'text'
        tr.append(mido.MetaMessage(kind, time=i, **{attr: t}))
        tr.append(mido.Message('note_on', note=i % 128, time=1))
    if bad_time_at is not None and tr:
        vars(tr[min(bad_time_at, len(tr) - 1)])['time'] = 1.5
    return mido.MidiFile(type=1, ticks_per_beat=96, tracks=[tr], charset=charset)


def impl_case(case):
    """case = (charset, texts, fault) ; fault: None | ('time', n) | ('trunc', k) | ('databyte', n) | ('badtext',)"""
    import mido
    from mido.midifiles import meta
    charset, texts, fault = case
    meta._charset = 'latin1'      # every case starts from the default, whatever an earlier case leaked
    events = []      # protocol lines per call
    fail = None

    def after(what):
        nonlocal fail
        g, b = probe_state()
        if fail is None and (g != 'latin1' or b != [0xff, 0x01, 0x01, 0xe9]):
            fail = f'after {what} the process-wide charset is {g!r} and MetaMessage("text", text="é").bytes() = {b!r}'
    data = None
    if fault and fault[0] in ('write', 'badcharset'):
        # the failure comes from outside the encoding: the output file refuses the k-th byte / the charset does not exist.
        # The rest of the process is examined INSIDE the except handler, while the exception is still alive, and afterwards.
        class Refusing(io.BytesIO):
            def write(self, b):
                if self.tell() + len(b) > fault[1]:
                    raise OSError('no space left on device')
                return super().write(b)
        name = charset if fault[0] == 'write' else 'utf-9'
        for what, call in (('save', lambda: build(name, texts).save(file=Refusing() if fault[0] == 'write' else io.BytesIO())),
                           ('load', lambda: mido.MidiFile(file=io.BytesIO(b'MThd\0\0\0\6\0\1\0\1\0\x60MTrk\0\0\0\x08\0\xff\x01\1A\0\xff\x2f\0'),
                                                          charset=name) if fault[0] == 'badcharset' else None)):
            kept = None
            try:
                call()
                events.append('ok')
            except Exception as e:
                kept = e
                events.append('err ' + exc_name(e))
                after(f'a {what} that failed ({type(e).__name__}), inside the except handler')
            after(f'a {what} that failed')
            del kept
        return ['skip'], fail
    try:
        mid = build(charset, texts, bad_time_at=fault[1] if fault and fault[0] == 'time' else None)
        buf = io.BytesIO()
        mid.save(file=buf)
        data = buf.getvalue()
        events.append('ok ' + ' '.join(map(str, data)))
    except Exception as e:
        events.append('err ' + exc_name(e))
        encodable = True
        try:
            for t in texts:
                t.encode(charset)
        except UnicodeError:
            encodable = False
        if encodable and not (fault and fault[0] == 'time') and fail is None:
            fail = f'save with charset {charset} raised {type(e).__name__}: {e}'
    after('save')
    if data is not None:
        # the bytes in the file are the text in that charset
        try:
            ty, ntr, tpb, tracks = smf.ref_decode(data, require_minimal=True)
            got = [bytes(d) for (_dl, k, a, d) in tracks[0] if k == 'meta' and a in (1, 2, 3, 4, 5, 6, 7, 9)]
            want = [t.encode(charset) for t in texts]
            if got != want and fail is None:
                fail = f'text bytes in the file {got!r} are not the texts encoded in {charset}: {want!r}'
        except Exception as e:
            fail = fail or f'reference decoding of the saved file failed: {e}'
        blob = list(data)
        if fault and fault[0] == 'trunc':
            blob = blob[:fault[1] % (len(blob) + 1)]
        elif fault and fault[0] == 'databyte':
            idxs = [i for i in range(22, len(blob) - 2) if blob[i] == 0x90]
            if idxs:
                blob[idxs[fault[1] % len(idxs)] + 1] = 0xc8
        elif fault and fault[0] == 'badtext':
            blob = _inject_bad_text(blob, charset)
        try:
            back = mido.MidiFile(file=io.BytesIO(bytes(blob)), charset=charset)
            events.append('ok ' + smf.file_line(back))
            if fault is None and fail is None:
                texts_back = [getattr(m, 'text', getattr(m, 'name', None)) for m in back.tracks[0] if m.is_meta and m.type != 'end_of_track']
                if texts_back != list(texts):
                    fail = f'texts after save/load with {charset}: {texts_back!r} != {list(texts)!r}'
                if fail is None:
                    # the other way of opening the same file: clip=True is about data bytes of channel / sysex messages
                    lenient = mido.MidiFile(file=io.BytesIO(bytes(blob)), charset=charset, clip=True)
                    texts_l = [getattr(m, 'text', getattr(m, 'name', None)) for m in lenient.tracks[0] if m.is_meta and m.type != 'end_of_track']
                    if texts_l != list(texts):
                        fail = f'texts after save/load with {charset} (file opened with clip=True): {texts_l!r} != {list(texts)!r}'
        except Exception as e:
            events.append('err ' + exc_name(e))
            if fault is None and fail is None:
                fail = f'load of the saved file with charset {charset} raised {type(e).__name__}: {e}'
        after('load')
        events.append(blob)
    return events, fail


def _inject_bad_text(blob, charset):
    # replace the first text payload byte by one that is invalid at that place in most multi-byte codecs
    for i in range(22, len(blob) - 3):
        if blob[i] == 0xff and blob[i + 1] in (1, 3, 5, 6) and 0 < blob[i + 2] < 0x80:
            blob = list(blob)
            blob[i + 3] = 0xff if charset != 'utf-16' else blob[i + 3]
            if charset in ('utf-16', 'utf-32'):
                blob[i + 2] -= 1 if blob[i + 2] > 0 else 0      # odd payload length
                del blob[i + 3]
                n = len(blob) - 22
                blob[18:22] = list(n.to_bytes(4, 'big'))
            return blob
    return blob


def _chunk(cs):
    return [impl_case(c) for c in cs]


# charsets that are not ASCII-compatible, are stateful, or have 7-bit encoded forms: the text codec must be used for
# every text, whatever its bytes look like (round trip and file bytes only; the fault scenarios use CHARSETS)
EXTRA_CHARSETS = ['utf-16-le', 'utf-16-be', 'utf-32-le', 'utf-32-be', 'utf-7', 'hz', 'iso2022_jp', 'cp037', 'cp500',
                  'euc_jp', 'gb2312', 'big5', 'cp437', 'mac_roman']
EXTRA_TEXTS = ['Piano', 'あい', 'A+B~C', '漢字 kanji', 'x', 'Track 1 {~}', 'é', 'Ж', '\ufeffLa', '\xef\xbb\xbfLa', 'La\ufeff']


def gen(ck):
    rng = ck.rng
    cases = []
    for cs in EXTRA_CHARSETS:
        for t in EXTRA_TEXTS + TEXTS[:14]:
            try:
                t.encode(cs)
            except (UnicodeError, LookupError):
                continue
            cases.append((cs, (t,), None))
            cases.append((cs, (t, 'Piano', t), None))
    for cs in CHARSETS:
        for t in TEXTS:
            cases.append((cs, (t,), None))
        # every kind of text-carrying meta message (the index in the tuple selects the kind) with text that ends in, starts with
        # and contains NUL characters and blanks: what is loaded is what was saved, character for character
        for t in ('Piano\x00', '\x00lead\x00\x00', ' pad ', 'x\x00y', '\x00', '\t tab\n'):
            cases.append((cs, (t,) * 8, None))
        for _ in range(12 if ck.tier == 'quick' else 200):
            texts = tuple(rng.choice(TEXTS[:13]) for _ in range(rng.randint(1, 4)))
            enc_ok = True
            try:
                for t in texts:
                    t.encode(cs)
            except UnicodeError:
                enc_ok = False
            cases.append((cs, texts, None))
            if enc_ok:
                mid = None
                # every truncation offset
                n_guess = 60 + sum(len(t.encode(cs)) for t in texts)
                offs = range(0, n_guess + 40) if ck.tier == 'thorough' else sorted(set(rng.randrange(0, n_guess + 20) for _ in range(8)))
                for k in offs:
                    cases.append((cs, texts, ('trunc', k)))
                for n in range(3):
                    cases.append((cs, texts, ('time', n)))
                    cases.append((cs, texts, ('databyte', n)))
                cases.append((cs, texts, ('badtext',)))
                for k in (0, 13, 14, 22, 30, n_guess - 10):
                    cases.append((cs, texts, ('write', k)))
                cases.append((cs, texts, ('badcharset', 0)))
    return cases


def nested_io_fail():
    """File I/O re-entered while a load or save with another charset is in progress (a track object that loads its events
    from another file when iterated, an output file that saves a second file when written to, an input file that opens a
    second file when read) and an attribute reassigned after construction: the charset of the OUTER call stays in force
    for the whole of it, what is written / read equals what the plain objects give, and the default is back afterwards."""
    import io
    import mido
    from mido.midifiles import meta as M
    other = io.BytesIO()
    mido.MidiFile(tracks=[mido.MidiTrack([mido.MetaMessage('text', text='caf\xe9')])]).save(file=other)
    other_bytes = other.getvalue()
    texts = ['M\xe4dchen', 'Caf\xe9 No\xebl', '\u20ac']

    def events():
        return [mido.MetaMessage('lyrics', text=t, time=i) for i, t in enumerate(texts)] + [mido.Message('note_on', note=5, time=1)]

    def save(mid):
        b = io.BytesIO()
        mid.save(file=b)
        return b.getvalue()
    for cs in ('utf-8', 'utf-16-le', 'cp1252'):
        try:
            plain = mido.MidiFile(charset=cs, tracks=[mido.MidiTrack(events()), mido.MidiTrack(events())])
            want = save(plain)
        except Exception:
            continue        # a charset that cannot store these texts: nothing to compare

        class LazyTrack(mido.MidiTrack):
            def __iter__(self):
                mido.MidiFile(file=io.BytesIO(other_bytes))              # a load with the default charset, nested
                mido.MidiFile(tracks=[mido.MidiTrack(events())], charset='utf-8').save(file=io.BytesIO())
                return super().__iter__()
        lazy = mido.MidiFile(charset=cs, tracks=[LazyTrack(events()), LazyTrack(events())])
        try:
            got = save(lazy)
        except Exception as e:
            return f'saving ({cs}) a file whose track object loads another file while it is iterated raised {type(e).__name__}: {e}'
        if got != want:
            return (f'a file saved with charset {cs} whose track object loads another file (default charset) while it is iterated differs '
                    f'from the same events in plain tracks: the charset did not stay in force for the whole call')
        if M._charset != 'latin1' or probe_state() != probe_state():
            return f'after nested file operations the process-wide charset is {M._charset!r}'

        class ReSaving(io.BytesIO):
            n = 0

            def write(self, b):
                ReSaving.n += 1
                if ReSaving.n == 3:
                    mido.MidiFile(tracks=[mido.MidiTrack(events()[:1])], charset='latin1' if cs != 'cp1252' else 'utf-8').save(file=io.BytesIO())
                return super().write(b)
        ReSaving.n = 0
        out = ReSaving()
        try:
            plain.save(file=out)
        except Exception as e:
            return f'saving ({cs}) into a file object that saves another file when written to raised {type(e).__name__}: {e}'
        if out.getvalue() != want:
            return f'a save with charset {cs} into a file object that itself saves another file (other charset) when written to wrote other bytes'

        class Opening(io.BytesIO):
            n = 0

            def read(self, *a):
                Opening.n += 1
                if Opening.n in (2, 5):
                    mido.MidiFile(file=io.BytesIO(other_bytes))
                return super().read(*a)
        Opening.n = 0
        try:
            back = mido.MidiFile(file=Opening(want), charset=cs)
            got_texts = [m.text for m in back.tracks[0] if m.type == 'lyrics']
        except Exception as e:
            return f'loading ({cs}) from a file object that opens another MIDI file when read raised {type(e).__name__}: {e}'
        if got_texts != texts:
            return f'loading with charset {cs} from a file object that opens another MIDI file when read gives {got_texts!r}, the file holds {texts!r}'
        # the public attribute decides, at the time of the call
        mid2 = mido.MidiFile(tracks=[mido.MidiTrack(events())])
        mid2.charset = cs
        try:
            if save(mid2) != save(mido.MidiFile(charset=cs, tracks=[mido.MidiTrack(events())])):
                return f'MidiFile(); mid.charset = {cs!r}; save() writes other bytes than MidiFile(charset={cs!r}).save()'
        except Exception as e:
            return f'MidiFile(); mid.charset = {cs!r}; save() raised {type(e).__name__}: {e}'
        loaded = mido.MidiFile(file=io.BytesIO(want), charset=cs)
        loaded.charset = 'utf-8'
        try:
            if save(loaded) != save(mido.MidiFile(charset='utf-8', tracks=[mido.MidiTrack(events()), mido.MidiTrack(events())])):
                return f'a file loaded with {cs}, then mid.charset = "utf-8", saves other bytes than a utf-8 file with the same events'
        except Exception as e:
            return f'load ({cs}); mid.charset = "utf-8"; save() raised {type(e).__name__}: {e}'
        if M._charset != 'latin1':
            return f'after these operations the process-wide charset is {M._charset!r}'
    return None


def strict_process_fail():
    """A process that turns warnings into errors (python -W error, pytest's filterwarnings = error) or asks for a charset
    the interpreter does not know: whatever a load or a save then raises, the charset in force afterwards is the default, and
    text encoded elsewhere comes out in latin1."""
    import io
    import warnings
    import mido
    blob = bytes([77, 84, 104, 100, 0, 0, 0, 6, 0, 1, 0, 1, 1, 224, 77, 84, 114, 107, 0, 0, 0, 11, 0, 0xff, 1, 3, 97, 98, 99, 0, 0xff, 0x2f, 0])
    want = [0xff, 0x01, 4] + list('caf\xe9'.encode('latin1'))       # FF 01 len payload in the default charset
    for cs in ('utf-16', 'utf-32', 'cp037', 'utf-16-le', 'utf-8', 'latin1', 'no-such-charset', 'utf_7', 'cp500'):
        for op in ('load', 'save', 'with'):
            with warnings.catch_warnings():
                warnings.simplefilter('error')
                try:
                    if op == 'load':
                        mido.MidiFile(file=io.BytesIO(blob), charset=cs)
                    elif op == 'save':
                        mido.MidiFile(charset=cs, tracks=[mido.MidiTrack([mido.MetaMessage('text', text='abc')])]).save(file=io.BytesIO())
                    else:
                        from mido.midifiles.meta import meta_charset
                        with meta_charset(cs):
                            pass
                except Exception:      # noqa: BLE001 - only what is left behind is judged
                    pass
            try:
                got = list(mido.MetaMessage('text', text='caf\xe9').bytes())
            except Exception as e:      # noqa: BLE001
                got = 'raised %s: %s' % (type(e).__name__, e)
            if got != want:
                return (f'after a {op} with charset {cs!r} in a process that turns warnings into errors, MetaMessage("text", '
                        f'text="caf\xe9").bytes() elsewhere gives {got} instead of the latin1 encoding {want}')
    return None


def run(ck):
    ck.prepare_lean()
    ck.run_corpus(oracle)
    cases = gen(ck)
    res = [r for part in pool_map(_chunk, list(chunks(cases, 100))) for r in part]
    reqs, impl = [], []
    for (cs, texts, fault), (events, fail) in zip(cases, res):
        ck.note_case((cs, texts, fault))
        ck.count('charset:' + cs)
        ck.count('fault:' + (fault[0] if fault else 'none'))
        for e in events[:2]:
            if isinstance(e, str):
                ck.count('outcome:' + e.split(' ')[0] + (':' + e.split(' ')[1] if e.startswith('err') else ''))
        if fail:
            ck.oracle_fail({'charset': cs, 'texts': list(texts), 'fault': list(fault) if fault else None}, fail)
        # model correspondence for the charsets the model implements, on files without surrogates
        if cs in MODEL_CS and len(events) == 3 and not (fault and fault[0] == 'time'):
            blob = events[2]
            reqs.append('smfread %s 0 %s' % (MODEL_CS[cs], ' '.join(map(str, blob))))
            impl.append(events[1])
    ck.sample({'charset': cases[5][0], 'texts': list(cases[5][1]), 'fault': cases[5][2]})
    ck.sample({'charset': cases[-3][0], 'texts': list(cases[-3][1]), 'fault': cases[-3][2]})
    ck.compare('charset.load', reqs, impl, ck.driver.run(reqs))
    ck.evaluations += 1
    ck.count('nested_io')
    f = nested_io_fail()
    if f:
        ck.oracle_fail({'nested_io': True}, f)
    ck.evaluations += 1
    ck.count('strict_process')
    f = strict_process_fail()
    if f:
        ck.oracle_fail({'strict_process': True}, f)
    envprobe.check(ck, ['meta', 'file', 'load'])
    return ck.finish(RULE, assumptions=['the codecs themselves are CPython\'s; the model implements latin1, ascii and strict UTF-8 '
                                        '(round trip proved); the other codecs are exercised through the oracle only',
                                        'concurrent loads in several threads are outside the property'])


def oracle(case):
    if 'strict_process' in case:
        return strict_process_fail()
    if 'nested_io' in case:
        return nested_io_fail()
    if 'environment' in case:
        return envprobe.oracle(case)
    return impl_case((case['charset'], tuple(case['texts']), tuple(case['fault']) if case['fault'] else None))[1]


def replay(ck, rp):
    return generic_replay(ck, rp, oracle)
