"""C10 — ports deliver each message exactly once and in order under concurrent use."""
import itertools

from .. import msgs, portsim, sched
from ..common import HarnessTimeout, chunks, exc_name, generic_replay, pool_map

RULE = ('small programs of 1-3 sender threads and 1-2 receiver threads (send / poll / iter_pending / receive) on a lock-protected '
        'EchoPort, a byte-wise device double, the IOPort wrapper and MultiPort, run on REAL threads under a deterministic scheduler '
        'that switches only at shared accesses (lock acquire/release, deque test/pop/append, one byte written to the wire): every '
        'schedule with <= 2 preemptions (quick) / <= 3 (thorough) is enumerated, plus seeded random schedules; EchoPort executions are '
        'replayed through the Lean interleaving model step for step, and the event trace (lock acquire/release, deque test/pop/append, '
        'wire bytes) of EVERY execution of EVERY port kind is replayed through the Lean locking-discipline machine, which must accept every '
        'event and end with the same queue contents, append order and pop order as the real objects. Distinct by (program, schedule); non-trivial = at least one '
        'preemption')

NAMES = ['T0', 'T1', 'T2', 'T3', 'T4']


# ---------------------------------------------------------------------------------------------
# programs
# ---------------------------------------------------------------------------------------------

def make_world(kind, initial, shape=0):
    """Build the port(s) of a program; returns (port used by the threads, context dict)."""
    import mido.ports as P
    ctx = {'wire': []}
    if kind == 'echo':
        p = sched.instrument(P.EchoPort())
    elif kind == 'wire':
        class WireDev(P.BaseOutput):
            def _send(self, msg):
                for b in msg.bytes():
                    sched.yp('write', ctx['wire'])
                    ctx['wire'].append(b)
        p = sched.instrument(WireDev('w'))
    elif kind == 'ioport':
        class DevIn(P.BaseInput):
            pass

        class WireOut(P.BaseOutput):
            def _send(self, msg):
                for b in msg.bytes():
                    sched.yp('write', ctx['wire'])
                    ctx['wire'].append(b)
        i = sched.instrument(DevIn('i'))
        o = sched.instrument(WireOut('o'))
        p = P.IOPort(i, o)
        # the wrapper takes its lock and its deque from the input port: instrumented ones
        p._lock = i._lock if p._lock is not None and not isinstance(p._lock, P.DummyLock) else sched.SLock(p._lock, False)
        p._messages = i._messages
        ctx['input'] = i
    elif kind == 'cross':
        # two ports, messages forwarded between them in both directions
        p = sched.instrument(P.EchoPort())
        other = sched.instrument(P.EchoPort())
        ctx['other'] = other
        import collections
        collections.deque.extend(other._messages, [portsim.msg_of(k + 5000) for k in initial])
    elif kind in ('multi', 'multi1'):
        kids = [sched.instrument(P.EchoPort()), sched.instrument(P.EchoPort())] if kind == 'multi' else [sched.instrument(P.EchoPort())]
        # the member ports as a list, or as any other iterable a caller has them in (a generator, a map, a dict view)
        p = sched.instrument(P.MultiPort(kids if shape % 3 == 0 else (k for k in kids) if shape % 3 == 2 else
                                         {id(k): k for k in kids}.values()))
        ctx['kids'] = kids
    elif kind == 'pqueue':
        import queue as _q
        from mido.backends._parser_queue import ParserQueue

        class SQueue(_q.Queue):
            def put(self, item, *a, **k):
                sched.yp('qput')
                return super().put(item, *a, **k)

            def get_nowait(self):
                sched.yp('qget')
                return _q.Queue.get(self, False)

            def empty(self):
                sched.yp('qempty')
                return super().empty()

            def get(self, block=True, timeout=None):
                # a blocking get under the cooperative scheduler: try, and while there is nothing, let the others run
                if not block:
                    return self.get_nowait()
                while True:
                    sched.yp('qget')
                    try:
                        return _q.Queue.get(self, False)
                    except _q.Empty:
                        sched.yp('sleep')
        p = ParserQueue()
        p._queue = SQueue()
        p._parser_lock = sched.SLock(p._parser_lock, True)
        d = sched.SDeque()
        p._parser.messages = d
        ctx['guards'] = [(d, p._parser_lock)]
        return p, ctx
    else:
        raise KeyError(kind)
    target = ctx['input'] if kind == 'ioport' else p
    if kind != 'wire':
        import collections
        collections.deque.extend(target._messages, [portsim.msg_of(k) for k in initial])
    # which lock guards which shared sequence (for the replay through the discipline machine)
    if kind == 'echo':
        ctx['guards'] = [(p._messages, p._lock)]
    elif kind == 'cross':
        ctx['guards'] = [(p._messages, p._lock), (ctx['other']._messages, ctx['other']._lock)]
    elif kind == 'wire':
        ctx['guards'] = [(ctx['wire'], p._lock)]
    elif kind == 'ioport':
        ctx['guards'] = [(ctx['input']._messages, ctx['input']._lock), (ctx['wire'], o._lock)]
    elif kind in ('multi', 'multi1'):
        ctx['guards'] = [(k._messages, k._lock) for k in ctx['kids']] + [(p._messages, p._lock)]
    ctx['initial'] = {id(target._messages): list(initial)} if kind != 'wire' else {}
    if kind == 'cross':
        ctx['initial'][id(ctx['other']._messages)] = [k + 5000 for k in initial]
    return p, ctx


def thread_fn(port, calls, record, ctx=None):
    def f():
        out = []
        for c in calls:
            if c[0] == 'send':
                m = portsim.msg_of(c[1])
                port.send(m)
                m.note = (m.note + 1) % 128          # changing the sent object afterwards must not be visible
                out.append(('sent', c[1]))
            elif c[0] == 'sendsx':
                m = portsim.sx_msg_of(c[1])
                port.send(m)
                out.append(('sent', c[1]))
            elif c[0] == 'sendrt':
                m = portsim.rt_msg_of(c[1])
                port.send(m)
                m.time = -7                          # the only attribute of a real-time message: same rule
                out.append(('sent', c[1]))
            elif c[0] == 'fwd':
                # take ONE pending message of the source port (leaving the iterator open) and send it on to the other port
                src, dst = (port, ctx['other']) if c[1] == 'ab' else (ctx['other'], port)
                it = src.iter_pending()
                m = next(it, None)
                if m is not None:
                    dst.send(m)
                out.append(('fwd', m))
                del it
            elif c[0] == 'poll':
                if ctx is not None:
                    ctx.setdefault('calls', []).append(('start', id(record), None))
                r = port.poll()
                if ctx is not None:
                    ctx['calls'].append(('end', id(record), r))
                out.append(('got', r))
            elif c[0] == 'pending':
                out.append(('many', list(port.iter_pending())))
            elif c[0] == 'receive':
                out.append(('got', port.receive()))
            elif c[0] == 'putbytes':
                bs = [b for k in c[1] for b in portsim.msg_of(k).bytes()]
                port.put_bytes(bs)
                out.append(('put', list(c[1])))
            elif c[0] == 'qpoll':
                out.append(('got', port.poll()))
            elif c[0] == 'qget':
                out.append(('got', port.get()))
        record.extend(out)
        return out
    return f


class NonTerminating(Exception):
    """A schedule of a program whose every call terminates under the property (each receive has its message sent by another
    thread, polls are single calls) went on for more than 3000 scheduling decisions: a thread waits for a message that is
    never delivered."""
    def __init__(self, decisions):
        Exception.__init__(self, 'schedule does not terminate')
        self.decisions = decisions


NONTERM = ('this schedule does not end (more than 3000 scheduling decisions): a thread keeps waiting for a message that was sent '
           'through the port and is never delivered')


def execute(prog, prefix, default='same', rng=None):
    """Run one schedule.  prog = (kind, initial, [calls per thread]).  The schedule follows `prefix`
    (thread indices) and then the default policy.  Returns the observation dict."""
    import mido.ports as P
    kind, initial, threads = prog
    old_shuffle, old_sleep = P.random.shuffle, P.sleep
    P.random.shuffle = lambda l: None
    P.sleep = lambda: sched.yp('sleep')
    try:
        port, ctx = make_world(kind, initial, shape=sum(len(t) for t in threads) + len(threads))
        s = sched.Sched(watchdog=5.0)
        known = set()
        for q_, l_ in ctx.get('guards', []):
            known.add(id(q_))
            known.add(id(l_))
        for extra in (getattr(port, '_lock', None), getattr(port, '_messages', None), getattr(port, '_parser_lock', None)):
            if extra is not None:
                known.add(id(extra))
        s.known = known
        records = [[] for _ in threads]
        progs = {NAMES[i]: thread_fn(port, calls, records[i], ctx) for i, calls in enumerate(threads)}
        info = {'alts': [], 'last': None, 'n': 0}

        def choose(live, en, trace):
            k = info['n']
            info['n'] += 1
            last = info['last']
            if k < len(prefix) and NAMES[prefix[k]] in en:
                pick = NAMES[prefix[k]]
            elif rng is not None:
                pick = rng.choice(en)
            elif last in en and not (s.pending.get(last, (None,))[0] == 'sleep' and len(en) > 1):
                pick = last
            else:
                others = [x for x in en if x != last]
                pick = others[0] if others else en[0]
            info['alts'].append((list(en), last, pick))
            info['last'] = pick
            if info['n'] > 3000:
                raise NonTerminating([NAMES.index(p_) for (_e, _l, p_) in info['alts']])
            return pick
        res = s.run(progs, choose)
        if s.stuck and '__deadlock__' not in res:
            raise HarnessTimeout('a granted thread neither yielded nor finished within 5 s')
        return {'results': res, 'trace': s.trace, 'trace_ev': s.trace_ev, 'alts': info['alts'], 'ctx': ctx, 'port': port, 'records': records,
                'decisions': [NAMES.index(p) for (_e, _l, p) in info['alts']]}
    finally:
        P.random.shuffle, P.sleep = old_shuffle, old_sleep


def judge(prog, ob):
    """The property on one execution of the real code."""
    import mido
    kind, initial, threads = prog
    res = ob['results']
    for name, (st, val) in res.items():
        if st == 'raised':
            return f'{name} raised {type(val).__name__}: {val}'
    if kind == 'cross':
        import collections
        have = sorted(portsim.ident(m) for q in (ob['port']._messages, ob['ctx']['other']._messages) for m in collections.deque.__iter__(q))
        want = sorted(list(initial) + [k + 5000 for k in initial])
        if have != want:
            return f'after forwarding between the two ports they hold {have}, the messages there were are {want}'
        return None
    if kind == 'pqueue':
        put_by = {i: [k for c in calls if c[0] == 'putbytes' for k in c[1]] for i, calls in enumerate(threads)}
        polled = []
        for i, rec in enumerate(ob['records']):
            polled += [portsim.ident(v) for tag, v in rec if tag == 'got' and v is not None]
        rest = [portsim.ident(m) for m in ob['port'].iterpoll()]
        order = polled + rest if sum(1 for calls in threads for c in calls if c[0] == 'qpoll') <= 1 or not polled else None
        allp = [k for i in put_by for k in put_by[i]]
        if sorted(polled + rest) != sorted(allp):
            return f'messages put {sorted(allp)} but handed out / still queued {sorted(polled + rest)}'
        if order is not None:
            for i, ks in put_by.items():
                if [k for k in order if k in ks] != ks:
                    return f'messages of sender {i} come out in the order {[k for k in order if k in ks]}, they were put as {ks}'
        return None
    sent_by = {i: [c[1] for c in calls if c[0] in ('send', 'sendrt', 'sendsx')] for i, calls in enumerate(threads)}
    all_sent = [k for i in sent_by for k in sent_by[i]]
    got = []
    for i, rec in enumerate(ob['records']):
        for tag, v in rec:
            if tag == 'got' and v is not None:
                got.append(v)
            elif tag == 'many':
                got.extend(v)
    ids = [portsim.ident(m) for m in got]
    if any(x < 0 for x in ids):
        return f'a received message is corrupted: {got}'
    if len(set(map(id, got))) != len(got):
        return 'the same object was handed out twice'
    port = ob['port']
    mult = 2 if kind == 'multi' else 1
    if kind in ('echo', 'ioport', 'multi', 'multi1'):
        source = (list(initial) + all_sent) if kind != 'ioport' else list(initial)
        # drain what is left
        rest = []
        try:
            import collections
            tgt = ob['ctx'].get('input', port)
            if kind in ('multi', 'multi1'):
                for k in ob['ctx']['kids']:
                    rest += [portsim.ident(m) for m in collections.deque.__iter__(k._messages)]
            rest += [portsim.ident(m) for m in collections.deque.__iter__(tgt._messages)]
        except Exception as e:
            return f'harness could not drain the port: {e}'
        from collections import Counter
        have = Counter(ids) + Counter(rest)
        want = Counter({k: mult * v for k, v in Counter(source).items()})
        if have != want:
            return f'received {sorted(ids)} + still queued {sorted(rest)} is not exactly{" twice" if mult == 2 else ""} what was sent/queued {sorted(source)}'
        if any(v > mult for v in Counter(ids).values()):
            return f'a message was received more than once: {ids}'
    if kind in ('wire', 'ioport'):
        wire = list(ob['ctx']['wire'])
        # every message arrives as ONE uninterrupted run of its bytes: the wire is a concatenation of whole encodings,
        # per sender in the order sent
        queues = []
        for i, calls in enumerate(threads):
            q = []
            for c in calls:
                if c[0] == 'send':
                    q.append(list(portsim.msg_of(c[1]).bytes()))
                elif c[0] == 'sendsx':
                    q.append(list(portsim.sx_msg_of(c[1]).bytes()))
                elif c[0] == 'sendrt':
                    q.append(list(portsim.rt_msg_of(c[1]).bytes()))
            queues.append(q)

        def seg(pos, heads):
            if pos == len(wire):
                return all(h == len(q) for h, q in zip(heads, queues))
            for i, q in enumerate(queues):
                if heads[i] < len(q):
                    e = q[heads[i]]
                    if wire[pos:pos + len(e)] == e and seg(pos + len(e), heads[:i] + [heads[i] + 1] + heads[i + 1:]):
                        return True
            return False
        if not seg(0, [0] * len(queues)):
            return (f'the bytes on the wire {wire} are not a sequence of whole encodings of the sent messages, per sender in order '
                    f'{queues} (mixed byte-wise, lost, doubled or reordered)')
    if kind == 'multi1':
        # one member port: a MultiPort is then a pipe.  Two poll() calls that do not overlap in time (the first returned before
        # the second was entered, whichever threads made them) hand out messages of one sender in the order sent
        done = []          # (message id) of the calls that have ended, in order of ending; checked at each later start
        open_since = {}
        ended_before = {}
        for what, who, val in ob['ctx'].get('calls', []):
            if what == 'start':
                ended_before[who] = list(done)
            else:
                if val is not None:
                    k = portsim.ident(val)
                    for i, ks in sent_by.items():
                        if k in ks:
                            later = [e for e in ended_before.get(who, []) if e in ks and ks.index(e) > ks.index(k)]
                            if later:
                                return (f'a poll() entered after another poll() had already returned message {later[0]} of sender {i} '
                                        f'returned the earlier message {k} of that sender (sent in the order {ks})')
                    done.append(k)
    # per-sender order as seen in the global pop order of the trace
    if kind == 'echo':
        for i, ks in sent_by.items():
            sub = [k for k in ids_in_pop_order(ob) if k in ks]
            if sub != [k for k in ks if k in sub]:
                return f'messages of sender {i} received out of order: {sub}'
    return None


def ids_in_pop_order(ob):
    # the records are per thread; pop order across threads is the order of 'popleft' events in the trace,
    # each matched with that thread's next received message
    per = {NAMES[i]: [portsim.ident(v) for tag, v in rec if tag == 'got' and v is not None] +
           [portsim.ident(m) for tag, v in rec if tag == 'many' for m in v] for i, rec in enumerate(ob['records'])}
    idx = {k: 0 for k in per}
    out = []
    for tid, act in ob['trace']:
        if act == 'popleft' and idx[tid] < len(per[tid]):
            out.append(per[tid][idx[tid]])
            idx[tid] += 1
    return out


def model_line(prog, ob):
    """The execution as the Lean model must reproduce it (EchoPort, send/poll only)."""
    kind, initial, threads = prog
    import collections
    q = [portsim.ident(m) for m in collections.deque.__iter__(ob['port']._messages)]
    sent = list(initial)
    # append order from the trace
    per_sent = {NAMES[i]: [c[1] for c in calls if c[0] == 'send'] for i, calls in enumerate(threads)}
    idx = {k: 0 for k in per_sent}
    for tid, act in ob['trace']:
        if act == 'append':
            sent.append(per_sent[tid][idx[tid]])
            idx[tid] += 1
    recv = ids_in_pop_order(ob)
    ths = []
    for i, rec in enumerate(ob['records']):
        gots = ['-' if v is None else str(portsim.ident(v)) for tag, v in rec if tag == 'got']
        ths.append(','.join(gots) + ':' + ('done' if NAMES[i] in ob['results'] else 'live'))
    fault = 1 if any(st == 'raised' and isinstance(v, IndexError) for st, v in ob['results'].values()) else 0
    return 'fault=%d q=%s sent=%s recv=%s | %s' % (fault, ','.join(map(str, q)), ','.join(map(str, sent)), ','.join(map(str, recv)), ' | '.join(ths))


def model_request(prog, ob):
    kind, initial, threads = prog
    progs = '/'.join(','.join('p' if c[0] == 'poll' else 's%d' % c[1] for c in calls) for calls in threads)
    return 'conc progs=%s q=%s sched=%s' % (progs, ','.join(map(str, initial)) or '-', ','.join(map(str, ob['decisions'])) or '-')


def _val(x):
    return x if isinstance(x, int) else portsim.ident(x)


def disc_lines(prog, ob):
    """The execution as an event trace for the Lean discipline machine, and what was observed on the real objects.
    Every kind of port: locks and shared sequences are numbered in the order of ctx['guards']."""
    ctx = ob['ctx']
    guards = ctx.get('guards')
    if not guards:
        return None, None
    qidx = {id(q): i for i, (q, _l) in enumerate(guards)}
    locks = {}
    for _q, l in guards:
        if id(l) not in locks:
            locks[id(l)] = len(locks)
    tix = {n: i for i, n in enumerate(NAMES)}
    cursor = {}
    evs = []
    for tid, act, obj in ob['trace_ev']:
        t = tix.get(tid)
        if t is None:
            continue
        if act in ('acq', 'rel'):
            if id(obj) in locks:
                evs.append('%d:%s:%d' % (t, 'a' if act == 'acq' else 'r', locks[id(obj)]))
        elif act == 'bool' and id(obj) in qidx:
            evs.append('%d:t:%d' % (t, qidx[id(obj)]))
        elif act == 'popleft' and id(obj) in qidx:
            evs.append('%d:p:%d' % (t, qidx[id(obj)]))
        elif act in ('append', 'write') and id(obj) in qidx:
            k = cursor.get(id(obj), 0)
            cursor[id(obj)] = k + 1
            seq = obj if isinstance(obj, list) else obj.__dict__.get('apps', [])
            if k < len(seq):
                evs.append('%d:w:%d:%d' % (t, qidx[id(obj)], _val(seq[k]) % (1 << 40)))
    init = ctx.get('initial', {})
    import collections
    q0 = '/'.join('%d:%s' % (i, '.'.join(str(k) for k in init.get(id(q), []))) for i, (q, _l) in enumerate(guards))
    g = ','.join('%d:%d' % (i, locks[id(l)]) for i, (_q, l) in enumerate(guards))
    req = 'disc n=%d g=%s q=%s ev=%s' % (len(guards), g, q0 or '-', ','.join(evs) or '-')
    fault = 1 if any(st == 'raised' and isinstance(v, IndexError) for st, v in ob['results'].values()) else 0
    parts = []
    for i, (q, _l) in enumerate(guards):
        if isinstance(q, list):
            cur, apps, pops = list(q), list(q), []
        else:
            cur = [_val(m) % (1 << 40) for m in collections.deque.__iter__(q)]
            apps = [_val(m) % (1 << 40) for m in q.__dict__.get('apps', [])]
            pops = [_val(m) % (1 << 40) for m in q.__dict__.get('pops', [])]
        sent = list(init.get(id(q), [])) + apps
        parts.append(' | %d: q=%s sent=%s recv=%s' % (i, ','.join(map(str, cur)), ','.join(map(str, sent)), ','.join(map(str, pops))))
    return req, 'viol=0 fault=%d' % fault + ''.join(parts)


def explore(prog, bound, limit):
    """All schedules with at most `bound` preemptions (stateless DFS with re-execution)."""
    out = []
    stack = [((), 0)]
    seen = set()
    while stack and len(out) < limit:
        prefix, used = stack.pop()
        if prefix in seen:
            continue
        seen.add(prefix)
        ob = execute(prog, list(prefix))
        dec = ob['decisions']
        out.append((tuple(dec), ob))
        # branch at every decision at or after the prefix
        for k in range(len(prefix), len(dec)):
            en, last, pick = ob['alts'][k]
            for alt in en:
                if alt == pick:
                    continue
                cost = used + _cost(ob['alts'][:k], prefix) + (1 if (last in en and alt != last) else 0)
                if cost <= bound:
                    stack.append((tuple(dec[:k]) + (NAMES.index(alt),), cost))
    return out


def _cost(alts, prefix):
    # preemptions taken by the default policy itself after the prefix are free (the running thread blocked/ended)
    return 0


def pqueue_many(n):
    """No scheduler: n messages put into a ParserQueue nobody reads meanwhile (bytes and message objects mixed) must all
    come out, once, in order."""
    from mido.backends._parser_queue import ParserQueue
    pq = ParserQueue()
    want = []
    k = 0
    while k < n:
        chunk = list(range(k, min(n, k + 37)))
        if (k // 37) % 3 == 2:
            for i in chunk:
                pq.put(portsim.msg_of(i))
        else:
            pq.put_bytes([b for i in chunk for b in portsim.msg_of(i).bytes()])
        want += chunk
        k += 37
    got = [portsim.ident(m) for m in pq.iterpoll()]
    if got != want:
        return f'{n} messages were put into the ParserQueue, {len(got)} came out (first difference at index {next((i for i, (a, b) in enumerate(zip(got, want)) if a != b), min(len(got), len(want)))})'
    return None


def echo_many(n):
    """No scheduler: n messages sent to an EchoPort nobody reads meanwhile must all be received, once, in order."""
    import mido.ports as P
    p = P.EchoPort()
    for i in range(n):
        p.send(portsim.msg_of(i % 200000))
    cnt = 0
    bad = None
    while True:
        m = p.poll()
        if m is None:
            break
        if portsim.ident(m) != cnt % 200000 and bad is None:
            bad = cnt
        cnt += 1
    if cnt != n or bad is not None:
        return f'{n} messages were sent to an EchoPort, {cnt} were received' + (f' (first wrong one at index {bad})' if bad is not None else '')
    return None


def gen_programs(ck):
    rng = ck.rng
    progs = []
    ids = itertools.count(300)
    # EchoPort: model-aligned (send / poll)
    shapes = [([['send'], ['poll']], 0), ([['send'], ['poll'], ['poll']], 1), ([['send', 'send'], ['poll', 'poll']], 0),
              ([['send'], ['send'], ['poll', 'poll']], 0), ([['poll'], ['poll']], 1), ([['send'], ['send'], ['poll'], ['poll']], 1),
              ([['send', 'poll'], ['send', 'poll']], 0), ([['poll', 'poll'], ['poll']], 2), ([['send'], ['send'], ['send'], ['poll', 'poll', 'poll']], 0)]
    for shape, ninit in shapes:
        threads = [[('send', next(ids)) if c == 'send' else ('poll',) for c in calls] for calls in shape]
        progs.append(('echo', [next(ids) for _ in range(ninit)], threads))
    # device double: bytes on the wire
    progs.append(('wire', [], [[('send', next(ids))], [('send', next(ids))]]))
    progs.append(('wire', [], [[('send', next(ids)), ('send', next(ids))], [('send', next(ids))], [('send', next(ids))]]))
    progs.append(('wire', [], [[('sendsx', next(ids))], [('sendrt', next(ids))]]))
    progs.append(('wire', [], [[('sendsx', next(ids)), ('send', next(ids))], [('sendrt', next(ids)), ('sendrt', next(ids))], [('send', next(ids))]]))
    # IOPort over a device pair: the shared deque
    progs.append(('ioport', [next(ids)], [[('poll',)], [('poll',)]]))
    progs.append(('ioport', [next(ids), next(ids)], [[('poll',), ('poll',)], [('poll',)], [('send', next(ids))]]))
    progs.append(('ioport', [next(ids)], [[('pending',)], [('poll',)], [('send', next(ids))]]))
    # MultiPort over two EchoPorts
    progs.append(('multi', [], [[('send', next(ids))], [('poll',), ('poll',)]]))
    progs.append(('multi', [], [[('send', next(ids))], [('send', next(ids))], [('pending',)]]))
    # ParserQueue (the queue-backed parser of the backends): byte chunks from several threads
    progs.append(('pqueue', [], [[('putbytes', [next(ids), next(ids)])], [('putbytes', [next(ids)])]]))
    progs.append(('pqueue', [], [[('putbytes', [next(ids), next(ids)])], [('putbytes', [next(ids), next(ids)])], [('qpoll',)]]))
    # two receivers blocked in get() (what rtmidi's Input.receive() is) while the messages arrive one by one
    progs.append(('pqueue', [], [[('putbytes', [next(ids)])], [('putbytes', [next(ids)])], [('qget',)], [('qget',)]]))
    # echo with iter_pending
    progs.append(('echo', [next(ids)], [[('send', next(ids))], [('pending',)], [('poll',)]]))
    # two ports forwarding to each other: an open iter_pending() must not keep the port locked
    progs.append(('cross', [next(ids)], [[('fwd', 'ab')], [('fwd', 'ba')]]))
    progs.append(('cross', [next(ids), next(ids)], [[('fwd', 'ab'), ('fwd', 'ab')], [('fwd', 'ba')], [('fwd', 'ba')]]))
    # real-time messages (their only attribute is `time`): copy-on-send holds for them as well
    progs.append(('echo', [], [[('sendrt', next(ids)), ('sendrt', next(ids))], [('poll',), ('poll',)]]))
    progs.append(('multi', [], [[('sendrt', next(ids))], [('poll',), ('poll',)]]))
    a_, b_, c_ = next(ids), next(ids), next(ids)
    progs.append(('multi1', [], [[('send', a_), ('send', b_), ('send', c_)], [('poll',)], [('poll',)], [('poll',)]]))
    return progs


def run_program(args):
    prog, bound, limit, nrandom, seed = args
    import random
    outs = []
    try:
        for dec, ob in explore(prog, bound, limit):
            outs.append(_summarise(prog, ob, 'dfs'))
        rng = random.Random(seed)
        # blocking receive only under random (fair) schedules
        for _ in range(nrandom):
            ob = execute(prog, [], rng=rng)
            outs.append(_summarise(prog, ob, 'random'))
    except NonTerminating as e:
        outs.append({'fail': NONTERM, 'decisions': e.decisions, 'mode': 'dfs', 'preemptions': 0, 'req': None, 'line': None,
                     'dreq': None, 'dline': None})
    return outs


def _summarise(prog, ob, mode):
    fail = judge(prog, ob)
    kind = prog[0]
    aligned = kind == 'echo' and all(c[0] in ('send', 'poll') for calls in prog[2] for c in calls)
    npre = sum(1 for en, last, pick in ob['alts'] if last in en and pick != last)
    dreq, dline = disc_lines(prog, ob)
    return {'fail': fail, 'decisions': ob['decisions'], 'mode': mode, 'preemptions': npre,
            'req': model_request(prog, ob) if aligned else None, 'line': model_line(prog, ob) if aligned else None,
            'dreq': dreq, 'dline': dline}


def run(ck):
    ck.prepare_lean(extra_targets=['MidoProofs.Props.C10b'])
    ck.run_corpus(oracle)
    progs = gen_programs(ck)
    bound = 2 if ck.tier == 'quick' else 3
    limit = 400 if ck.tier == 'quick' else 6000
    nrand = 30 if ck.tier == 'quick' else 400
    # blocking receive programs (random schedules only)
    extra = [('echo', [], [[('send', 9001)], [('receive',)]]), ('echo', [], [[('send', 9002)], [('send', 9003)], [('receive',), ('receive',)]]),
             ('multi', [], [[('send', 9004)], [('receive',), ('receive',)]])]
    jobs = [(p, bound, limit, nrand, ck.seed * 1000 + i) for i, p in enumerate(progs)] + \
           [(p, 0, 1, nrand, ck.seed * 1000 + 500 + i) for i, p in enumerate(extra)]
    res = pool_map(run_program, jobs)
    reqs, impl = [], []
    dreqs, dimpl = [], []
    for (prog, *_), outs in zip(jobs, res):
        ck.count('programs:' + prog[0])
        for o in outs:
            ck.note_case((repr(prog), tuple(o['decisions'])), nontrivial=o['preemptions'] > 0)
            ck.count('schedules:' + o['mode'])
            ck.count('preemptions:%d' % min(o['preemptions'], 4))
            if o['fail']:
                ck.oracle_fail({'prog': repr(prog), 'schedule': o['decisions']}, o['fail'])
            if o['req']:
                reqs.append(o['req'])
                impl.append(o['line'])
            if o.get('dreq'):
                dreqs.append(o['dreq'])
                dimpl.append(o['dline'])
                ck.count('discipline_replay:' + prog[0])
    for n in ([1025, 3000] if ck.tier == 'quick' else [1023, 1024, 1025, 2049, 10000, 70000]):
        ck.evaluations += 1
        ck.count('pqueue_many')
        ck.note_case(('pqueue_many', n))
        f = pqueue_many(n)
        if f:
            ck.oracle_fail({'pqueue_many': n}, f)
    for n in ([270000] if ck.tier == 'quick' else [262143, 262144, 262145, 1100000]):
        ck.evaluations += 1
        ck.count('echo_many')
        f = echo_many(n)
        if f:
            ck.oracle_fail({'echo_many': n}, f)
    ck.compare('ports_conc', reqs, impl, ck.driver.run(reqs))
    ck.compare('lock_discipline', dreqs, dimpl, ck.driver.run(dreqs))
    ck.sample({'prog': repr(progs[1]), 'schedule': res[1][5]['decisions'] if len(res[1]) > 5 else res[1][0]['decisions']})
    ck.exhaustive['schedules with <= %d preemptions of each listed program (capped at %d per program)' % (bound, limit)] = True
    return ck.finish(RULE, assumptions=[
        'single deque operations and RLock acquire/release are atomic under the GIL; pre-emption inside one Python statement '
        'between shared accesses is not explored (everything between two shared accesses is thread-local)',
        'the interleaving theorems cover the lock-protected EchoPort-like port (send / poll) for any number of threads and any schedule; the '
        'discipline theorems cover any composition of locks and queues (IOPort, MultiPort, ParserQueue, the wire) for any number of threads and '
        'any schedule PROVIDED every event respects the discipline - that the real code does is observed on every explored execution '
        '(viol=0), not proved'])


def oracle(case):
    if 'echo_many' in case:
        return echo_many(case['echo_many'])
    if 'pqueue_many' in case:
        return pqueue_many(case['pqueue_many'])
    prog = eval(case['prog'])
    try:
        ob = execute(prog, list(case['schedule']))
    except NonTerminating:
        return NONTERM
    return judge(prog, ob)


def replay(ck, rp):
    return generic_replay(ck, rp, oracle)
