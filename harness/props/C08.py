"""C08 — file bytes conform to the Standard MIDI File format in both directions."""
import contextlib
import io

from .. import metas, msgs, smf
from ..common import chunks, exc_name, generic_replay, pool_map
from .C07 import desc_request, from_jsonable, jsonable, save_bytes

RULE = ('event lists (as in C07) x, for the read direction, random standard-conformant encodings of the same events: running '
        'status used or not at each opportunity, VLQs padded with 0..3 bytes 0x80, header chunk length 6..16; configurations '
        'clip in {False, True} x debug in {False, True}; data bytes 128..255 injected for the clip clause. Write direction: '
        'the saved bytes are decoded by an independent reference SMF decoder (exact chunk lengths, minimal VLQs, legal running '
        'status, FF 2F 00 last). Distinct by (event lists, encoding bytes, configuration); non-trivial = at least one event')


def normalised(desc):
    return [smf.fix_eot_ref(tr) for tr in desc['tracks']]


def write_oracle(desc, data):
    """The saved bytes under the reference decoder."""
    rep = {}
    try:
        ty, ntr, tpb, tracks = smf.ref_decode(data, require_minimal=True, report=rep)
    except smf.SmfError as e:
        return f'saved bytes are not standard-conformant: {e}'
    except Exception as e:
        return f'reference decoder failed on the saved bytes: {type(e).__name__}: {e}'
    if (ty, ntr, tpb) != (desc['type'], len(desc['tracks']), desc['tpb']):
        return f'header ({ty},{ntr},{tpb}) differs from the file ({desc["type"]},{len(desc["tracks"])},{desc["tpb"]})'
    if rep.get('trailing'):
        return 'bytes after the last chunk'
    want = normalised(desc)
    for ti, (got, exp) in enumerate(zip(tracks, want)):
        exp_raw = [(e[0],) + smf.raw_of_event(e, desc.get('charset', 'latin1')) for e in exp]
        if [(d, k, a, list(x)) for (d, k, a, x) in got] != [(d, k, a, list(x)) for (d, k, a, x) in exp_raw]:
            for k, (g, e) in enumerate(zip(got, exp_raw)):
                if (g[0], g[1], g[2], list(g[3])) != (e[0], e[1], e[2], list(e[3])):
                    return f'track {ti} event {k}: bytes decode to {g!r}, the in-memory event is {e!r}'
            return f'track {ti}: {len(got)} events in the bytes, {len(exp_raw)} in memory'
        if not got or got[-1][1:3] != ('meta', 0x2f) or list(got[-1][3]) != []:
            return f'track {ti} does not end with FF 2F 00'
    return None


def load(data, clip, debug, charset='latin1'):
    import mido
    if debug:
        with contextlib.redirect_stdout(io.StringIO()):
            return mido.MidiFile(file=io.BytesIO(bytes(data)), clip=clip, debug=True, charset=charset)
    return mido.MidiFile(file=io.BytesIO(bytes(data)), clip=clip, charset=charset)


def impl_case(case):
    """case: {'desc', 'alts': [bytes...], 'bad': [bytes with data bytes > 127]}"""
    desc = case['desc']
    fail = None
    lines = []
    if (len(desc['tracks']) + desc['tpb']) % 3 == 0:
        # the documented helper functions hand out values that belong to the caller
        import mido as _m
        from ..persist import abuse_merge_results, abuse_vlq_helpers
        abuse_merge_results(_m)
        abuse_vlq_helpers(_m, [e[0] for tr in desc['tracks'] for e in tr if isinstance(e[0], int) and 0 <= e[0] < 2 ** 28][:40])
    if (len(desc['tracks']) + desc['tpb']) % 4 == 0:
        # an earlier save in the same process that was refused part-way through a track (a real-time message after storable
        # ones; text the charset cannot encode) must leave nothing behind that ends up in this file
        import mido
        for poison in ([mido.Message('note_on', note=1, time=3), mido.Message('clock')],
                       [mido.Message('note_on', note=2), mido.MetaMessage('text', text='snow\u2603man')]):
            try:
                save_bytes(mido.MidiFile(tracks=[mido.MidiTrack(poison)]))
            except Exception:
                pass
    try:
        mid = smf.build_file(desc)
        data = save_bytes(mid)
    except Exception as e:
        return ['err ' + exc_name(e)], f'save raised {type(e).__name__}: {e}'
    fail = write_oracle(desc, data)
    want = normalised(desc)
    want_line = '%d %d' % (desc['type'], desc['tpb']) + ''.join(
        ' |' + ''.join(' ' + _loaded_form(e) for e in tr) for tr in want)
    for enc in [list(data)] + case['alts']:
        per_cfg = []
        for clip in (False, True):
            for debug in (False, True):
                try:
                    m = load(enc, clip, debug, desc.get('charset', 'latin1'))
                    per_cfg.append('ok ' + smf.file_line(m))
                except Exception as e:
                    per_cfg.append('err ' + exc_name(e))
        lines.append(per_cfg[0])
        if fail is None:
            if per_cfg[0] != 'ok ' + want_line:
                fail = (f'a conformant encoding does not load to the event list: got {per_cfg[0][:300]!r}, '
                        f'expected {("ok " + want_line)[:300]!r}; encoding={enc[:120]}')
            elif len(set(per_cfg)) != 1:
                fail = f'clip/debug change the result of loading a valid file: {[p[:80] for p in per_cfg]}'
    for enc, clipped_line in case['bad']:
        res = {}
        for clip in (False, True):
            try:
                res[clip] = 'ok ' + smf.file_line(load(enc, clip, False, desc.get('charset', 'latin1')))
            except Exception as e:
                res[clip] = 'err ' + exc_name(e)
        lines.append(res[False])
        lines.append(res[True])
        if fail is None:
            if not res[False].startswith('err'):
                fail = f'data byte above 127 accepted with clip=False: {res[False][:200]!r}'
            elif res[True] != 'ok ' + clipped_line:
                fail = f'clip=True gives {res[True][:300]!r}, expected {("ok " + clipped_line)[:300]!r}'
    return lines, fail


def _loaded_form(ev):
    tok = smf.event_token(ev)
    t, rest = tok.split(';', 1)
    return str(int(t[1:])) + ';' + rest


def _chunk(cs):
    return [impl_case(c) for c in cs]


def make_bad(rng, desc):
    """Inject one data byte > 127 into a channel message of an encoding; returns (bytes, expected line with clip)."""
    import copy
    cands = [(ti, i) for ti, tr in enumerate(desc['tracks']) for i, e in enumerate(tr)
             if e[1] == 'msg' and e[2] in ('note_on', 'note_off', 'control_change', 'polytouch', 'program_change', 'aftertouch')]
    if not cands:
        return None
    ti, i = rng.choice(cands)
    d2 = copy.deepcopy(desc)
    time, kind, a, b = d2['tracks'][ti][i]
    names = [n for n in msgs.TYPES[a][1] if n != 'channel']
    name = rng.choice(names)
    full = smf._with_defaults(a, b)
    # encode with the valid value, then patch the byte in the encoding
    marker = dict(full)
    enc_tracks = copy.deepcopy(d2)
    # clipped expectation: the value becomes 127
    clipped = dict(full)
    clipped[name] = 127
    d2['tracks'][ti][i] = (time, kind, a, clipped)
    want = '%d %d' % (d2['type'], d2['tpb']) + ''.join(
        ' |' + ''.join(' ' + _loaded_form(e) for e in tr) for tr in normalised(d2))
    # build bytes: encode d2 (value 127) without running status and patch 127 -> high value at that event
    enc = smf.encode_alt(rng, {'type': d2['type'], 'tpb': d2['tpb'], 'tracks': normalised(d2), 'charset': d2.get('charset', 'latin1')}, pad_max=0, header_extra=0, running='never')
    # locate the event's data byte: re-encode prefix to find offset
    pre = {'type': d2['type'], 'tpb': d2['tpb'], 'tracks': normalised(d2)}
    # position of event i within normalised track (EOT events before i are removed)
    k = sum(1 for e in desc['tracks'][ti][:i] if not (e[1] == 'meta' and e[2] == 'end_of_track'))
    off = 14
    for tj, tr in enumerate(pre['tracks']):
        off += 8
        for ej, ev in enumerate(tr):
            kind2, a2, data2 = smf.raw_of_event(ev, d2.get('charset', 'latin1'))
            off += len(metas.vlq(ev[0]))
            if tj == ti and ej == k:
                idx = off + 1 + names.index(name)
                bad = list(enc)
                assert bad[idx] == 127, (bad[idx], idx)
                bad[idx] = rng.choice([128, 200, 255])
                return bad, want
            if kind2 == 'meta':
                off += 2 + len(metas.vlq(len(data2))) + len(data2)
            elif kind2 == 'sysex':
                off += 1 + len(metas.vlq(len(data2) + 1)) + len(data2) + 1
            else:
                off += 1 + len(data2)
    return None


def make_bad_sysex(rng):
    """A file whose sysex payload holds one byte above 127 (F0 form): rejected with clip=False, the byte becomes 127 with
    clip=True.  Returns (desc, bytes, expected line with clip)."""
    ln = rng.choice([1, 2, 5, 40])
    pos = rng.randrange(ln)
    data = [rng.randint(0, 126) for _ in range(ln)]
    clipped = list(data)
    clipped[pos] = 127
    desc = {'type': 1, 'tpb': 96 + rng.randint(0, 9), 'tracks': [
        [(rng.choice([0, 5]), 'msg', 'note_on', {'channel': 2, 'note': 3, 'velocity': 4}),
         (rng.choice([0, 7]), 'msg', 'sysex', {'data': tuple(clipped)}),
         (0, 'msg', 'note_off', {'channel': 2, 'note': 3, 'velocity': 0}), (0, 'meta', 'end_of_track', {})]]}
    want = '%d %d' % (desc['type'], desc['tpb']) + ''.join(' |' + ''.join(' ' + _loaded_form(e) for e in tr) for tr in normalised(desc))
    enc = smf.encode_alt(rng, {'type': desc['type'], 'tpb': desc['tpb'], 'tracks': normalised(desc), 'charset': 'latin1'},
                         pad_max=0, header_extra=0, running='never')
    needle = [0xf0] + metas.vlq(ln + 1) + clipped + [0xf7]
    enc = list(enc)
    for i in range(len(enc) - len(needle) + 1):
        if enc[i:i + len(needle)] == needle:
            idx = i + 1 + len(metas.vlq(ln + 1)) + pos
            assert enc[idx] == 127
            enc[idx] = rng.choice([128, 200, 255])
            return desc, enc, want
    return None


def gen(ck):
    rng = ck.rng
    n = 4000 if ck.tier == 'quick' else 60000
    cases = []
    for _ in range(n):
        desc = smf.random_file(rng)
        if rng.random() < 0.15:
            smf.make_utf8(rng, desc)
        norm = {'type': desc['type'], 'tpb': desc['tpb'], 'tracks': normalised(desc), 'charset': desc.get('charset', 'latin1')}
        alts = [smf.encode_alt(rng, norm) for _ in range(3)]
        alts.append(smf.encode_alt(rng, norm, pad_max=3, running='always'))
        bad = []
        if rng.random() < 0.5:
            b = make_bad(rng, desc)
            if b:
                bad.append(b)
        cases.append({'desc': desc, 'alts': alts, 'bad': bad})
    # multi-track files whose second chunk header lies at every offset around a multiple of 64 KiB (block boundaries of
    # any buffered reading must not show)
    for base in ((65536,) if ck.tier == 'quick' else (4096, 8192, 65536, 131072)):
        for k in range(-9, 3):
            ln = base + k - 32
            desc = {'type': 1, 'tpb': 96, 'tracks': [
                [(0, 'msg', 'sysex', {'data': tuple((i * 5) % 128 for i in range(ln))}), (0, 'meta', 'end_of_track', {})],
                [(3, 'msg', 'note_on', {'channel': 1, 'note': 2, 'velocity': 3}), (0, 'meta', 'end_of_track', {})],
                [(0, 'meta', 'end_of_track', {})]]}
            cases.append({'desc': desc, 'alts': [], 'bad': []})
    for _ in range(40 if ck.tier == 'quick' else 400):
        b = make_bad_sysex(rng)
        if b:
            cases.append({'desc': b[0], 'alts': [], 'bad': [(b[1], b[2])]})
    return cases


def run(ck):
    ck.prepare_lean()
    ck.run_corpus(oracle)
    cases = gen(ck)
    res = [r for part in pool_map(_chunk, list(chunks(cases, 50))) for r in part]
    reqs, impl = [], []
    for case, (lines, fail) in zip(cases, res):
        desc = case['desc']
        nev = sum(len(t) for t in desc['tracks'])
        ck.note_case(repr(desc)[:5000] + repr((case['alts'] or [[]])[0][:50]), nontrivial=nev > 0)
        ck.count('tracks:%d' % len(desc['tracks']))
        ck.count('encodings', 1 + len(case['alts']))
        ck.count('clip_injections', len(case['bad']))
        if fail:
            ck.oracle_fail({'file': jsonable(desc), 'alts': case['alts'], 'bad': [[b, w] for b, w in case['bad']]}, fail)
        if lines and lines[0].startswith('err'):
            continue
        if sum(len(tr) for tr in desc['tracks']) < 6 and any(len(e[3].get('data', ())) > 3000 for tr in desc['tracks'] for e in tr if e[1] == 'msg'):
            continue        # the 64 KiB files: oracle only
        encs = case['alts']
        cs = {'latin1': 'latin1', 'utf-8': 'utf8'}[desc.get('charset', 'latin1')]
        ck.count('charset:' + cs)
        # lines[0] is the saved encoding (its bytes are not kept here; C07 compares them), then the alternatives
        for enc, line in zip(encs, lines[1:1 + len(encs)]):
            reqs.append('smfread %s 0 %s' % (cs, ' '.join(map(str, enc))))
            impl.append(line)
        k = 1 + len(encs)
        for (enc, _w) in case['bad']:
            reqs.append('smfread %s 0 %s' % (cs, ' '.join(map(str, enc))))
            impl.append(lines[k])
            reqs.append('smfread %s 1 %s' % (cs, ' '.join(map(str, enc))))
            impl.append(lines[k + 1])
            k += 2
    c = cases[1]
    ck.sample({'events': [[smf.event_token(e) for e in tr[:5]] for tr in c['desc']['tracks'][:2]], 'alt_encoding': c['alts'][0][:60]})
    ck.compare('smf_read.alt-encodings', reqs, impl, ck.driver.run(reqs))
    # file I/O re-entered while a save / load with another charset is in progress: the bytes are those of the plain objects
    from . import C17 as c17
    ck.evaluations += 1
    ck.count('nested_io')
    f = c17.nested_io_fail()
    if f:
        ck.oracle_fail({'nested_io': True}, f)
    return ck.finish(RULE, assumptions=[
        'conformant = channel events, complete F0..F7 sysex events, meta events and (mido\'s extension) raw system-common '
        'events; F7 escapes, split sysex and alien chunks are outside',
        'debug=True equivalence is correspondence-only (the wrapper is I/O)'])


def oracle(case):
    if 'nested_io' in case:
        from . import C17 as c17
        return c17.nested_io_fail()
    c = {'desc': from_jsonable(case['file']), 'alts': case.get('alts', []), 'bad': [tuple(x) for x in case.get('bad', [])]}
    return impl_case(c)[1]


def replay(ck, rp):
    return generic_replay(ck, rp, oracle)
