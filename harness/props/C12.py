"""C12 — merge_tracks keeps every event at its absolute time."""
import copy
import itertools

from .. import envprobe
from ..common import chunks, generic_replay, pool_map

RULE = ('track lists: exhaustively all lists of <= 3 tracks of <= 3 events over deltas {0,1} and event kinds {message, '
        'end_of_track} (quick: <= 2 tracks x <= 3 events and 3 tracks x <= 2 events); random lists of 0..5 tracks, 0..12 events, '
        'deltas from {0,0,0,1,2,5,480}, end_of_track missing / repeated / mid-track / with delta; payloads are real Message, '
        'MetaMessage and UnknownMetaMessage objects numbered so that ties are observable; skip_checks on and off and '
        'MidiFile.merged_track. Distinct by the track list; non-trivial = at least two events in total')


def make_msg(k):
    """A distinct real message object for identity k >= 1 (three families)."""
    import mido
    if k >= 1400000:
        # the metas that a file format puts at the beginning of a track: to a merge they are events like any other
        j = k - 1400000
        if j % 2:
            return mido.MetaMessage('sequence_number', number=(j // 2) % 65536)
        return mido.MetaMessage('smpte_offset', frames=(j // 2) % 256, sub_frames=(j // 512) % 100)
    if k >= 400000:
        return mido.MetaMessage('set_tempo', tempo=100000 + (k - 400000) % 900000)
    if k >= 300000:
        # note family: the same channel and note everywhere, identity in the velocity (1..127) and the on/off kind
        v = (k - 300000) % 128
        return mido.Message('note_off' if (k - 300000) // 128 % 2 else 'note_on', channel=0, note=60, velocity=v)
    fam = k % 3
    if fam == 0:
        return mido.Message('control_change', channel=k % 16, control=(k // 16) % 128, value=(k // 2048) % 128)
    if fam == 1:
        # text the default charset cannot encode is legal in a message in memory (what it is saved as is the file's business)
        from mido.midifiles.meta import meta_charset
        with meta_charset('utf-8'):          # as a message loaded from a utf-8 file would have been made
            return mido.MetaMessage('text', text=('\u266a%d' if k % 2 else 'm%d') % k)
    return mido.UnknownMetaMessage(0x60, data=[k % 256, (k // 256) % 256, (k // 65536) % 256])


def ident(m):
    if m.type == 'sequence_number':
        return 1400000 + 2 * m.number + 1
    if m.type == 'smpte_offset':
        return 1400000 + 2 * (m.frames + 256 * m.sub_frames)
    if m.type == 'set_tempo':
        return 400000 + m.tempo - 100000
    if m.type in ('note_on', 'note_off') and m.note == 60 and m.channel == 0:
        return 300000 + m.velocity + (128 if m.type == 'note_off' else 0)
    if m.type == 'control_change':
        return m.channel + 16 * m.control + 2048 * m.value
    if m.type == 'text':
        return int(m.text[1:])
    if m.type == 'unknown_meta':
        return m.data[0] + 256 * m.data[1] + 65536 * m.data[2]
    if m.type == 'end_of_track':
        return 0
    return -1


def build(tracks, alias=False):
    """tracks: list of lists of (id, eot, time) -> list of MidiTrack.  With alias=True equal (id, eot, time) triples are
    ONE message object appearing at several positions (`track * 2`, a marker shared between tracks)."""
    import mido
    out = []
    cache = {}
    for tr in tracks:
        t = mido.MidiTrack()
        for (k, eot, time) in tr:
            if alias and (k, eot, time) in cache:
                t.append(cache[(k, eot, time)])
                continue
            if eot:
                m = mido.MetaMessage('end_of_track', time=time)
            else:
                m = make_msg(k).copy(time=time)
            cache[(k, eot, time)] = m
            t.append(m)
        out.append(t)
    return out


def reference(tracks):
    """Independent reference: order by (absolute tick, track index, index in track)."""
    evs = []
    longest = 0
    for ti, tr in enumerate(tracks):
        now = 0
        for i, (k, eot, time) in enumerate(tr):
            now += time
            if not eot:
                evs.append((now, ti, i, k))
        longest = max(longest, now)
    evs.sort()
    out = []
    now = 0
    for (t, ti, i, k) in evs:
        out.append((k, 0, t - now))
        now = t
    out.append((0, 1, longest - now))
    return out


def impl_case(c):
    import mido
    tracks, mode = c
    alias = '+alias' in mode
    frozen = '+frozen' in mode
    mode = mode.split('+')[0]
    try:
        objs = build(tracks, alias)
    except Exception as e:      # noqa: BLE001
        return 'err ' + type(e).__name__, f'building the input tracks (legal messages) raised {type(e).__name__}: {e}'
    if frozen:
        # immutable (hashable) messages are legal track contents: they must come through a merge untouched as well
        from mido.frozen import freeze_message
        objs = [mido.MidiTrack(freeze_message(m) for m in t) for t in objs]
    before = copy.deepcopy(objs)
    snap = [[(id(m), type(m), dict(vars(m)), hash(m) if frozen else 0) for m in t] for t in objs]

    def merge():
        if mode == 'file':
            return mido.MidiFile(tracks=objs).merged_track
        if len(objs) % 3 == 2:
            # any iterable of tracks (a generator here), each track any iterable of messages (a tuple here)
            return mido.merge_tracks((tuple(t) for t in objs), skip_checks=(mode == 'skip'))
        if len(objs) % 3 == 1 and sum(len(t) for t in objs) % 2 == 1:
            # each track a one-shot iterable (a generator, iter(), filter()): every track is read once, from start to end
            its = [((m for m in t) if i % 3 == 0 else (iter(list(t)) if i % 3 == 1 else filter(None, list(t)))) for i, t in enumerate(objs)]
            return mido.merge_tracks(its, skip_checks=(mode == 'skip'))
        return mido.merge_tracks(objs, skip_checks=(mode == 'skip'))
    try:
        res = merge()
    except Exception as e:
        return 'err ' + type(e).__name__, f'merge_tracks raised {type(e).__name__}: {e}'
    got = [(ident(m), 1 if m.type == 'end_of_track' else 0, m.time) for m in res]
    line = ' '.join('%d:%d:%d' % g for g in got)
    fail = None
    ref = reference(tracks)
    if got != ref:
        fail = f'merged track {got} differs from the reference {ref}'
    elif not isinstance(res, mido.MidiTrack):
        fail = 'result is not a MidiTrack'
    elif [list(t) for t in objs] != [list(t) for t in before] or any(
            vars(a) != vars(b) for ta, tb in zip(objs, before) for a, b in zip(ta, tb)):
        fail = 'input tracks or messages were modified'
    elif snap != [[(id(m), type(m), dict(vars(m)), hash(m) if frozen else 0) for m in t] for t in objs]:
        fail = 'input messages were modified (identity, class, attribute values or hash of an input message changed)'
    if fail is None and not frozen:
        # the caller may do what it likes with the result (pad the final end_of_track, shift events): later merges of the
        # same, unchanged input must not be affected
        try:
            for m in res:
                m.time = m.time + 1920
            again = [(ident(m), 1 if m.type == 'end_of_track' else 0, m.time) for m in merge()]
            empty = [(ident(m), 1 if m.type == 'end_of_track' else 0, m.time) for m in mido.merge_tracks([])]
            if again != ref:
                fail = f'after the caller changed the times of an earlier result, merging the same tracks gives {again} instead of {ref}'
            elif empty != [(0, 1, 0)]:
                fail = f'after the caller changed the times of an earlier result, merge_tracks([]) gives {empty}'
        except Exception as e:
            fail = f'second merge raised {type(e).__name__}: {e}'
    return line, fail


def _chunk(cs):
    return [impl_case(c) for c in cs]


def gen(ck):
    rng = ck.rng
    thorough = ck.tier == 'thorough'
    cases = []
    kinds = [(eot, d) for eot in (0, 1) for d in (0, 1)]
    single = [list(t) for n in range(0, 4) for t in itertools.product(kinds, repeat=n)]
    short = [t for t in single if len(t) <= 2]

    def number(trs):
        k = 0
        out = []
        for tr in trs:
            o = []
            for (eot, d) in tr:
                k += 1
                o.append((k, eot, d))
            out.append(o)
        return out
    cases.append(([], 'plain'))
    for a in single:
        cases.append((number([a]), 'plain'))
        for b in single:
            cases.append((number([a, b]), 'plain'))
    pool3 = single if thorough else short
    for a in pool3:
        for b in pool3:
            for c in pool3:
                cases.append((number([a, b, c]), 'skip'))
    ck.exhaustive['track lists up to 3x3 (thorough) / 2x3 and 3x2 (quick) over deltas {0,1} x {message, end_of_track}'] = True
    n = 6000 if not thorough else 200000
    for _ in range(n):
        trs = []
        k = 0
        for _t in range(rng.choice([0, 1, 2, 2, 3, 4, 5])):
            tr = []
            for _e in range(rng.randint(0, 12)):
                k += 1
                eot = 1 if rng.random() < 0.15 else 0
                tr.append((k, eot, rng.choice([0, 0, 0, 1, 2, 5, 480])))
            if rng.random() < 0.6:
                k += 1
                tr.append((k, 1, rng.choice([0, 0, 3, 1000])))
            trs.append(tr)
        cases.append((trs, rng.choice(['plain', 'skip', 'file'])))
    # note_on / note_off of ONE note on ONE channel spread over several tracks (retriggers, releases on the same tick)
    for _ in range(1500 if not thorough else 30000):
        trs = []
        v = 0
        for _t in range(rng.choice([2, 2, 3])):
            tr = []
            for _e in range(rng.randint(1, 5)):
                v += 1
                tr.append((300000 + (v % 127) + 1 + (128 if rng.random() < 0.5 else 0), 0, rng.choice([0, 0, 5, 10])))
            trs.append(tr)
        cases.append((trs, rng.choice(['plain', 'skip', 'file'])))
    # file-shaped tracks: sequence_number / smpte_offset / names at tick 0 of every track, behind other tick-0 events of
    # earlier tracks and of their own track
    for _ in range(800 if not thorough else 20000):
        trs = []
        k = 0
        for _t in range(rng.choice([2, 2, 3, 4])):
            tr = []
            for _e in range(rng.randint(1, 5)):
                k += 1
                ident_k = 1400000 + k if rng.random() < 0.6 else k
                tr.append((ident_k, 0, rng.choice([0, 0, 0, 0, 3])))
            trs.append(tr)
        cases.append((trs, rng.choice(['plain', 'skip', 'file'])))
    # EQUAL messages (same values, distinct objects) on the same tick, in one track and across tracks: the tempo map repeated
    # in every track of a type-1 file, doubled notes, the same marker everywhere - each of them is an event of the result
    for _ in range(600 if not thorough else 15000):
        trs = []
        eq = rng.choice([400000 + rng.randint(0, 5), 300000 + rng.randint(1, 120), 3 * rng.randint(1, 50), 1400001 + 2 * rng.randint(0, 9)])
        for _t in range(rng.choice([1, 2, 2, 3])):
            tr = []
            for _e in range(rng.randint(1, 4)):
                tr.append((eq if rng.random() < 0.7 else rng.randint(1, 200), 0, rng.choice([0, 0, 0, 2])))
            trs.append(tr)
        cases.append((trs, rng.choice(['plain', 'skip', 'file'])))
    # very many tracks (the merge must not depend on the depth of the call stack)
    for ntr in ([1200] if not thorough else [500, 1200, 3000]):
        cases.append(([[(i + 1, 0, i % 7)] for i in range(ntr)], 'plain'))
    # the same message object at several positions: repeated patterns (`track * 3`), one object shared between tracks
    for _ in range(1500 if not thorough else 30000):
        trs = []
        k = 0
        shared = (9000 + rng.randint(0, 50), 0, rng.choice([0, 1, 5]))
        for _t in range(rng.choice([1, 2, 2, 3])):
            pat = []
            for _e in range(rng.randint(1, 4)):
                k += 1
                pat.append((k, 0, rng.choice([0, 1, 2, 5, 480])))
            tr = pat * rng.randint(1, 4)
            if rng.random() < 0.5:
                tr.insert(rng.randrange(len(tr) + 1), shared)
            if rng.random() < 0.4:
                k += 1
                tr.append((k, 1, rng.choice([0, 3])))
            trs.append(tr)
        cases.append((trs, rng.choice(['plain', 'skip', 'file']) + '+alias'))
    # the same kinds of track lists holding frozen messages
    for c in list(cases[::9]):
        if sum(len(t) for t in c[0]) <= 60:
            cases.append((c[0], c[1] + '+frozen'))
    return cases


def run(ck):
    ck.prepare_lean()
    ck.run_corpus(oracle)
    cases = gen(ck)
    res = [r for part in pool_map(_chunk, list(chunks(cases, 2000))) for r in part]
    reqs = []
    for (trs, mode), (line, fail) in zip(cases, res):
        nev = sum(len(t) for t in trs)
        ck.note_case(repr(trs) + mode, nontrivial=nev >= 2)
        ck.count('tracks:%d' % len(trs))
        ck.count('events:%d' % min(nev // 5 * 5, 40))
        ck.count('mode:' + mode)
        if '+alias' in mode:
            ck.count('same_object_at_several_positions')
        if fail:
            ck.oracle_fail({'tracks': trs, 'mode': mode}, fail)
        reqs.append('merge ' + ' | '.join(' '.join('%d:%d:%d' % e for e in tr) for tr in trs) if trs else 'merge')
    for c in (cases[50], cases[len(cases) // 2], cases[-1]):
        ck.sample({'tracks': c[0], 'mode': c[1]})
    ck.compare('merge', reqs, [r[0] for r in res], ck.driver.run(reqs))
    envprobe.check(ck, ['merge'])
    return ck.finish(RULE, assumptions=['CPython list.sort is stable (modelled by core List.mergeSort)',
                                        '"inputs left unmodified" is checked by deep comparison only: a pure model cannot exhibit aliasing'])


def oracle(case):
    if 'environment' in case:
        return envprobe.oracle(case)
    trs = [[tuple(e) for e in tr] for tr in case['tracks']]
    return impl_case((trs, case['mode']))[1]


def replay(ck, rp):
    return generic_replay(ck, rp, oracle)
