"""C04 — the parser is total and sound on arbitrary byte streams."""
from .. import parsing
from .. import envprobe
from ..common import chunks, generic_replay, pool_map

RULE = ('byte strings: every string up to length L over a 15-letter alphabet with one representative per byte class '
        '(quick L=4, thorough L=5), plus random streams over all 256 values with P(status) in {0.1,0.3,0.6}, plus streams that leave 1025..20000 messages pending; distinct by '
        'content; non-trivial = contains at least one status byte (everything else is parsed to nothing)')


def _chunk(seqs):
    return [parsing.impl_parse_all(s) for s in seqs]


def _feed_variants(bs):
    """Parser().feed + iteration and byte-wise feeding must agree with parse_all."""
    import mido
    p = mido.Parser()
    p.feed(bs)
    a = parsing.canon_list(list(p))
    p2 = mido.Parser()
    for b in bs:
        p2.feed_byte(b)
    b_ = parsing.canon_list(list(p2))
    # one-shot iterables are documented input as well (generator, iterator, map)
    c = parsing.canon_list(mido.parse_all(iter(list(bs))))
    d = parsing.canon_list(list(mido.Parser(b for b in bs)))
    tk = mido.tokenizer.Tokenizer(map(int, bs))
    e = len(list(tk))
    return a, b_, c, d, e


def variants_fail(s):
    """feed()/feed_byte()/iterator variants against parse_all on the same bytes"""
    try:
        a, b, c, d, e = _feed_variants(s)
    except Exception as ex:
        return f'Parser.feed/feed_byte raised {type(ex).__name__}: {ex}'
    ref = parsing.impl_parse_all(s)[0][3:]
    if not (a == b == ref):
        return f'Parser.feed / feed_byte / parse_all disagree: {a!r} {b!r} {ref!r}'
    if not (c == d == ref) or e != (ref.count(';') + 1 if ref else 0):
        return f'the same bytes as a one-shot iterator / generator / map give {c!r} / {d!r} / {e} tokens, as a list {ref!r}'
    return None


def run(ck):
    ck.prepare_lean()
    ck.run_corpus(oracle)
    L = 4 if ck.tier == 'quick' else 5
    seqs = list(parsing.strings_upto(parsing.CLASS_ALPHABET, L))
    ck.exhaustive[f'strings of length <= {L} over the byte-class alphabet'] = True
    nrand, rlen = (200, 2000) if ck.tier == 'quick' else (2000, 10000)
    for i in range(nrand):
        seqs.append(parsing.random_stream(ck.rng, ck.rng.choice([50, rlen]), [0.1, 0.3, 0.6][i % 3]))
    for _ in range(2000 if ck.tier == 'quick' else 20000):
        seqs.append(parsing.message_stream(ck.rng, ck.rng.randint(1, 12)))
    # streams that leave far more than a thousand messages pending at once (nothing may be dropped)
    for n in ([1025, 1500, 3000] if ck.tier == 'quick' else [1023, 1024, 1025, 2048, 4097, 20000]):
        seqs.append([0xf8] * n)
        seqs.append([ck.rng.choice(parsing.DEFINED_RT) for _ in range(n)])
        seqs.append([0x90, 1, 2] * n)
        seqs.append([0xf0, 0xf8, 0xf7, 0xf6] * n)
    ck.hist['streams_with_more_than_1024_messages'] = 12 if ck.tier == 'quick' else 24
    # very long single messages and very many pending ones: no size is special
    big = 1100000 if ck.tier == 'quick' else 3000000
    seqs.append([0xf0] + [ck.rng.randint(0, 127) for _ in range(big)] + [0xf7, 0xf8])
    seqs.append([0xf8, 0xf0] + [(i * 7) % 128 for i in range(200000)] + [0xfa] * 5 + [1, 2, 0xf7])
    seqs.append([0xf8] * (70000 if ck.tier == 'quick' else 300000))
    res = [r for part in pool_map(_chunk, list(chunks(seqs, 4000))) for r in part]
    reqs, rimpl = [], []
    for s, (line, fail) in zip(seqs, res):
        ck.note_case(bytes(s), nontrivial=any(b >= 0x80 for b in s))
        ck.count('len<=5' if len(s) <= 5 else ('len<=100' if len(s) <= 100 else 'long'))
        ck.count('msgs:%s' % min(line.count(';') + (1 if len(line) > 2 else 0), 5))
        if fail:
            ck.oracle_fail({'bytes': list(s)}, fail)
        if len(s) <= 30000:
            reqs.append('parseall ' + ' '.join(map(str, s)))
            rimpl.append(line)
    for s in (seqs[777], seqs[20000], seqs[-1][:40]):
        ck.sample({'bytes': s})
    model = ck.driver.run(reqs)
    ck.compare('parser', reqs, rimpl, model)     # inputs above 30000 bytes are judged by the oracle only (the model is not built for speed)
    # feed()/feed_byte() variants on a subsample
    sub = seqs[::7][:20000]
    for s in sub:
        ck.evaluations += 1
        f = variants_fail(s)
        if f:
            ck.oracle_fail({'bytes': list(s), 'variants': True}, f)
    # sessions in which an earlier step matters: a feeding call left by an exception after it completed a message, a sysex
    # continued by long bytes chunks, ...: nothing may be raised on valid bytes, nothing invented or lost
    from . import C05 as c05
    sess = c05.special_sessions(ck.rng, 1200 if ck.tier == 'quick' else 12000)
    for h, (lines, fail) in zip(sess, pool_map(c05.run_history, sess, chunksize=200)):
        ck.evaluations += 1
        ck.count('sessions')
        if fail:
            ck.oracle_fail({'session': h}, fail)
    envprobe.check(ck, ['parse', 'parser'])
    return ck.finish(RULE, assumptions=['inputs are integers 0..255 (other items raise TypeError/ValueError by contract)'])


def oracle(case):
    if 'session' in case:
        from . import C05 as c05
        return c05.oracle({'ops': case['session']})
    if 'environment' in case:
        return envprobe.oracle(case)
    if case.get('variants'):
        return variants_fail(case['bytes'])
    return parsing.impl_parse_all(case['bytes'])[1]


def replay(ck, rp):
    return generic_replay(ck, rp, oracle)
