"""C05 — parsing does not depend on how the stream is chunked or consumed."""
from .. import msgs, parsing
from ..common import chunks, exc_name, generic_replay, pool_map

RULE = ('histories on one Parser object: a byte stream (mostly valid concatenated encodings, ~20% garbage) split by a cut set '
        'into feed()/feed_byte() calls, with get_message / pending / iter() / next() calls interleaved; for short streams '
        '(quick <= 8 bytes, thorough <= 13) ALL 2^(n-1) cut sets; otherwise random cut sets; plus ParserQueue histories '
        '(put_bytes / poll / iterpoll). Distinct by the op list; non-trivial = at least two feeding calls or one retrieval')


def run_history(ops):
    """Execute ops on the real Parser / ParserQueue; returns (lines, failure)."""
    import mido
    from mido.backends._parser_queue import ParserQueue
    p = mido.Parser()
    pq = None
    iters = []
    lines = []
    fed = []           # all valid bytes fed so far
    got = []           # canon text of everything retrieved
    clean = True       # no failing feed so far (the oracle's reference only applies then)
    fail = None

    def ref():
        return [msgs.canon_msg(m) for m in mido.parse_all(fed)]
    # (ref() raising inside an op is caught by the op's handler below and reported)

    for op in ops:
        k = op[0]
        try:
            if k == 'feed':
                try:
                    p.feed(op[1])
                    fed.extend(op[1])
                    lines.append('none')
                except (ValueError, TypeError) as e:
                    clean = False
                    lines.append('err ' + exc_name(e))
            elif k == 'feedbyte':
                try:
                    p.feed_byte(op[1])
                    fed.append(op[1])
                    lines.append('none')
                except (ValueError, TypeError) as e:
                    clean = False
                    lines.append('err ' + exc_name(e))
            elif k == 'get':
                m = p.get_message()
                if clean and fail is None:
                    r = ref()
                    if (m is None) != (len(r) - len(got) == 0):
                        fail = f'get_message() returned {m!r} with {len(r) - len(got)} retrievable'
                if m is None:
                    lines.append('none')
                else:
                    got.append(msgs.canon_msg(m))
                    lines.append('msg ' + got[-1])
            elif k == 'pending':
                n = p.pending()
                if n != len(p):
                    fail = fail or 'len(parser) != pending()'
                if clean and fail is None:
                    r = ref()
                    if n != len(r) - len(got):
                        fail = f'pending() = {n} but {len(r) - len(got)} messages can still be retrieved'
                lines.append('count %d' % n)
            elif k == 'iternew':
                iters.append(iter(p))
                lines.append('iter %d' % (len(iters) - 1))
            elif k == 'iternext':
                try:
                    m = next(iters[op[1]])
                    got.append(msgs.canon_msg(m))
                    lines.append('msg ' + got[-1])
                except StopIteration:
                    lines.append('stop')
            elif k == 'pput':
                pq = pq or ParserQueue()
                try:
                    pq.put_bytes(op[1])
                    fed.extend(op[1])
                    lines.append('none')
                except (ValueError, TypeError) as e:
                    clean = False
                    lines.append('err ' + exc_name(e))
            elif k == 'ppoll':
                pq = pq or ParserQueue()
                m = pq.poll()
                if m is None:
                    lines.append('none')
                else:
                    got.append(msgs.canon_msg(m))
                    lines.append('msg ' + got[-1])
            elif k == 'piterpoll':
                pq = pq or ParserQueue()
                ms = list(pq.iterpoll())
                got.extend(msgs.canon_msg(m) for m in ms)
                lines.append('msgs ' + parsing.canon_list(ms))
        except Exception as e:
            lines.append('err ' + exc_name(e))
            fail = fail or f'{k} raised {type(e).__name__}: {e}'
    if clean and fail is None:
        try:
            rest = [msgs.canon_msg(m) for m in p] if pq is None else [msgs.canon_msg(m) for m in pq.iterpoll()]
            r = ref()
            if got + rest != r:
                fail = f'retrieved {got + rest} but parse_all of the same bytes gives {r}'
        except Exception as e:
            fail = f'draining / parse_all raised {type(e).__name__}: {e}'
    return lines, fail


def _chunk(hs):
    return [run_history(h) for h in hs]


def enc_op(op):
    k = op[0]
    if k == 'feed':
        return 'pfeed ' + ' '.join(map(str, op[1]))
    if k == 'feedbyte':
        return 'pfeedbyte %d' % op[1]
    if k == 'iternext':
        return 'piternext %d' % op[1]
    if k == 'pput':
        return 'pput ' + ' '.join(map(str, op[1]))
    return {'get': 'pget', 'pending': 'ppending', 'iternew': 'piternew', 'ppoll': 'ppoll', 'piterpoll': 'piterpoll'}[k]


def history_from_cuts(rng, stream, cuts, retrieval=0.5, bad=0.0):
    ops = []
    niter = 0
    pieces = []
    last = 0
    for c in list(cuts) + [len(stream)]:
        pieces.append(stream[last:c])
        last = c
    for piece in pieces:
        if len(piece) == 1 and rng.random() < 0.5:
            ops.append(('feedbyte', piece[0]))
        else:
            if bad and rng.random() < bad:
                piece = list(piece)
                piece.insert(rng.randrange(len(piece) + 1), rng.choice([-1, 256, 1000]))
            ops.append(('feed', list(piece)))
        while rng.random() < retrieval:
            r = rng.random()
            if r < 0.35:
                ops.append(('get',))
            elif r < 0.6:
                ops.append(('pending',))
            elif r < 0.75 or niter == 0:
                ops.append(('iternew',))
                niter += 1
            else:
                ops.append(('iternext', rng.randrange(niter)))
    return ops


def gen(ck):
    rng = ck.rng
    thorough = ck.tier == 'thorough'
    hs = []
    nmax = 13 if thorough else 8
    nstreams = 24 if thorough else 30
    n_exh = 0
    for i in range(nstreams):
        while True:
            stream = parsing.message_stream(rng, rng.randint(2, 5), garbage=0.2, max_sysex=3)
            if 2 <= len(stream) <= nmax:
                break
        n = len(stream)
        for mask in range(1 << (n - 1)):
            cuts = [j + 1 for j in range(n - 1) if mask >> j & 1]
            hs.append(history_from_cuts(rng, stream, cuts, retrieval=0.3))
            n_exh += 1
    ck.exhaustive[f'all cut sets of {nstreams} streams of <= {nmax} bytes'] = True
    ck.hist['exhaustive_cutset_histories'] = n_exh
    for _ in range(6000 if not thorough else 100000):
        stream = parsing.message_stream(rng, rng.randint(1, 10))
        n = len(stream)
        cuts = sorted(set(rng.randrange(1, n) for _ in range(rng.randint(0, min(8, n - 1))))) if n > 1 else []
        hs.append(history_from_cuts(rng, stream, cuts, retrieval=0.5, bad=0.03))
    for _ in range(1500 if not thorough else 20000):
        stream = parsing.message_stream(rng, rng.randint(1, 8))
        n = len(stream)
        cuts = sorted(set(rng.randrange(1, n) for _ in range(rng.randint(0, min(5, n - 1))))) if n > 1 else []
        ops = []
        last = 0
        for c in cuts + [n]:
            ops.append(('pput', stream[last:c]))
            last = c
            while rng.random() < 0.4:
                ops.append(rng.choice([('ppoll',), ('ppoll',), ('piterpoll',)]))
        hs.append(ops)
    return hs


def run(ck):
    ck.prepare_lean()
    ck.run_corpus(oracle)
    hs = gen(ck)
    res = [r for part in pool_map(_chunk, list(chunks(hs, 2000))) for r in part]
    reqs, impl = [], []
    for h, (lines, fail) in zip(hs, res):
        feeds = sum(1 for o in h if o[0] in ('feed', 'feedbyte', 'pput'))
        retr = sum(1 for o in h if o[0] in ('get', 'iternext', 'ppoll', 'piterpoll', 'pending'))
        ck.note_case(repr(h), nontrivial=feeds >= 2 or retr >= 1)
        ck.count('ops:%d' % min(len(h) // 4 * 4, 24))
        for o in h:
            ck.count('op:' + o[0])
        for l in lines:
            if l.startswith('err'):
                ck.count('impl:' + l)
        if fail:
            ck.oracle_fail({'ops': h}, fail)
        reqs.append('preset')
        impl.append('ok')
        for o, l in zip(h, lines):
            reqs.append(enc_op(o))
            impl.append(l)
    for h in (hs[3], hs[len(hs) // 2], hs[-1]):
        ck.sample({'ops': h})
    ck.compare('parser_ops', reqs, impl, ck.driver.run(reqs))
    return ck.finish(RULE, assumptions=[
        'list aliasing between the tokenizer buffer and queued tokens is invisible to the pure model; only the '
        'correspondence (chunked, interleaved histories on the real objects) sees it'])


def oracle(case):
    ops = [tuple(o) if not isinstance(o, tuple) else o for o in case['ops']]
    return run_history(ops)[1]


def replay(ck, rp):
    return generic_replay(ck, rp, oracle)
