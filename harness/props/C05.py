"""C05 — parsing does not depend on how the stream is chunked or consumed."""
from .. import msgs, parsing
from ..common import chunks, exc_name, generic_replay, pool_map

RULE = ('histories on one Parser object: a byte stream (mostly valid concatenated encodings, ~20% garbage) split by a cut set '
        'into feed()/feed_byte() calls, with get_message / pending / iter() / next() calls interleaved; for short streams '
        '(quick <= 8 bytes, thorough <= 13) ALL 2^(n-1) cut sets; otherwise random cut sets; plus ParserQueue histories '
        '(put_bytes / poll / iterpoll); unit-aligned chunkings (each chunk exactly one complete message, one message cut short, or stray '
        'bytes) handed over as list / bytes / bytearray / tuple / iterator; streams leaving more than 1024 messages pending. Distinct by the op list; non-trivial = at least two feeding calls or one retrieval')


def _as(bs, kind):
    """the same bytes as another container type (the API takes any iterable of ints)"""
    if kind == 'bytes':
        return bytes(bs)
    if kind == 'bytearray':
        return bytearray(bs)
    if kind == 'tuple':
        return tuple(bs)
    if kind == 'iter':
        return iter(list(bs))
    return list(bs)


def unit_stream(rng, n):
    """units: complete messages, messages cut short, stray data bytes, undefined / real-time status bytes"""
    units = []
    for _ in range(n):
        r = rng.random()
        if r < 0.5:
            t, d = msgs.random_message(rng, max_sysex=4)
            units.append(msgs.encode_ref(t, d))
        elif r < 0.7:
            t, d = msgs.random_message(rng, max_sysex=4, types=[x for x in msgs.TYPE_NAMES if x not in msgs.REALTIME and x != 'tune_request'])
            enc = msgs.encode_ref(t, d)
            units.append(enc[:rng.randrange(1, len(enc))])
        elif r < 0.85:
            units.append([rng.randint(0, 127) for _ in range(rng.randint(1, 2))])
        else:
            units.append([rng.choice([0xf4, 0xf5, 0xf7, 0xf8, 0xff, 0xf6])])
    return units


def _session(ops):
    """Execute ops on the real Parser / ParserQueue, pausing after every op; returns (lines, failure)."""
    import mido
    from mido.backends._parser_queue import ParserQueue
    p = mido.Parser()
    pq = None
    iters = []
    lines = []
    fed = []           # all valid bytes fed so far
    deferred = []      # bytes the tokenizer took in during a feeding call that was then left by an exception: Parser.feed
                       # decodes only at the end of a successful call, so their messages show up with the next successful feed
    got = []           # canon text of everything retrieved
    clean = True       # no failing feed so far (the oracle's reference only applies then)
    fail = None

    def ref():
        return [msgs.canon_msg(m) for m in mido.parse_all(fed)]
    # (ref() raising inside an op is caught by the op's handler below and reported)

    for op in ops:
        k = op[0]
        try:
            if k == 'pause':
                import time as _t
                _t.sleep(op[1])              # real time passes between two feeding calls: it must not matter
                lines.append(None)
            elif k == 'feed':
                buf = _as(op[1], op[2] if len(op) > 2 else 'list')
                try:
                    p.feed(buf)
                    fed.extend(deferred + list(op[1]))
                    deferred = []
                    lines.append('none')
                except (ValueError, TypeError) as e:
                    lines.append('err ' + exc_name(e))
                    bad = [i for i, b in enumerate(op[1]) if not (isinstance(b, int) and 0 <= b <= 255)]
                    if not bad and fail is None:
                        fail = f'feed() raised {type(e).__name__} on bytes that are all in 0..255: {e}'
                    if bad and isinstance(e, ValueError):
                        # the items before the refused one were handed over one by one: they count as fed, exactly as
                        # with feed_byte() calls of which the last one raises
                        deferred.extend(op[1][:bad[0]])
                    else:
                        clean = False
                # the buffer belongs to the caller again: a device loop reuses it for the next read
                if isinstance(buf, bytearray):
                    buf[:] = bytes([0x81, 0xf7, 0x7f, 0x00] * len(buf))[:len(buf)]
                elif isinstance(buf, list):
                    buf[:] = [0xf7, 0x90, 0xf0] * 2
            elif k == 'feedgen':
                # a one-shot iterable that fails after handing over its bytes (a device read that times out):
                # its own exception comes out of feed(), the bytes it delivered before count as fed
                class _DeviceTimeout(Exception):
                    pass

                def _g(bs=op[1]):
                    for b in bs:
                        yield b
                    raise _DeviceTimeout('device read timed out')
                try:
                    p.feed(_g())
                    fail = fail or 'feed() swallowed the exception raised by the iterable it was given'
                    lines.append('none')
                except _DeviceTimeout:
                    lines.append('none')
                deferred.extend(op[1])
            elif k == 'feedbyte':
                try:
                    p.feed_byte(op[1])
                    fed.extend(deferred + [op[1]])
                    deferred = []
                    lines.append('none')
                except (ValueError, TypeError) as e:
                    clean = False
                    lines.append('err ' + exc_name(e))
            elif k == 'get':
                m = p.get_message()
                if clean and fail is None:
                    r = ref()
                    if (m is None) != (len(r) - len(got) == 0):
                        fail = f'get_message() returned {m!r} with {len(r) - len(got)} retrievable'
                if m is None:
                    lines.append('none')
                else:
                    got.append(msgs.canon_msg(m))
                    lines.append('msg ' + got[-1])
            elif k == 'pending':
                n = p.pending()
                if n != len(p):
                    fail = fail or 'len(parser) != pending()'
                if clean and fail is None:
                    r = ref()
                    if n != len(r) - len(got):
                        fail = f'pending() = {n} but {len(r) - len(got)} messages can still be retrieved'
                lines.append('count %d' % n)
            elif k == 'iternew':
                iters.append(iter(p))
                lines.append('iter %d' % (len(iters) - 1))
            elif k == 'iternext':
                try:
                    m = next(iters[op[1]])
                    got.append(msgs.canon_msg(m))
                    lines.append('msg ' + got[-1])
                except StopIteration:
                    lines.append('stop')
            elif k == 'pput':
                pq = pq or ParserQueue()
                try:
                    pq.put_bytes(_as(op[1], op[2] if len(op) > 2 else 'list'))
                    fed.extend(op[1])
                    lines.append('none')
                except (ValueError, TypeError) as e:
                    clean = False
                    lines.append('err ' + exc_name(e))
                    if all(isinstance(b, int) and 0 <= b <= 255 for b in op[1]) and fail is None:
                        fail = f'put_bytes() raised {type(e).__name__} on bytes that are all in 0..255: {e}'
            elif k == 'ppoll':
                pq = pq or ParserQueue()
                m = pq.poll()
                if m is None:
                    lines.append('none')
                else:
                    got.append(msgs.canon_msg(m))
                    lines.append('msg ' + got[-1])
            elif k == 'piterpoll':
                pq = pq or ParserQueue()
                ms = list(pq.iterpoll())
                got.extend(msgs.canon_msg(m) for m in ms)
                lines.append('msgs ' + parsing.canon_list(ms))
        except Exception as e:
            lines.append('err ' + exc_name(e))
            fail = fail or f'{k} raised {type(e).__name__}: {e}'
        yield
    if clean and fail is None:
        try:
            rest = [msgs.canon_msg(m) for m in p] if pq is None else [msgs.canon_msg(m) for m in pq.iterpoll()]
            r = ref()
            nrt = sum(1 for b in fed if b in parsing.DEFINED_RT)
            have_rt = sum(1 for x in got + rest if x.split(' ')[0] in msgs.REALTIME)
            if got + rest != r:
                fail = f'retrieved {got + rest} but parse_all of the same bytes gives {r}'
            elif have_rt != nrt:
                fail = f'{nrt} real-time bytes were fed but {have_rt} real-time messages were handed out (retrieved + drained)'
        except Exception as e:
            fail = f'draining / parse_all raised {type(e).__name__}: {e}'
    return lines, fail


def _drive(gen):
    try:
        while True:
            next(gen)
    except StopIteration as st:
        return st.value


def run_history(ops):
    if ops and ops[0] in ('PAIR', 'COPY', 'REENT', 'NEST', 'LONG', 'OWN', 'GENSYX'):
        # the special sessions call the implementation in several places; whatever it raises there is a verdict about the
        # implementation (feeding bytes never raises), never a crash of the check
        try:
            return _run_special(ops)
        except Exception as e:      # noqa: BLE001
            return [], f'a session of kind {ops[0]} raised {type(e).__name__}: {e} (feeding valid bytes and retrieving never raises)'
    return _drive(_session(ops))


def _run_special(ops):
    if ops and ops[0] == 'PAIR':
        return run_pair(ops[1], ops[2], ops[3])
    if ops and ops[0] == 'COPY':
        return run_copy_session(ops)
    if ops and ops[0] == 'REENT':
        return run_reentrant_session(ops)
    if ops and ops[0] == 'NEST':
        return run_nested_retrieval(ops)
    if ops and ops[0] == 'LONG':
        return run_long_run(ops)
    if ops and ops[0] == 'OWN':
        return run_results_owned(ops)
    if ops and ops[0] == 'GENSYX':
        return run_generator_after_sysex_start(ops)
    return _drive(_session(ops))


def run_results_owned(case):
    """['OWN', stream]: the messages a parser hands out belong to the caller.  They are changed (time stamped, an attribute
    overwritten), and then the same bytes are parsed again, by the same parser and by a new one: the result is that of the
    bytes, not of what the caller did to earlier results."""
    import mido
    _, stream = case

    def _cm(m):
        return msgs.canon_msg(m) + ' time=%r' % (m.time,)
    want = [_cm(m) for m in mido.parse_all(list(stream))] if False else None
    try:
        a = mido.Parser()
        a.feed(list(stream))
        first = list(a)
        want = [_cm(m) for m in first]
        for m in first:
            m.time = 4711
            for name in ('note', 'value', 'program', 'pitch', 'pos', 'song', 'frame_value', 'control'):
                if hasattr(m, name):
                    setattr(m, name, 1)
            if m.type == 'sysex':
                m.data = (1, 2, 3)
        a.feed(list(stream))
        again = [_cm(m) for m in a]
        b = mido.Parser()
        for x in stream:
            b.feed_byte(x)
        other = [_cm(m) for m in b]
        alls = [_cm(m) for m in mido.parse_all(bytes(stream))]
        dec = [_cm(mido.Message.from_bytes(m.bytes())) for m in mido.parse_all(list(stream))]
        dec0 = [_cm(m) for m in mido.parse_all(list(stream))]
    except Exception as e:
        return [], f'parsing the same bytes again after the caller changed the earlier results raised {type(e).__name__}: {e}'
    for how, got in (('the same parser', again), ('a new parser', other), ('parse_all', alls), ('Message.from_bytes', dec)):
        if got != (want if how != 'Message.from_bytes' else dec0) or got != want:
            return [], (f'after the caller stamped and edited the messages parsed from {list(stream)[:24]}, parsing the same bytes '
                        f'again with {how} gives {got[:6]} instead of {want[:6]}')
    return [], None


def run_generator_after_sysex_start(case):
    """['GENSYX', head, chunk]: a message (a sysex) is opened by one call; the next chunk comes as a one-shot iterable (a
    generator, iter(), map()): the result is that of the bytes fed as a list."""
    import mido
    _, head, chunk, how = case
    want = [msgs.canon_msg(m) for m in mido.parse_all(list(head) + list(chunk))]
    try:
        p = mido.Parser()
        p.feed(list(head))
        if how == 'gen':
            p.feed(x for x in chunk)
        elif how == 'iter':
            p.feed(iter(list(chunk)))
        else:
            p.feed(map(int, list(chunk)))
        got = [msgs.canon_msg(m) for m in p]
    except Exception as e:
        return [], f'a chunk handed over as a one-shot iterable after {list(head)} raised {type(e).__name__}: {e}'
    if got != want:
        return [], (f'after feed({list(head)}), the chunk {list(chunk)[:24]} handed over as a one-shot iterable ({how}) gives {got[:6]}, '
                    f'as a list {want[:6]}')
    return [], None


def run_pair(ops_a, ops_b, order):
    """Two independent parsers used alternately (order: a string of 'a'/'b'): each must behave as if it were alone."""
    ga, gb = _session(ops_a), _session(ops_b)
    done = {}
    for who in order:
        g = ga if who == 'a' else gb
        if who in done:
            continue
        try:
            next(g)
        except StopIteration as st:
            done[who] = st.value
    for who, g in (('a', ga), ('b', gb)):
        if who not in done:
            done[who] = _drive(g)
    (la, fa), (lb, fb) = done['a'], done['b']
    fail = None
    if fa:
        fail = 'parser A, used alternately with an independent parser B: ' + fa
    elif fb:
        fail = 'parser B, used alternately with an independent parser A: ' + fb
    return (la, lb), fail


def _chunk(hs):
    return [run_history(h) for h in hs]


def enc_op(op):
    k = op[0]
    if k == 'pause':
        return None
    if k in ('feed', 'feedgen'):
        return 'pfeed ' + ' '.join(map(str, op[1]))
    if k == 'feedbyte':
        return 'pfeedbyte %d' % op[1]
    if k == 'iternext':
        return 'piternext %d' % op[1]
    if k == 'pput':
        return 'pput ' + ' '.join(map(str, op[1]))
    return {'get': 'pget', 'pending': 'ppending', 'iternew': 'piternew', 'ppoll': 'ppoll', 'piterpoll': 'piterpoll'}[k]


def history_from_cuts(rng, stream, cuts, retrieval=0.5, bad=0.0):
    ops = []
    niter = 0
    pieces = []
    last = 0
    for c in list(cuts) + [len(stream)]:
        pieces.append(stream[last:c])
        last = c
    for piece in pieces:
        if len(piece) == 1 and rng.random() < 0.5:
            ops.append(('feedbyte', piece[0]))
        else:
            if bad and rng.random() < bad:
                piece = list(piece)
                piece.insert(rng.randrange(len(piece) + 1), rng.choice([-1, 256, 1000]))
            ops.append(('feed', list(piece)))
        while rng.random() < retrieval:
            r = rng.random()
            if r < 0.35:
                ops.append(('get',))
            elif r < 0.6:
                ops.append(('pending',))
            elif r < 0.75 or niter == 0:
                ops.append(('iternew',))
                niter += 1
            else:
                ops.append(('iternext', rng.randrange(niter)))
    return ops


def run_copy_session(case):
    """['COPY', how, head, tail_for_copy, tail_for_original]: a parser that has been fed `head` (possibly cut inside a message)
    is copied with copy.deepcopy or a pickle round trip; the copy is fed one tail, the original another.  Each of the two must
    hand out exactly the messages of the bytes IT was fed."""
    import copy
    import pickle
    import mido
    _, how, head, tail_c, tail_o = case
    try:
        p = mido.Parser()
        p.feed(head)
        q = copy.deepcopy(p) if how == 'deepcopy' else pickle.loads(pickle.dumps(p, 2 if how == 'pickle2' else pickle.HIGHEST_PROTOCOL))
        for b in tail_c:
            q.feed_byte(b)
        p.feed(tail_o)
        got_q = [msgs.canon_msg(m) for m in q]
        got_p = [msgs.canon_msg(m) for m in p]
        want_q = [msgs.canon_msg(m) for m in mido.parse_all(list(head) + list(tail_c))]
        want_p = [msgs.canon_msg(m) for m in mido.parse_all(list(head) + list(tail_o))]
    except Exception as e:
        return [], f'copying a parser ({how}) and using both raised {type(e).__name__}: {e}'
    if got_q != want_q:
        return [], (f'a parser fed {head} was copied ({how}) and the copy fed {tail_c}: the copy hands out {got_q}, the bytes it was '
                    f'fed parse to {want_q}')
    if got_p != want_p:
        return [], (f'a parser fed {head} was copied ({how}), the copy fed {tail_c} and the original {tail_o}: the original hands '
                    f'out {got_p}, the bytes it was fed parse to {want_p}')
    return [], None


def run_reentrant_session(case):
    """['REENT', before, inner, after]: feed() is given a generator; while it is being consumed (after `before`), the generator
    itself feeds `inner` to the same parser, then goes on with `after`.  The parser has then received before+inner+after, in
    that order."""
    import mido
    _, before, inner, after = case
    p = mido.Parser()

    def gen():
        for b in before:
            yield b
        p.feed(inner)
        for b in after:
            yield b
    try:
        p.feed(gen())
        got = [msgs.canon_msg(m) for m in p]
        want = [msgs.canon_msg(m) for m in mido.parse_all(list(before) + list(inner) + list(after))]
    except Exception as e:
        return [], f'feeding a generator that feeds the same parser raised {type(e).__name__}: {e}'
    if sorted(got) != sorted(want) or [g for g in got if g.split(' ')[0] not in msgs.REALTIME] != [w for w in want if w.split(' ')[0] not in msgs.REALTIME]:
        return [], (f'the parser received {before} + {inner} (fed by the generator itself, to the same parser) + {after}; it hands '
                    f'out {got}, those bytes in that order parse to {want}')
    return [], None


def run_nested_retrieval(case):
    """['NEST', stream, k]: inside `for msg in parser` the consumer also calls get_message() (a look-ahead) every k-th round and
    leaves the loop early once; every message is handed out exactly once, in order."""
    import mido
    _, stream, k = case
    p = mido.Parser()
    p.feed(stream)
    want = [msgs.canon_msg(m) for m in mido.parse_all(stream)]
    got = []
    try:
        rounds = 0
        for m in p:
            got.append(msgs.canon_msg(m))
            rounds += 1
            if rounds % k == 0:
                n = p.pending()
                x = p.get_message()
                if x is not None:
                    got.append(msgs.canon_msg(x))
                if n != len(want) - len(got) + (1 if x is not None else 0):
                    return [], f'pending() inside the loop said {n} with {len(want) - len(got) + (1 if x is not None else 0)} left'
            if rounds == 3:
                break
        for m in p:
            got.append(msgs.canon_msg(m))
    except Exception as e:
        return [], f'retrieval nested in an iteration raised {type(e).__name__}: {e}'
    if got != want:
        return [], f'iteration with a nested get_message() and an early break handed out {got}, the stream holds {want}'
    return [], None


def run_long_run(case):
    """['LONG', notes, payload, every]: ONE parser takes `notes` three-byte messages, then a sysex of `payload` bytes with a
    real-time byte after every `every` payload bytes — about 64..70 KiB of data bytes through one object, the sysex lying
    across any power-of-two byte count.  Everything comes out, intact."""
    import mido
    _, notes, payload, every = case
    p = mido.Parser()
    stream = [0x90, 1, 2] * notes
    body = []
    for i in range(payload):
        body.append((i * 7) % 128)
        if i % every == every - 1:
            body.append(0xf8)
    stream += [0xf0] + body + [0xf7, 0x80, 3, 4]
    try:
        for i in range(0, len(stream), 997):
            p.feed(bytes(stream[i:i + 997]))
        got = list(p)
    except Exception as e:
        return [], f'a long run through one parser raised {type(e).__name__}: {e}'
    want_sys = tuple((i * 7) % 128 for i in range(payload))
    sysex = [m for m in got if m.type == 'sysex']
    clocks = sum(1 for m in got if m.type == 'clock')
    if len(got) != notes + 1 + payload // every + 1 or len(sysex) != 1 or tuple(sysex[0].data) != want_sys or clocks != payload // every:
        have = len(sysex[0].data) if sysex else None
        return [], (f'after {notes} note messages through the same parser, a sysex of {payload} bytes with a clock byte every {every} bytes came '
                    f'out as {len(got)} messages, sysex payload length {have}, {clocks} clocks (expected {notes + 2 + payload // every} messages, '
                    f'payload {payload}, {payload // every} clocks)')
    return [], None


def special_sessions(rng, n):
    """Sessions built for mechanisms that only show after a particular earlier step (shared by C04, C05, C06):
    a feeding call that is left by an exception (a refused item, an iterable that fails) after it completed a message, then
    more bytes; a sysex opened in one call and continued by long bytes/bytearray chunks (pure payload, with real-time bytes,
    or with another status byte that aborts it); a message cut short, then a chunk that is exactly one complete channel
    message, then stray data bytes."""
    hs = []
    chan = [t for t in msgs.TYPE_NAMES if t in ('note_on', 'note_off', 'control_change', 'program_change', 'pitchwheel', 'polytouch', 'aftertouch')]
    for notes in ([31500, 32000, 32500, 32700] if n < 5000 else [15800, 16300, 31000, 31500, 32000, 32500, 32700, 65000, 65400]):
        hs.append(['LONG', notes, 3000, 100])
    for i in range(n // 8):
        # a parser copied while a message is open (deepcopy / pickle), both used afterwards
        t, d = msgs.random_message(rng, max_sysex=5, types=[x for x in msgs.TYPE_NAMES if x not in msgs.REALTIME and x != 'tune_request'])
        enc = msgs.encode_ref(t, d)
        cut = rng.randrange(1, len(enc))
        pre = msgs.encode_ref(*msgs.random_message(rng, max_sysex=2)) if rng.random() < 0.5 else []
        rt = [rng.choice(parsing.DEFINED_RT)] if rng.random() < 0.5 else []
        tail_c = rt + enc[cut:] + msgs.encode_ref(*msgs.random_message(rng, max_sysex=2))
        tail_o = [rng.choice(parsing.DEFINED_RT)] + (enc[cut:] if rng.random() < 0.5 else [0x90, 1, 2])
        hs.append(['COPY', rng.choice(['deepcopy', 'pickle', 'pickle2']), pre + enc[:cut], tail_c, tail_o])
        # a generator that feeds the same parser while feed() consumes it
        t2, d2 = msgs.random_message(rng, max_sysex=3, types=chan)
        e2 = msgs.encode_ref(t2, d2)
        c2 = rng.randrange(1, len(e2))
        inner = msgs.encode_ref(*msgs.random_message(rng, max_sysex=2, types=chan + ['sysex']))
        hs.append(['REENT', e2[:c2], inner, e2[c2:] + ([rng.randint(0, 127)] if rng.random() < 0.5 else [])])
        # retrieval nested in an iteration
        stream = [b for _ in range(rng.randint(4, 8)) for b in msgs.encode_ref(*msgs.random_message(rng, max_sysex=2))]
        hs.append(['NEST', stream, rng.choice([1, 2])])
        # results belong to the caller; a one-shot iterable after a message has been opened by an earlier call
        own = [b for _ in range(rng.randint(2, 5)) for b in msgs.encode_ref(*msgs.random_message(rng, max_sysex=3))]
        own += [rng.choice(list(parsing.DEFINED_RT) + [0xf6])]
        hs.append(['OWN', own])
        t3, d3 = msgs.random_message(rng, max_sysex=4, types=[x for x in msgs.TYPE_NAMES if x not in msgs.REALTIME and x != 'tune_request'])
        e3 = msgs.encode_ref(t3, d3) if rng.random() < 0.4 else [0xf0] + [rng.randint(0, 127) for _ in range(rng.randint(0, 4))] + [0xf7]
        c3 = rng.randrange(1, len(e3))
        rest = e3[c3:]
        if rng.random() < 0.5:
            rest = rest[:1] + [rng.choice(parsing.DEFINED_RT)] + rest[1:]
        rest = rest + msgs.encode_ref(*msgs.random_message(rng, max_sysex=2))
        hs.append(['GENSYX', e3[:c3], rest, rng.choice(['gen', 'iter', 'map'])])
    for i in range(n):
        ops = []
        r = i % 4
        if r == 0:
            # fault after a completed message, then the rest
            t, d = msgs.random_message(rng, max_sysex=3, types=chan)
            enc = msgs.encode_ref(t, d)
            head = [] if rng.random() < 0.5 else [rng.randint(0, 127)]
            if rng.random() < 0.5:
                ops.append(('feedgen', head + enc + ([enc[0]] if rng.random() < 0.3 else [])))
            else:
                ops.append(('feed', head + enc + [rng.choice([256, -1, 1000])] + [1, 2], rng.choice(['list', 'tuple', 'iter'])))
            ops.append(('feed', [rng.randint(0, 127) for _ in range(rng.randint(1, 3))], rng.choice(['list', 'bytes'])))
            ops.append(('pending',))
            t2, d2 = msgs.random_message(rng, max_sysex=3)
            ops.append(('feed', msgs.encode_ref(t2, d2), 'list'))
            ops.append(('pending',)); ops.append(('get',)); ops.append(('get',))
        elif r == 1:
            # a sysex continued by long chunks
            ops.append(('feed', [0xf0] + [rng.randint(0, 127) for _ in range(rng.randint(0, 3))], rng.choice(['list', 'bytes'])))
            for _ in range(rng.randint(1, 3)):
                ln = rng.choice([31, 32, 33, 40, 64, 100])
                chunk = [rng.randint(0, 127) for _ in range(ln)]
                v = rng.random()
                if v < 0.35:
                    pos = rng.randrange(ln)
                    t, d = msgs.random_message(rng, max_sysex=2, types=chan)
                    chunk[pos:pos] = msgs.encode_ref(t, d)          # another status byte: the sysex is abandoned
                elif v < 0.55:
                    chunk[rng.randrange(ln)] = rng.choice(parsing.DEFINED_RT)
                elif v < 0.7:
                    chunk[rng.randrange(ln)] = 0xf7
                ops.append(('feed', chunk, rng.choice(['bytes', 'bytearray', 'bytearray', 'list'])))
                if rng.random() < 0.5:
                    ops.append(('pending',))
            ops.append(('feed', [0xf7], 'list'))
            ops.append(('pending',)); ops.append(('get',))
        elif r == 2:
            # cut short, then exactly one complete channel message in one chunk, then stray data bytes
            t, d = msgs.random_message(rng, max_sysex=3, types=[x for x in msgs.TYPE_NAMES if x not in msgs.REALTIME and x != 'tune_request'])
            enc = msgs.encode_ref(t, d)
            ops.append(('feed', enc[:rng.randrange(1, len(enc))], rng.choice(['list', 'bytes'])))
            t2, d2 = msgs.random_message(rng, types=chan)
            ops.append(('feed', msgs.encode_ref(t2, d2), rng.choice(['bytes', 'bytearray', 'list', 'tuple'])))
            ops.append(('feed', [rng.randint(0, 127) for _ in range(rng.randint(1, 3))] + ([0xf7] if rng.random() < 0.4 else []), rng.choice(['list', 'bytes'])))
            ops.append(('pending',)); ops.append(('get',)); ops.append(('get',))
        else:
            # two parsers fed alternately byte by byte while both are inside a message
            pair = []
            for _p in range(2):
                o = []
                for _m in range(rng.randint(1, 3)):
                    t, d = msgs.random_message(rng, max_sysex=3, types=[x for x in msgs.TYPE_NAMES if x not in msgs.REALTIME and x != 'tune_request'])
                    for b in msgs.encode_ref(t, d):
                        o.append(('feedbyte', b) if rng.random() < 0.6 else ('feed', [b], rng.choice(['list', 'bytes'])))
                o.append(('pending',))
                pair.append(o)
            order = ''.join('ab'[j % 2] for j in range(len(pair[0]) + len(pair[1]) + 2))
            hs.append(['PAIR', pair[0], pair[1], order])
            continue
        hs.append(ops)
    return hs


def gen(ck):
    rng = ck.rng
    thorough = ck.tier == 'thorough'
    hs = []
    nmax = 13 if thorough else 8
    nstreams = 24 if thorough else 30
    n_exh = 0
    for i in range(nstreams):
        while True:
            stream = parsing.message_stream(rng, rng.randint(2, 5), garbage=0.2, max_sysex=3)
            if 2 <= len(stream) <= nmax:
                break
        n = len(stream)
        for mask in range(1 << (n - 1)):
            cuts = [j + 1 for j in range(n - 1) if mask >> j & 1]
            hs.append(history_from_cuts(rng, stream, cuts, retrieval=0.3))
            n_exh += 1
    ck.exhaustive[f'all cut sets of {nstreams} streams of <= {nmax} bytes'] = True
    ck.hist['exhaustive_cutset_histories'] = n_exh
    for _ in range(6000 if not thorough else 100000):
        stream = parsing.message_stream(rng, rng.randint(1, 10))
        n = len(stream)
        cuts = sorted(set(rng.randrange(1, n) for _ in range(rng.randint(0, min(8, n - 1))))) if n > 1 else []
        hs.append(history_from_cuts(rng, stream, cuts, retrieval=0.5, bad=0.03))
    # unit-aligned feeding: every chunk is exactly one complete message / one message cut short / stray bytes, through
    # feed(), feed_byte() and put_bytes(), with the bytes handed over as list, bytes, bytearray, tuple or iterator
    kinds = ['list', 'bytes', 'bytearray', 'tuple', 'iter']
    for _ in range(4000 if not thorough else 60000):
        units = unit_stream(rng, rng.randint(2, 7))
        queue = rng.random() < 0.35
        ops = []
        niter = 0
        for u in units:
            if rng.random() < 0.3 and len(units) > 1:
                # glue with the next piece sometimes: chunks that hold one and a half messages etc.
                u = u + units[rng.randrange(len(units))][:rng.randint(0, 2)]
            ops.append(('pput' if queue else 'feed', list(u), rng.choice(kinds)))
            while rng.random() < 0.3:
                if queue:
                    ops.append(rng.choice([('ppoll',), ('piterpoll',)]))
                else:
                    r = rng.random()
                    if r < 0.5:
                        ops.append(('get',))
                    elif r < 0.8:
                        ops.append(('pending',))
                    else:
                        ops.append(('iternew',)); niter += 1
        hs.append(ops)
    # two independent parsers (or parser queues) used alternately: no state may be shared between objects
    for _ in range(1500 if not thorough else 20000):
        pair = []
        for _p in range(2):
            units = unit_stream(rng, rng.randint(1, 5))
            queue = rng.random() < 0.3
            ops = []
            for u in units:
                ops.append(('pput' if queue else 'feed', list(u), rng.choice(kinds)))
                if rng.random() < 0.4:
                    ops.append(rng.choice([('ppoll',), ('piterpoll',)]) if queue else rng.choice([('get',), ('pending',)]))
            pair.append(ops)
        order = ''.join(rng.choice('ab') for _ in range(len(pair[0]) + len(pair[1]) + 2))
        hs.append(['PAIR', pair[0], pair[1], order])
    hs.extend(special_sessions(rng, 2000 if not thorough else 20000))
    # whole random streams in one call as bytes / bytearray (the container type must not matter)
    for _ in range(1500 if not thorough else 20000):
        stream = parsing.random_stream(rng, rng.randint(1, 40), rng.choice([0.2, 0.4]))
        hs.append([('feed', stream, rng.choice(['bytes', 'bytearray', 'tuple'])), ('pending',)])
    # many messages pending at once: nothing may be dropped however long nobody retrieves
    # a real pause (longer than any plausible stale-data timeout) inside a message, through feed() and feed_byte()
    hs.append([('feed', [0x90, 60], 'list'), ('pause', 2.3), ('feed', [64, 0xf0, 1], 'bytes'), ('pause', 1.2), ('feedbyte', 2),
               ('feedbyte', 0xf7), ('pending',), ('get',)])
    hs.append([('pput', [0xe0, 1], 'list'), ('pause', 2.3), ('pput', [2, 0xf0], 'list'), ('pause', 1.1), ('pput', [9, 0xf7], 'bytes'), ('piterpoll',)])
    for n in ([1025, 1500, 70000] if not thorough else [1024, 1025, 2048, 5000, 300000]):
        hs.append([('feed', [0xf8] * n, 'list'), ('pending',), ('get',)])
        hs.append([('feed', [0x90, 1, 2] * n, 'bytes'), ('pending',), ('get',)])
        hs.append([('pput', [0xf8] * n, 'list'), ('ppoll',)])
    for _ in range(1500 if not thorough else 20000):
        stream = parsing.message_stream(rng, rng.randint(1, 8))
        n = len(stream)
        cuts = sorted(set(rng.randrange(1, n) for _ in range(rng.randint(0, min(5, n - 1))))) if n > 1 else []
        ops = []
        last = 0
        for c in cuts + [n]:
            ops.append(('pput', stream[last:c]))
            last = c
            while rng.random() < 0.4:
                ops.append(rng.choice([('ppoll',), ('ppoll',), ('piterpoll',)]))
        hs.append(ops)
    return hs


def run(ck):
    ck.prepare_lean()
    ck.run_corpus(oracle)
    hs = gen(ck)
    res = [r for part in pool_map(_chunk, list(chunks(hs, 2000))) for r in part]
    reqs, impl = [], []
    flat = []
    for h, (lines, fail) in zip(hs, res):
        if h and h[0] == 'PAIR':
            ck.note_case(repr(h), nontrivial=True)
            ck.count('two_parsers_alternately')
            if fail:
                ck.oracle_fail({'ops': h}, fail)
            flat.append((h[1], lines[0]))
            flat.append((h[2], lines[1]))
        elif h and h[0] in ('COPY', 'REENT', 'NEST', 'LONG', 'OWN', 'GENSYX'):
            ck.note_case(repr(h), nontrivial=True)
            ck.count({'COPY': 'parser_copied_mid_message', 'REENT': 'generator_feeding_the_same_parser', 'NEST': 'retrieval_nested_in_iteration', 'LONG': 'long_run_through_one_parser', 'OWN': 'results_belong_to_the_caller', 'GENSYX': 'one_shot_iterable_after_an_open_message'}[h[0]])
            if fail:
                ck.oracle_fail({'ops': h}, fail)
        else:
            flat.append((h, lines))
    for h, (lines, fail) in zip(hs, res):
        if h and h[0] in ('PAIR', 'COPY', 'REENT', 'NEST', 'LONG', 'OWN', 'GENSYX'):
            continue
        feeds = sum(1 for o in h if o[0] in ('feed', 'feedbyte', 'pput'))
        retr = sum(1 for o in h if o[0] in ('get', 'iternext', 'ppoll', 'piterpoll', 'pending'))
        ck.note_case(repr(h), nontrivial=feeds >= 2 or retr >= 1)
        ck.count('ops:%d' % min(len(h) // 4 * 4, 24))
        for o in h:
            ck.count('op:' + o[0])
        for l in lines:
            if l is not None and l.startswith('err'):
                ck.count('impl:' + l)
        if fail:
            ck.oracle_fail({'ops': h}, fail)
    for h, lines in flat:
        if sum(len(o[1]) for o in h if o[0] in ('feed', 'pput')) > 30000:
            continue            # very long histories: oracle only (the model is not built for speed)
        reqs.append('preset')
        impl.append('ok')
        for o, l in zip(h, lines):
            if enc_op(o) is None:
                continue
            reqs.append(enc_op(o))
            impl.append(l)
    for h in (hs[3], hs[len(hs) // 2], hs[-1]):
        ck.sample({'ops': h})
    ck.compare('parser_ops', reqs, impl, ck.driver.run(reqs))
    return ck.finish(RULE, assumptions=[
        'list aliasing between the tokenizer buffer and queued tokens is invisible to the pure model; only the '
        'correspondence (chunked, interleaved histories on the real objects) sees it'])


def oracle(case):
    ops = case['ops']
    if ops and ops[0] in ('COPY', 'REENT', 'NEST', 'LONG', 'OWN', 'GENSYX'):
        return run_history(ops)[1]
    if ops and ops[0] == 'PAIR':
        return run_pair([tuple(o) for o in ops[1]], [tuple(o) for o in ops[2]], ops[3])[1]
    ops = [tuple(o) if not isinstance(o, tuple) else o for o in ops]
    return run_history(ops)[1]


def replay(ck, rp):
    return generic_replay(ck, rp, oracle)
