"""C09 — meta message codec accepts and preserves every documented value."""
import io

from .. import metas
from ..common import chunks, exc_name, generic_replay, pool_map

RULE = ('meta messages: exhaustively the finite attribute domains (all 256 power-of-two denominators and their +-1 '
        'neighbours, 30 keys, sequence numbers (quick: 2 k sample + limits; thorough: all 65 536), 256 channel/port values, '
        '4 frame rates x limits of hours/minutes/seconds/frames/sub_frames), tempo limits + random, text/data payload lengths '
        '{0,1,127,128,129,16383,16384} (thorough also 10^6), values one step outside every limit and of every wrong kind '
        '(float, str, None, list, tuple, bytes). Distinct by (type, kwargs); all non-trivial')

WRONG = [1.5, 1.0, 'x', '', None, [1], (1,), b'\x01', -1, 2 ** 70, True]


def file_with_event(event_bytes):
    body = [0] + list(event_bytes) + [0, 0xff, 0x2f, 0]
    n = len(body)
    return bytes([0x4d, 0x54, 0x68, 0x64, 0, 0, 0, 6, 0, 1, 0, 1, 0, 96, 0x4d, 0x54, 0x72, 0x6b,
                  n >> 24 & 255, n >> 16 & 255, n >> 8 & 255, n & 255] + body)


_ABUSED = [0]


def _abuse_helpers(mido, case):
    """The public helpers of mido.midifiles.meta and an UnknownMetaMessage, used the way programs use them before the case
    runs: what they return belongs to the caller (it is extended, decoded in place, cleared), and none of that may change how
    any message encodes afterwards."""
    _ABUSED[0] += 1
    if _ABUSED[0] % 97 != 1:
        return
    from mido.midifiles import meta
    t, kw = case
    lens = {0, 1, 3, 5, 127, 128, 129, 200, 300, 16383, 16384}
    for v in kw.values():
        if isinstance(v, (str, tuple, list, bytes)):
            lens.add(len(v))
            try:
                lens.add(len(v.encode('latin1')) if isinstance(v, str) else len(v))
            except Exception:
                pass
    for n in sorted(lens):
        try:
            enc = meta.encode_variable_int(n)
            meta.decode_variable_int(enc)              # works on its argument in place
            enc2 = meta.encode_variable_int(n)
            enc2 += [1, 2, 3]
            meta.encode_variable_int(n).clear()
            if 0 < n <= 300:
                mido.UnknownMetaMessage(0x0a, list(range(n % 128, n % 128 + 1)) * n).bytes()
        except Exception:
            pass


def impl_case(case):
    """case = (type, kwargs). Returns lines (new, bytes, frombytes) and an oracle failure."""
    import mido
    t, kw = case
    _, attrs = metas.META[t]
    doms = dict(attrs)
    documented = all(k in doms and metas.in_domain(doms[k], v) for k, v in kw.items() if k != 'time')
    known_names = all(k in doms or k == 'time' for k in kw)
    fail = None
    if t in metas.TEXT_TYPES and len(kw) == 1 and len(str(list(kw.values())[0])) % 3 == 0:
        # file operations with another charset that FAIL earlier in the process must not change how a meta message
        # encodes afterwards
        for attempt in (lambda: mido.MidiFile(file=io.BytesIO(b'MThd\0\0\0\6\0\1\0\1\0\x60MTrk\0\0\0\4\0\xff\x01'), charset='utf-8'),
                        lambda: mido.MidiFile(charset='ascii', tracks=[mido.MidiTrack([mido.MetaMessage('text', text='caf\xe9')])]).save(file=io.BytesIO()),
                        lambda: mido.MidiFile(file=io.BytesIO(file_with_event([0xff, 0x01, 0x02, 0xc3, 0x28])), charset='utf-8')):
            try:
                attempt()
            except Exception:
                pass
    _abuse_helpers(mido, case)
    try:
        m = mido.MetaMessage(t, **kw)
    except Exception as e:
        name = exc_name(e)
        if documented and known_names and isinstance(kw.get('time', 0), (int, float)):
            fail = f'documented value rejected: MetaMessage({t!r}, **{kw!r}) raised {type(e).__name__}: {e}'
        elif name not in ('ValueError', 'TypeError'):
            fail = f'MetaMessage({t!r}, **{kw!r}) raised {type(e).__name__} (only ValueError/TypeError are allowed)'
        return ['err ' + name, 'skip', 'skip'], fail
    if not documented:
        fail = f'value outside the documented domain accepted: MetaMessage({t!r}, **{kw!r})'
    line_new = 'ok ' + metas.canon_meta(m)[6:] + ' time=' + metas.val_tok(m.time)
    if fail is None and t in metas.TEXT_TYPES:
        # the same text in a file whose charset is utf-8 (and utf-16-le): written by hand, read by the library
        attr = metas.META[t][1][0][0]
        txt = getattr(m, attr)
        for cs in ('utf-8', 'utf-16-le'):
            try:
                payload = list(txt.encode(cs))
            except UnicodeError:
                continue
            if len(payload) > 5000:
                continue
            ev = [0xff, metas.META[t][0]] + metas.vlq(len(payload)) + payload
            try:
                m4 = mido.MidiFile(file=io.BytesIO(file_with_event(ev)), charset=cs).tracks[0][0]
                if getattr(m4, attr) != txt:
                    fail = f'{t} {txt[:30]!r} encoded in {cs} is read from a {cs} file as {getattr(m4, attr)[:30]!r}'
                    break
            except Exception as e:
                fail = f'reading {t} {txt[:30]!r} from a {cs} file raised {type(e).__name__}: {e}'
                break
    # bytes
    try:
        bs = m.bytes()
    except UnicodeError as e:
        return [line_new, 'err UnicodeError', 'skip'], fail
    except Exception as e:
        return [line_new, 'err ' + exc_name(e), 'skip'], fail or f'bytes() of accepted {m!r} raised {type(e).__name__}: {e}'
    if fail is None:
        try:
            tmp = m.bytes()
            if isinstance(tmp, list):
                tmp[:] = [0]                     # what bytes() returned belongs to the caller
            if list(m.bytes()) != list(bs) or list(mido.MetaMessage(t, **kw).bytes()) != list(bs):
                fail = f'after the caller changed the list returned by bytes(), {m!r} (or an equal message) encodes differently'
        except Exception as e:
            fail = f'second bytes() raised {type(e).__name__}: {e}'
    try:
        line_bytes = 'ok ' + ' '.join(str(int(b)) for b in bs)
    except Exception:
        return [line_new, 'err NonByteItems', 'skip'], fail or f'bytes() of accepted {m!r} holds items that are not bytes: {list(bs)[:20]!r}'
    if fail is None:
        try:
            d = {a: getattr(m, a) for a, _ in attrs}
            ref = metas.payload_ref(t, d)
            want = [0xff, metas.META[t][0]] + metas.vlq(len(ref)) + ref
            if [int(b) for b in bs] != want:
                fail = f'bytes() of {m!r} = {list(bs)[:40]} differ from FF type vlq payload = {want[:40]}'
            elif not all(isinstance(b, int) and 0 <= b <= 255 for b in bs):
                fail = f'bytes() of {m!r} contains a non-byte item'
        except Exception as e:
            fail = f'reference encoding of accepted {m!r} impossible: {type(e).__name__}: {e}'
    # from_bytes and file reading
    try:
        m2 = mido.MetaMessage.from_bytes(bs)
        line_fb = 'ok ' + metas.canon_meta(m2)
        if fail is None and not (m2 == m.copy(time=0) and type(m2) is type(m)):
            fail = f'from_bytes(bytes()) = {m2!r} differs from {m!r}'
    except Exception as e:
        line_fb = 'err ' + exc_name(e)
        fail = fail or f'from_bytes(bytes()) of {m!r} raised {type(e).__name__}: {e}'
    if fail is None and len(bs) <= 70000:
        # the encoded bytes as the other sequences a caller holds them in (what came out of a file or a socket is a bytes
        # object, a stored event a tuple); decoding must not write into what it is handed
        try:
            for how, seq in (('bytes', bytes(bs)), ('tuple', tuple(bs)), ('bytearray', bytearray(bs)), ('list', list(bs))):
                keep = bytes(seq)
                mx = mido.MetaMessage.from_bytes(seq)
                if not (mx == m.copy(time=0)):
                    fail = f'from_bytes of the bytes() of {m!r} handed over as a {how} gives {mx!r}'
                    break
                if bytes(seq) != keep:
                    fail = f'from_bytes changed the {how} it was handed ({list(keep)[:12]} -> {list(seq)[:12]})'
                    break
        except Exception as e:
            fail = f'from_bytes of the bytes() of {m!r} handed over as a {how} raised {type(e).__name__}: {e}'
    if fail is None and len(bs) <= 1000005:
        try:
            mf = mido.MidiFile(file=io.BytesIO(file_with_event(bs)))
            m3 = mf.tracks[0][0]
            if not (m3 == m.copy(time=0)):
                fail = f'reading the bytes of {m!r} from a track gives {m3!r}'
        except Exception as e:
            fail = f'reading the bytes of {m!r} from a track raised {type(e).__name__}: {e}'
    if fail is None and len(bs) <= 5000:
        # the other ways in: from_bytes called on the frozen class / on a frozen instance / on a subclass with its own
        # __setattr__, and a file opened with clip=True (clipping is about channel and sysex data bytes, never meta payloads)
        try:
            from mido.frozen import FrozenMetaMessage, freeze_message

            class Logged(mido.MetaMessage):
                def __setattr__(self, name, value):
                    if name.startswith('x_'):
                        raise AttributeError(name)
                    super().__setattr__(name, value)
            for how, f in (('FrozenMetaMessage.from_bytes', FrozenMetaMessage.from_bytes),
                           ('from_bytes on a frozen instance', freeze_message(m).from_bytes),
                           ('from_bytes on a subclass of MetaMessage', Logged.from_bytes)):
                mx = f(bs)
                if not (mx == m.copy(time=0)):
                    fail = f'{how}(bytes()) = {mx!r} differs from {m!r}'
                    break
            if fail is None:
                mc = mido.MidiFile(file=io.BytesIO(file_with_event(bs)), clip=True).tracks[0][0]
                if not (mc == m.copy(time=0)):
                    fail = f'reading the bytes of {m!r} from a track of a file opened with clip=True gives {mc!r}'
        except Exception as e:
            fail = f'decoding the bytes of {m!r} through a frozen class / a subclass / a clip=True file raised {type(e).__name__}: {e}'
    return [line_new, line_bytes, line_fb], fail


def _chunk(cs):
    return [impl_case(c) for c in cs]


def gen(ck):
    rng = ck.rng
    thorough = ck.tier == 'thorough'
    cases = []
    add = cases.append
    # time signature denominators
    for k in range(256):
        add(('time_signature', {'denominator': 2 ** k}))
        add(('time_signature', {'denominator': 2 ** k + 1}))
        if k > 1:
            add(('time_signature', {'denominator': 2 ** k - 1}))
    for v in [0, -1, -4, 2 ** 256, 3, 6, 12, 2 ** 50 + 1, 2 ** 60 + 2 ** 30] + WRONG:
        add(('time_signature', {'denominator': v}))
    ck.exhaustive['time-signature denominators 2**0..2**255 and neighbours'] = True
    for n in (0, 1, 255, 256, -1):
        add(('time_signature', {'numerator': n, 'denominator': 8}))
        add(('time_signature', {'clocks_per_click': n}))
        add(('time_signature', {'notated_32nd_notes_per_beat': n, 'numerator': 3}))
    for key in metas.KEYS:
        add(('key_signature', {'key': key}))
    ck.exhaustive['30 key signatures'] = True
    for key in ['H', 'c', 'Cm ', '', 'C##', 'Fb', 'B#', 'Dbm', 'G#', 'F\u266fm', 'B\u266d', 'C\u266f', 'E\u266dm', 'f#m', 'BB', 'Am\x00', ' Am', 'A m'] + WRONG:
        add(('key_signature', {'key': key}))
    seqs = range(65536) if thorough else sorted(set([0, 1, 255, 256, 257, 65534, 65535] + [rng.randrange(65536) for _ in range(2000)]))
    for n in seqs:
        add(('sequence_number', {'number': n}))
    ck.exhaustive['sequence numbers 0..65535'] = thorough
    for n in [-1, 65536] + WRONG:
        add(('sequence_number', {'number': n}))
    for n in range(256):
        add(('channel_prefix', {'channel': n}))
        add(('midi_port', {'port': n}))
    ck.exhaustive['channel_prefix / midi_port 0..255'] = True
    for n in [-1, 256] + WRONG:
        add(('channel_prefix', {'channel': n}))
        add(('midi_port', {'port': n}))
    for t in [0, 1, 255, 256, 65535, 65536, 500000, 16777214, 16777215] + [rng.randrange(16777216) for _ in range(3000 if not thorough else 30000)]:
        add(('set_tempo', {'tempo': t}))
    for t in [-1, 16777216] + WRONG:
        add(('set_tempo', {'tempo': t}))
    lim = [0, 1, 23, 31, 32, 59, 60, 99, 100, 255, 256, -1]
    for fr in list(metas.RATES) + [24.0, 30.0, 29.98, 23, 29, 60, 0] + WRONG:
        add(('smpte_offset', {'frame_rate': fr}))
        for h in [0, 23, 31]:
            add(('smpte_offset', {'frame_rate': fr, 'hours': h, 'minutes': 59, 'seconds': 0, 'frames': 255, 'sub_frames': 99}))
    for name in ['hours', 'minutes', 'seconds', 'frames', 'sub_frames']:
        for v in lim + WRONG:
            add(('smpte_offset', {name: v}))
    for fr in metas.RATES:
        for h in [0, 1, 23, 31, 32, 255]:
            for mi in [0, 59]:
                for s in [0, 59]:
                    for f in [0, 255]:
                        for sf in range(0, 100, 33 if not thorough else 1):
                            add(('smpte_offset', {'frame_rate': fr, 'hours': h, 'minutes': mi, 'seconds': s, 'frames': f, 'sub_frames': sf}))
    lens = [0, 1, 127, 128, 129, 16383, 16384, 32767, 32768, 70001] + ([10 ** 6] if thorough else [])
    for t in metas.TEXT_TYPES:
        attr = metas.META[t][1][0][0]
        for ln in lens:
            if ln > 200 and t not in ('text', 'track_name'):
                continue
            txt = ''.join(chr(rng.choice([65, 97, 32, 0xe9, 0xff, 0, 0x7f, 0x80])) for _ in range(ln))
            add((t, {attr: txt}))
        for v in ['Piano\x00', '\x00lead\x00\x00', ' pad ', 'x\x00y', '\x00', 'snow☃man', 'café', '\ufeffLa la', '\xef\xbb\xbfLa la', '\xef\xbb\xbf', 'La\ufeff', '\ufeff'] + WRONG:
            add((t, {attr: v}))
    for ln in lens:
        data = [rng.choice([0, 1, 127, 128, 255, rng.randrange(256)]) for _ in range(ln)]
        add(('sequencer_specific', {'data': data}))
        if ln < 1000:
            add(('sequencer_specific', {'data': tuple(data)}))
            add(('sequencer_specific', {'data': bytes(data)}))
    for v in [[256], [-1], [1.5], ['a'], [None], [1, 2, 300], (1, [2]), 5, None, 1.5, 'ab', '', b'', [True],
              (0, 1.5, 3), [10, 20.25, 30], [0, 1.0, 255], (0, 7.0, 255, 3), [0, 100, 2.5, 255, 4], [255, 0, 1.5]]:
        add(('sequencer_specific', {'data': v}))
    for t in metas.META_NAMES:
        add((t, {}))
        add((t, {'time': 5}))
        add((t, {'time': 1.5}))
        add((t, {'time': 'x'}))
        add((t, {'bogus': 1}))
        add((t, {'type_byte': 1}))
    add(('end_of_track', {'time': None}))
    # attribute names that belong to ANOTHER meta type (with a value that is fine there): not attributes of this one
    sample_vals = {'number': 7, 'text': 'x', 'name': 'x', 'channel': 1, 'port': 1, 'tempo': 1, 'frame_rate': 25, 'hours': 1, 'minutes': 1,
                   'seconds': 1, 'frames': 1, 'sub_frames': 1, 'numerator': 2, 'denominator': 2, 'clocks_per_click': 1,
                   'notated_32nd_notes_per_beat': 1, 'key': 'C', 'data': [1]}
    for t in metas.META_NAMES:
        own = {a for a, _ in metas.META[t][1]}
        for a, v in sample_vals.items():
            if a not in own:
                add((t, {a: v}))
    # ill-typed values that are EQUAL to the documented default of the attribute (4.0 == 4): still not integers
    defaults = {'sequence_number': {'number': 0}, 'channel_prefix': {'channel': 0}, 'midi_port': {'port': 0}, 'set_tempo': {'tempo': 500000},
                'smpte_offset': {'frame_rate': 24, 'hours': 0, 'minutes': 0, 'seconds': 0, 'frames': 0, 'sub_frames': 0},
                'time_signature': {'numerator': 4, 'denominator': 4, 'clocks_per_click': 24, 'notated_32nd_notes_per_beat': 8}}
    import fractions
    for t, d in defaults.items():
        for a, v in d.items():
            if a == 'frame_rate':
                continue
            add((t, {a: float(v)}))
            add((t, {a: fractions.Fraction(v)}))
            add((t, {a: v == 1 or (v == 0 and False)}))      # True where 1 is the default, else False (bool is an int: documented)
    return cases


def _is_f5(case, reason):
    """F5: smpte_offset hours 32..255 are documented and accepted but the wire format has 5 bits."""
    if case.get('type') != 'smpte_offset':
        return False
    try:
        kw = eval(case['kwargs'])
    except Exception:
        return False
    h = kw.get('hours')
    doms = dict(metas.META['smpte_offset'][1])
    if any(k not in doms for k in kw if k != 'time'):
        return False
    others_ok = all(metas.in_domain(doms[k], v) for k, v in kw.items() if k != 'time')
    return (isinstance(h, int) and 32 <= h <= 255 and others_ok and
            ('from_bytes(bytes())' in reason or 'from a track' in reason or 'differ from FF type vlq payload' in reason))


def run(ck):
    ck.add_known_matcher('F5-smpte-hours-ge-32', _is_f5)
    ck.prepare_lean()
    ck.run_corpus(oracle)
    cases = gen(ck)
    res = [r for part in pool_map(_chunk, list(chunks(cases, 500))) for r in part]
    r_new, r_bytes, r_fb = [], [], []
    i_new, i_bytes, i_fb = [], [], []
    for (t, kw), (lines, fail) in zip(cases, res):
        big = any(hasattr(v, '__len__') and len(v) > 300 for v in kw.values())
        ck.note_case((t, repr(kw) if not big else ('len', tuple((k, len(v)) for k, v in kw.items()))))
        ck.count('type:' + t)
        ck.count('ctor:' + lines[0].split(' ')[0] + (':' + lines[0].split(' ')[1] if lines[0].startswith('err') else ''))
        if fail:
            ck.oracle_fail({'type': t, 'kwargs': repr(kw) if not big else 'too long; lengths ' + repr({k: len(v) for k, v in kw.items()})}, fail)
        toks = ' '.join('%s=%s' % (k, metas.val_tok(v)) for k, v in kw.items())
        if any(metas.val_tok(v).startswith('x') for v in kw.values()):
            continue            # a kind of value the model has no counterpart for (Fraction, nan): judged by the oracle only
        r_new.append(f'mnew {t} {toks}'.rstrip())
        i_new.append(lines[0])
        if lines[1] != 'skip':
            vals = lines[0].split(' time=')[0].split(' ')[2:]
            r_bytes.append(('mbytes latin1 %s %s' % (t, ' '.join(vals))).rstrip())
            i_bytes.append(lines[1])
        if lines[2] != 'skip' and lines[1].startswith('ok'):
            r_fb.append('mfrombytes latin1 ' + lines[1][3:])
            i_fb.append(lines[2])
    for c in (cases[3], cases[1200], cases[-9]):
        ck.sample({'type': c[0], 'kwargs': repr(c[1])[:120]})
    ck.compare('meta.ctor', r_new, i_new, ck.driver.run(r_new))
    ck.compare('meta.bytes', r_bytes, i_bytes, ck.driver.run(r_bytes))
    ck.compare('meta.from_bytes', r_fb, i_fb, ck.driver.run(r_fb))
    return ck.finish(RULE, assumptions=['text is encodable in the charset in force (latin1); other charsets are C17',
                                        'frame_rate is compared as a number with two decimals'])


def oracle(case):
    kw = eval(case['kwargs'])
    return impl_case((case['type'], kw))[1]


def replay(ck, rp):
    return generic_replay(ck, rp, oracle)
