"""C20 — backend selection and port-opening arguments resolve deterministically."""
import itertools
import os
import sys
import types

from ..common import exc_name, generic_replay

RULE = ('the full finite grid: backend name in {absent, "fk", "fk/ALSA", ""} x api keyword in {absent, "X", ""} x MIDO_BACKEND in '
        '{unset, "fk", "fk/JACK", ""} x each MIDO_DEFAULT_* in {unset, set, empty} x use_environ x module with/without IOPort and '
        'get_devices x the 6 entry points x port name {absent, given} x call-level api {unset, None, "Y"}, each followed by a '
        'second call (lazy import); plus mido.set_backend rebinding; plus sampled configurations with the user module under other names (among them the names of the modules mido ships) and with bystander attributes (get_api_names, DEFAULT_API, ...) on the module. Exhaustive grid; distinct by configuration; all non-trivial')

FUNCS = ['open_input', 'open_output', 'open_ioport', 'get_input_names', 'get_output_names', 'get_ioport_names']
# 'e' is listed the way portmidi and pygame list devices: one entry per direction under the same name
DEVICES = [('a', True, False), ('b', True, True), ('e', True, False), ('c', False, True), ('d', True, True), ('b2', False, False),
           ('e', False, True), ('b', True, True)]       # and two identical interfaces: 'b' twice


def tok(s):
    return '-' if s is None else ('@' if s == '' else s)


MODNAMES = ['amidi', 'pygame', 'portmidi', 'rtmidi', 'rtmidi_python', 'mido', 'backends', 'my.pkg.midi', 'FK', 'fk2', 'mido.backends.fk']
EXTRAS = ['api_names', 'api_names_all', 'default_api', 'version']


def make_module(name, has_io, has_gd, log, extras=()):
    m = types.ModuleType(name)
    # bystander attributes that real backend modules have: the property gives them no say
    if 'api_names' in extras:
        m.get_api_names = lambda: ['UNIX_JACK', 'LINUX_ALSA']
    if 'api_names_all' in extras:
        m.get_api_names = lambda: ['X', 'Y', 'ALSA', 'JACK', 'PULSE']
    if 'default_api' in extras:
        m.DEFAULT_API = 'DFLT'
        m.api = 'MODAPI'
    if 'version' in extras:
        m.__version__ = '0'
        m.get_default_api = lambda: 'DFLT'

    def mk(cls):
        class P:
            def __init__(self, name=None, **kw):
                log.append('ctor:%s:%s:%s' % (cls, tok(name), tok(kw['api']) if 'api' in kw else '-'))
                self.name = name
                self.closed = False
                self._messages = None

            def close(self):
                self.closed = True
        P.__name__ = cls
        return P
    m.Input = mk('Input')
    m.Output = mk('Output')
    if has_io:
        m.IOPort = mk('IOPort')
    if has_gd:
        def get_devices(**kw):
            log.append('devices:%s' % (tok(kw['api']) if 'api' in kw else '-'))
            return [{'name': n, 'is_input': i, 'is_output': o} for n, i, o in DEVICES]
        m.get_devices = get_devices
    return m


def impl_config(cfg):
    """Run one configuration on the real Backend with a recording fake module."""
    import importlib
    import mido
    from mido.backends.backend import Backend
    log = []
    saved_env = {k: os.environ.get(k) for k in ('MIDO_BACKEND', 'MIDO_DEFAULT_INPUT', 'MIDO_DEFAULT_OUTPUT', 'MIDO_DEFAULT_IOPORT')}
    real_import = importlib.import_module
    modname = cfg.get('modname', 'fk')
    fake = make_module(modname, cfg['hasio'], cfg['hasgd'], log, cfg.get('extras', ()))

    def sub(v):
        return v if v is None else v.replace('fk', modname, 1) if v.split('/')[0] == 'fk' else v

    def rec_import(name, package=None):
        if name == modname and not package:
            log.append('import:fk')
            return fake
        if name == '':
            log_len = len(log)
            raise ValueError('Empty module name')
        log.append('import:' + name)
        raise ModuleNotFoundError(name)
    try:
        for k, v in (('MIDO_BACKEND', sub(cfg['MB'])), ('MIDO_DEFAULT_INPUT', cfg['DI']), ('MIDO_DEFAULT_OUTPUT', cfg['DO']),
                     ('MIDO_DEFAULT_IOPORT', cfg['DIO'])):
            if v is None:
                os.environ.pop(k, None)
            else:
                os.environ[k] = v
        importlib.import_module = rec_import
        kw = {}
        if cfg['api'] is not None:
            kw['api'] = cfg['api']
        b = Backend(sub(cfg['name']), use_environ=cfg['use'], **kw)
        parts = ['backend %s %s' % (tok('fk' if b.name == modname else b.name), tok(b.api))]
        fail = None
        if log:
            fail = 'creating the Backend (load=False) already imported or called something: %r' % log
        for (fn, name, capi) in cfg['calls']:
            del log[:]
            ckw = {}
            if capi != 'unset':
                ckw['api'] = capi
            try:
                if name is not None:
                    res = getattr(b, fn)(name, **ckw) if fn.startswith('open') else getattr(b, fn)(**ckw)
                else:
                    res = getattr(b, fn)(**ckw)
                s = 'ok ' + ' '.join(log)
                if fn.startswith('get'):
                    s += ' => ' + ','.join(res)
                parts.append(s)
            except Exception as e:
                name_e = exc_name(e)
                parts.append('err ' + (name_e if name_e in ('ValueError',) else 'Other'))
        return ' | '.join(parts), fail
    finally:
        importlib.import_module = real_import
        for k, v in saved_env.items():
            if v is None:
                os.environ.pop(k, None)
            else:
                os.environ[k] = v


def oracle_config(cfg, line):
    """Independent statement of the property for one configuration (written from the docs)."""
    parts = line.split(' | ')
    head = parts[0].split(' ')
    raw = cfg['name'] or (cfg['MB'] if cfg['MB'] is not None else 'mido.backends.rtmidi')
    mod, _, suffix = raw.partition('/')
    want_api = cfg['api'] or (suffix if '/' in raw else None)
    if head[1] != tok(mod):
        return f'backend module should be {mod!r}, got {head[1]!r}'
    if head[2] != tok(want_api or None) and not (head[2] == '@' and not want_api):
        return f'effective api should be {want_api!r}, got {head[2]!r}'
    imported = False
    for (fn, name, capi), res in zip(cfg['calls'], parts[1:]):
        if mod != 'fk':
            if not res.startswith('err'):
                return f'module {mod!r} cannot be imported but {fn} succeeded'
            continue
        if not res.startswith('ok'):
            return f'{fn} failed: {res}'
        recs = res[3:].split(' => ')[0].split()
        imports = [r for r in recs if r.startswith('import:')]
        if (not imported and imports != ['import:fk']) or (imported and imports):
            return f'import not lazy/once: {recs} (already imported: {imported})'
        imported = True
        eff_api = (capi if capi != 'unset' else (want_api or None))
        for r in recs:
            if r.startswith('ctor:') or r.startswith('devices:'):
                if r.split(':')[-1] != tok(eff_api):
                    return f'{fn}: record {r} does not carry api {eff_api!r}'
        env = (lambda k: cfg[k]) if cfg['use'] else (lambda k: None)
        ctors = [r for r in recs if r.startswith('ctor:')]
        if fn == 'open_input':
            want = name if name is not None else env('DI')
            if [c.split(':')[1:3] for c in ctors] != [['Input', tok(want)]]:
                return f'open_input constructed {ctors}, expected Input({want!r})'
        elif fn == 'open_output':
            want = name if name is not None else env('DO')
            if [c.split(':')[1:3] for c in ctors] != [['Output', tok(want)]]:
                return f'open_output constructed {ctors}, expected Output({want!r})'
        elif fn == 'open_ioport':
            eff = name if name is not None else (env('DIO') or None)
            if cfg['hasio']:
                if [c.split(':')[1:3] for c in ctors] != [['IOPort', tok(eff)]]:
                    return f'open_ioport constructed {ctors}, expected the native IOPort({eff!r})'
            else:
                i, o = (eff, eff) if eff else (env('DI'), env('DO'))
                if [c.split(':')[1:3] for c in ctors] != [['Input', tok(i)], ['Output', tok(o)]]:
                    return f'open_ioport constructed {ctors}, expected Input({i!r}) + Output({o!r})'
        else:
            names = res.split(' => ')[1].split(',') if ' => ' in res and res.split(' => ')[1] else []
            devs = DEVICES if cfg['hasgd'] else []
            ins = [n for n, i, o in devs if i]
            outs = [n for n, i, o in devs if o]
            want = {'get_input_names': ins, 'get_output_names': outs, 'get_ioport_names': [n for n in ins if n in outs]}[fn]
            if names != want:
                return f'{fn} = {names}, expected {want}'
            if cfg['hasgd'] and not any(r.startswith('devices:') for r in recs):
                return f'{fn} did not query the device list'
    return None


def request(cfg):
    calls = ' '.join('%s/%s/%s' % (fn, tok(name), 'unset' if capi == 'unset' else tok(capi)) for fn, name, capi in cfg['calls'])
    return ('backend name=%s api=%s use=%d MB=%s DI=%s DO=%s DIO=%s imp=fk hasio=%d hasgd=%d devs=%s %s' % (
        tok(cfg['name']), tok(cfg['api']), 1 if cfg['use'] else 0, tok(cfg['MB']), tok(cfg['DI']), tok(cfg['DO']), tok(cfg['DIO']),
        1 if cfg['hasio'] else 0, 1 if cfg['hasgd'] else 0, ','.join('%s:%d:%d' % (n, i, o) for n, i, o in DEVICES), calls))


def gen():
    cfgs = []
    for name in (None, 'fk', 'fk/ALSA', ''):
        for api in (None, 'X', ''):
            for mb in (None, 'fk', 'fk/JACK', ''):
                for use in (True, False):
                    for hasio in (True, False):
                        for fn in FUNCS:
                            # the env vars that matter for this function, others sampled
                            for di, do, dio in itertools.product((None, 'in1', ''), (None, 'out1', ''), (None, 'io1', '')):
                                if fn in ('open_input',) and (do, dio) != (None, None):
                                    continue
                                if fn in ('open_output',) and (di, dio) != (None, None):
                                    continue
                                if fn.startswith('get') and (di, do, dio) != (None, None, None):
                                    continue
                                for pname in ((None, 'p') if fn.startswith('open') else (None,)):
                                    for capi in ('unset', None, 'Y'):
                                        hasgd = not (fn.startswith('get') and hasio)   # vary get_devices presence with hasio
                                        cfgs.append({'name': name, 'api': api, 'MB': mb, 'use': use, 'hasio': hasio, 'hasgd': hasgd,
                                                     'DI': di, 'DO': do, 'DIO': dio,
                                                     'calls': [(fn, pname, capi), (FUNCS[(FUNCS.index(fn) + 1) % 6], None, 'unset')]})
    return cfgs


def check_set_backend():
    """set_backend rebinds the top-level functions to the chosen backend (real mido module)."""
    import mido
    from mido.backends.backend import Backend
    saved = {n: getattr(mido, n) for n in dir(mido) if n.split('_')[0] in ('open', 'get')}
    saved_backend = mido.backend
    try:
        b = Backend('fk', load=False)
        mido.set_backend(b)
        for n in ['open_input', 'open_output', 'open_ioport', 'get_input_names', 'get_output_names', 'get_ioport_names']:
            f = getattr(mido, n)
            if getattr(f, '__self__', None) is not b:
                return f'after set_backend(b), mido.{n} is not bound to b'
        if mido.backend is not b:
            return 'mido.backend is not the chosen backend'
        mido.set_backend('fk/ALSA')
        if mido.backend.name != 'fk' or mido.backend.api != 'ALSA' or mido.open_input.__self__ is not mido.backend:
            return 'set_backend("fk/ALSA") did not rebind to a backend fk with api ALSA'
        # histories: the current backend has been USED (module loaded) before the next set_backend, same module
        import importlib
        log = []
        fake = make_module('fk', True, True, log)
        real_import = importlib.import_module
        importlib.import_module = lambda name, package=None: fake if name == 'fk' else real_import(name, package)
        try:
            mido.open_input('x')
            if log[-1:] != ['ctor:Input:x:ALSA']:
                return f'open_input after set_backend("fk/ALSA") recorded {log[-1:]}'
            for nxt, api in (('fk/JACK', 'JACK'), ('fk', None), ('fk/ALSA', 'ALSA')):
                mido.set_backend(nxt)
                mido.open_output('y')
                if mido.backend.api != api or log[-1] != 'ctor:Output:y:%s' % tok(api) or mido.open_output.__self__ is not mido.backend:
                    return (f'history [set_backend, use, set_backend({nxt!r}), use]: the top-level functions still reach the '
                            f'previous backend (api {mido.backend.api!r}, last record {log[-1]})')
            b2 = Backend('fk', api='PULSE', use_environ=False)
            mido.set_backend(b2)
            mido.get_input_names()
            if mido.backend is not b2 or log[-1] != 'devices:PULSE':
                return f'set_backend(Backend("fk", api="PULSE")) after use of fk/ALSA: last record {log[-1]}'
            # choosing a backend of the same name and API again, as another object with another use_environ, after the
            # current one has been used: the top-level functions must reach the NEW object (and its use_environ)
            import os
            old_env = os.environ.get('MIDO_DEFAULT_INPUT')
            os.environ['MIDO_DEFAULT_INPUT'] = 'envport'
            try:
                mido.set_backend('fk/ALSA')
                mido.open_input()
                if log[-1] != 'ctor:Input:envport:ALSA':
                    return f'open_input() with MIDO_DEFAULT_INPUT=envport recorded {log[-1]}'
                for b3 in (Backend('fk/ALSA', use_environ=False), Backend('fk', api='ALSA', use_environ=False, load=True)):
                    mido.set_backend(b3)
                    mido.open_input()
                    if mido.backend is not b3 or mido.open_input.__self__ is not b3 or mido.get_output_names.__self__ is not b3:
                        return ('history [set_backend("fk/ALSA"), use, set_backend(Backend("fk/ALSA", use_environ=False))]: the '
                                'top-level functions are still bound to the earlier backend object')
                    if log[-1] == 'ctor:Input:envport:ALSA':
                        return ('after set_backend(Backend("fk/ALSA", use_environ=False)) open_input() still takes MIDO_DEFAULT_INPUT: '
                                f'{log[-1]}')
                    mido.set_backend('fk/ALSA')
                    mido.open_input()
                    if log[-1] != 'ctor:Input:envport:ALSA':
                        return f'back to set_backend("fk/ALSA") (use_environ default): open_input() recorded {log[-1]}'
            finally:
                if old_env is None:
                    os.environ.pop('MIDO_DEFAULT_INPUT', None)
                else:
                    os.environ['MIDO_DEFAULT_INPUT'] = old_env
        finally:
            importlib.import_module = real_import
        return None
    finally:
        for n, f in saved.items():
            setattr(mido, n, f)
        mido.backend = saved_backend


def copies_fail():
    """Standard-library copies of a Backend object (copy.copy of any, deepcopy / pickle of one not loaded yet): name, API and
    use_environ are those of the original, whatever is done through the copy."""
    import importlib
    import os
    from mido.backends.backend import Backend
    from .. import persist
    log = []
    fake = make_module('fk', True, True, log)
    real_import = importlib.import_module
    importlib.import_module = lambda name, package=None: fake if name == 'fk' else real_import(name, package)
    old_env = {k: os.environ.get(k) for k in ('MIDO_DEFAULT_INPUT', 'MIDO_DEFAULT_OUTPUT', 'MIDO_DEFAULT_IOPORT')}
    os.environ.update({'MIDO_DEFAULT_INPUT': 'envin', 'MIDO_DEFAULT_OUTPUT': 'envout', 'MIDO_DEFAULT_IOPORT': 'envio'})
    try:
        for use_env in (False, True):
            for loaded in (False, True):
                b = Backend('fk/ALSA', use_environ=use_env, load=loaded)

                def use(x):
                    del log[:]
                    x.open_input()
                    x.open_output()
                    x.open_ioport()
                    x.get_input_names()
                    return list(log)
                for how, c in persist.clones(b, deep_only=False):
                    if isinstance(c, Exception):
                        if loaded and how != 'copy.copy':
                            continue            # a module object cannot be deep-copied or pickled: not this library's doing
                        return f'{how} of Backend("fk/ALSA", use_environ={use_env}, load={loaded}) raised {type(c).__name__}: {c}'
                    got = use(c)
                    want = use(Backend('fk/ALSA', use_environ=use_env, load=loaded))
                    if got != want or c.name != 'fk' or c.api != 'ALSA' or c.use_environ != use_env:
                        return (f'the {how} of Backend("fk/ALSA", use_environ={use_env}, load={loaded}) behaves differently: opening ports '
                                f'without a name recorded {got}, the original kind of object records {want} '
                                f'(copy: name={c.name!r} api={c.api!r} use_environ={c.use_environ!r})')
        return None
    finally:
        importlib.import_module = real_import
        for k, v in old_env.items():
            if v is None:
                os.environ.pop(k, None)
            else:
                os.environ[k] = v


def variants(ck, cfgs):
    """The same configurations with the user's module under other names (also names of modules mido ships) and with
    bystander attributes on the module: the outcome is the one of the plain fake module."""
    import random
    rng = random.Random(ck.seed)
    pool = [c for c in cfgs if 'fk' in (c['name'] or '', c['MB'] or '') or (c['name'] or '').startswith('fk') or (c['MB'] or '').startswith('fk')]
    picks = []
    for mn in MODNAMES:
        picks += [(mn, (), c) for c in rng.sample(pool, 12 if ck.tier == 'quick' else 120)]
    for ex in EXTRAS + ['api_names default_api version']:
        picks += [('fk', tuple(ex.split()), c) for c in rng.sample(pool, 40 if ck.tier == 'quick' else 400)]
        picks += [('rtmidi', tuple(ex.split()), c) for c in rng.sample(pool, 6 if ck.tier == 'quick' else 60)]
    for mn, ex, c in picks:
        base, _ = impl_config(c)
        c2 = dict(c, modname=mn, extras=ex)
        line, fail = impl_config(c2)
        ck.evaluations += 1
        ck.count('variant_module')
        if not fail and line != base:
            fail = (f'with the backend module named {mn!r}' + (f' and bystander attributes {ex} on it' if ex else '') +
                    f' the outcome is {line!r}; a module of any other name gives {base!r}')
        fail = fail or oracle_config(c, line)
        if fail:
            ck.oracle_fail({'cfg': repr(c2)}, fail)


def faulty_device_query_fail():
    """A backend whose get_devices fails while it handles the query (a TypeError, an OSError, a KeyError from inside the
    enumeration): the failure is the caller's to see.  Whatever the library does about it, the device query that carries the
    selected API is never silently replaced by one without it (the names of the default API would be handed out as those of
    the selected one)."""
    import importlib
    from mido.backends.backend import Backend
    real_import = importlib.import_module
    for exc in (TypeError, OSError, KeyError, ValueError, AttributeError):
        for name, kw, call_api in (('fk/ALSA', {}, None), ('fk', {'api': 'JACK'}, None), ('fk', {}, 'Y'), ('fk/ALSA', {}, 'Y')):
            log = []
            fake = make_module('fk', True, True, log)

            def get_devices(**kwargs):
                log.append('devices:%s' % (tok(kwargs['api']) if 'api' in kwargs else '-'))
                if 'api' in kwargs:
                    count = None
                    if exc is TypeError:
                        return [{'name': 'n%d' % i, 'is_input': True, 'is_output': True} for i in range(count)]   # TypeError inside
                    raise exc('device enumeration failed')
                return [{'name': n, 'is_input': i, 'is_output': o} for n, i, o in DEVICES]
            fake.get_devices = get_devices
            importlib.import_module = lambda nm, package=None: fake if nm == 'fk' else real_import(nm, package)
            try:
                b = Backend(name, load=True, **kw)
                for fn in ('get_input_names', 'get_output_names', 'get_ioport_names'):
                    del log[:]
                    ckw = {'api': call_api} if call_api else {}
                    try:
                        got = getattr(b, fn)(**ckw)
                        outcome = 'returned %r' % (got,)
                    except Exception as e:      # noqa: BLE001
                        outcome = 'raised ' + type(e).__name__
                    if any(x == 'devices:-' for x in log):
                        return (f'Backend({name!r}, **{kw!r}).{fn}({ckw!r}): the device query with the selected API failed inside the backend '
                                f'({exc.__name__}) and a second query WITHOUT the API was made ({log}); the call {outcome}')
                    if outcome.startswith('returned') and got:
                        return (f'Backend({name!r}, **{kw!r}).{fn}({ckw!r}) {outcome} although the backend\'s device query for that API '
                                f'failed with {exc.__name__}')
            finally:
                importlib.import_module = real_import
    # a port that cannot be opened: whatever the library adds to the failure (a hint which ports exist), every device query it
    # makes on the way carries the API of that call - the explicit one if given, else the backend's
    for name, kw, call_api, want_api in (('fk/ALSA', {}, 'Y', 'Y'), ('fk', {}, 'Y', 'Y'), ('fk/ALSA', {}, None, 'ALSA'), ('fk', {'api': 'JACK'}, 'Y', 'Y')):
        for has_io in (True, False):
            log = []
            fake = make_module('fk', has_io, True, log)

            def failing(cls):
                class P:
                    def __init__(self, name=None, **kwargs):
                        log.append('ctor:%s' % cls)
                        raise OSError('unknown port %r' % (name,))
                return P
            fake.Input, fake.Output = failing('Input'), failing('Output')
            if has_io:
                fake.IOPort = failing('IOPort')
            importlib.import_module = lambda nm, package=None: fake if nm == 'fk' else real_import(nm, package)
            try:
                b = Backend(name, load=True, **kw)
                for fn in ('open_input', 'open_output', 'open_ioport'):
                    del log[:]
                    ckw = {'api': call_api} if call_api else {}
                    try:
                        getattr(b, fn)('Synth 1', **ckw)
                        return f'Backend({name!r}).{fn}("Synth 1", **{ckw!r}) returned although the port constructor raised OSError'
                    except OSError:
                        pass
                    except Exception as e:      # noqa: BLE001
                        return f'Backend({name!r}).{fn}("Synth 1", **{ckw!r}): the constructor raised OSError, the call raised {type(e).__name__}: {e}'
                    wrong = [x for x in log if x.startswith('devices:') and x != 'devices:' + want_api]
                    if wrong:
                        return (f'Backend({name!r}, **{kw!r}).{fn}("Synth 1", **{ckw!r}) failed in the port constructor and on the way the '
                                f'backend was asked for its devices with another API than {want_api!r}: {log}')
            finally:
                importlib.import_module = real_import
    # a port class that EXISTS and fails inside (an AttributeError from its own code: a lookup that returned None): that is the
    # port's failure, not "the module has no such class" - the native IOPort is not replaced by an Input/Output pair
    for exc in (AttributeError, KeyError, TypeError):
        log = []
        fake = make_module('fk', True, True, log)

        class Broken:
            def __init__(self, name=None, **kwargs):
                log.append('ctor:IOPort')
                raise exc('inside the native IOPort')
        fake.IOPort = Broken
        importlib.import_module = lambda nm, package=None, fake=fake: fake if nm == 'fk' else real_import(nm, package)
        try:
            b = Backend('fk/ALSA', load=True)
            del log[:]
            try:
                b.open_ioport('Unplugged')
                outcome = 'returned a port'
            except Exception as e:      # noqa: BLE001
                outcome = 'raised ' + type(e).__name__
            if outcome != 'raised ' + exc.__name__ or any(x.startswith('ctor:Input') or x.startswith('ctor:Output') for x in log):
                return (f'the module has a native IOPort whose constructor raised {exc.__name__}: open_ioport {outcome} and the records '
                        f'are {log}; the native class is the one to use and its failure the caller\'s to see')
        finally:
            importlib.import_module = real_import
    return None


def default_history_fail():
    """Which backend a Backend() / set_backend() without a name selects depends on MIDO_BACKEND and the documented default only
    — not on which backends were selected earlier in the process."""
    import importlib
    import mido
    from mido.backends import backend as bmod
    from mido.backends.backend import Backend
    saved = {n: getattr(mido, n) for n in dir(mido) if n.split('_')[0] in ('open', 'get')}
    saved_backend = mido.backend
    saved_default = bmod.DEFAULT_BACKEND
    saved_env = os.environ.get('MIDO_BACKEND')
    real_import = importlib.import_module
    log = []
    fake = make_module('fk', True, True, log)
    importlib.import_module = lambda name, package=None: fake if name == 'fk' else real_import(name, package)

    def probe(where):
        os.environ.pop('MIDO_BACKEND', None)
        for kw, api in (({}, None), ({'api': 'X'}, 'X'), ({'use_environ': False}, None)):
            b = Backend(**kw)
            if b.name != 'mido.backends.rtmidi' or (b.api or None) != api:
                return (f'{where}, with MIDO_BACKEND unset, Backend({", ".join("%s=%r" % i for i in kw.items())}) selects '
                        f'{b.name!r} with api {b.api!r}; the default is mido.backends.rtmidi with api {api!r}')
        mido.set_backend()
        if mido.backend.name != 'mido.backends.rtmidi' or mido.backend.api or mido.open_input.__self__ is not mido.backend:
            return (f'{where}, with MIDO_BACKEND unset, set_backend() selects {mido.backend.name!r} with api '
                    f'{mido.backend.api!r}; the default is mido.backends.rtmidi')
        os.environ['MIDO_BACKEND'] = 'fk/JACK'
        b = Backend()
        if (b.name, b.api) != ('fk', 'JACK'):
            return f'{where}, with MIDO_BACKEND=fk/JACK, Backend() selects {b.name!r} with api {b.api!r}'
        os.environ.pop('MIDO_BACKEND', None)
        return None
    try:
        f = probe('in a process that selected nothing yet')
        if f:
            return f
        mido.set_backend('fk/ALSA')
        f = probe('after set_backend("fk/ALSA")')
        if f:
            return f
        mido.set_backend('fk/ALSA')
        mido.open_input('x')
        mido.set_backend(Backend('fk', api='PULSE', load=True))
        f = probe('after set_backend("fk/ALSA"), a use, and set_backend(Backend("fk", api="PULSE", load=True))')
        if f:
            return f
        os.environ['MIDO_BACKEND'] = 'fk/JACK'
        mido.set_backend()
        mido.get_input_names()
        f = probe('after set_backend() under MIDO_BACKEND=fk/JACK and a use')
        if f:
            return f
        # a selection that FAILS (the module cannot be imported and load=True asks for the import now) selects nothing: the
        # backend chosen before stays the chosen one, for every top-level function ("try this backend, else keep the other")
        mido.set_backend('fk/ALSA')
        chosen = mido.backend
        for bad in ('no_such_backend_module_xyz', 'no_such_backend_module_xyz/ALSA'):
            try:
                mido.set_backend(bad, load=True)
                return f'set_backend({bad!r}, load=True) did not raise although the module cannot be imported'
            except ImportError:
                pass
            if mido.backend is not chosen or any(getattr(getattr(mido, n), '__self__', None) is not chosen for n in FUNCS):
                return (f'after set_backend({bad!r}, load=True) failed with ImportError, mido.backend is {mido.backend!r} and the '
                        f'top-level functions are bound to {mido.open_input.__self__!r}; the chosen backend was {chosen!r}')
            del log[:]
            mido.open_output('z')
            if log[-1:] != ['ctor:Output:z:ALSA']:
                return f'after a failed set_backend({bad!r}, load=True), open_output("z") recorded {log[-1:]}'
        return None
    finally:
        importlib.import_module = real_import
        bmod.DEFAULT_BACKEND = saved_default
        if saved_env is None:
            os.environ.pop('MIDO_BACKEND', None)
        else:
            os.environ['MIDO_BACKEND'] = saved_env
        for n, fn in saved.items():
            setattr(mido, n, fn)
        mido.backend = saved_backend


def module_shapes_fail():
    """Backend modules of every documented shape (custom backends define only the classes they support): the name listings
    derive from get_devices (with the API) whichever port classes the module has; open_ioport uses the native IOPort when there
    is one."""
    import importlib
    from mido.backends.backend import Backend
    real_import = importlib.import_module
    ins = [n for n, i, o in DEVICES if i]
    outs = [n for n, i, o in DEVICES if o]
    want = {'get_input_names': ins, 'get_output_names': outs, 'get_ioport_names': [n for n in ins if n in outs]}
    try:
        for drop in (('Input', 'Output'), ('Input',), ('Output',), ('Input', 'Output', 'IOPort'), ('IOPort',)):
            for bname, api in (('fk/ALSA', 'ALSA'), ('fk', None)):
                log = []
                fake = make_module('fk', True, True, log)
                for d in drop:
                    delattr(fake, d)
                importlib.import_module = lambda name, package=None, fake=fake: fake if name == 'fk' else real_import(name, package)
                b = Backend(bname)
                shape = 'a module with get_devices and ' + (', '.join(c for c in ('Input', 'Output', 'IOPort') if c not in drop) or 'no port class')
                for fn in ('get_input_names', 'get_output_names', 'get_ioport_names'):
                    del log[:]
                    try:
                        got = getattr(b, fn)()
                    except Exception as e:      # noqa: BLE001
                        return f'{shape}: {fn}() raised {type(e).__name__}: {e}'
                    if got != want[fn]:
                        return f'{shape}: {fn}() = {got}, the device list gives {want[fn]}'
                    if log != ['devices:%s' % tok(api)]:
                        return f'{shape} selected as {bname!r}: {fn}() recorded {log}, expected one device query with api {api!r}'
                if 'IOPort' not in drop:
                    del log[:]
                    b.open_ioport('p')
                    if log != ['ctor:IOPort:p:%s' % tok(api)]:
                        return f'{shape}: open_ioport("p") recorded {log}, expected the native IOPort'
                if 'Input' not in drop:
                    del log[:]
                    b.open_input('q')
                    if log != ['ctor:Input:q:%s' % tok(api)]:
                        return f'{shape}: open_input("q") recorded {log}'
        return None
    finally:
        importlib.import_module = real_import


def run(ck):
    ck.prepare_lean()
    ck.run_corpus(oracle)
    cfgs = gen()
    variants(ck, cfgs)
    reqs, impl = [], []
    for cfg in cfgs:
        line, fail = impl_config(cfg)
        fail = fail or oracle_config(cfg, line)
        ck.note_case(request(cfg))
        ck.count('fn:' + cfg['calls'][0][0])
        ck.count('name:' + tok(cfg['name']))
        if fail:
            ck.oracle_fail({'cfg': repr(cfg)}, fail)
        reqs.append(request(cfg))
        impl.append(line)
    ck.exhaustive['configuration grid'] = True
    ck.sample({'cfg': repr(cfgs[1234])})
    ck.sample({'cfg': repr(cfgs[-1])})
    ck.compare('backend', reqs, impl, ck.driver.run(reqs))
    fc = copies_fail()
    ck.evaluations += 1
    ck.count('backend_copies')
    if fc:
        ck.oracle_fail({'backend_copies': True}, fc)
    f = check_set_backend()
    ck.evaluations += 1
    if f:
        ck.oracle_fail({'set_backend': True}, f)
    f = faulty_device_query_fail()
    ck.evaluations += 1
    ck.count('faulty_device_queries')
    if f:
        ck.oracle_fail({'faulty_device_query': True}, f)
    for key, fn in (('default_history', default_history_fail), ('module_shapes', module_shapes_fail)):
        f = fn()
        ck.evaluations += 1
        ck.count(key)
        if f:
            ck.oracle_fail({key: True}, f)
    return ck.finish(RULE, assumptions=['MIDO_BACKEND is read regardless of use_environ (the property does not say otherwise)',
                                        'set_backend is checked on the real mido module and restored (correspondence-only)'])


def oracle(case):
    if isinstance(case, dict) and case.get('faulty_device_query'):
        return faulty_device_query_fail()
    if isinstance(case, dict) and case.get('default_history'):
        return default_history_fail()
    if isinstance(case, dict) and case.get('module_shapes'):
        return module_shapes_fail()
    if 'backend_copies' in case:
        return copies_fail()
    if 'set_backend' in case:
        return check_set_backend()
    cfg = eval(case['cfg'])
    line, fail = impl_config(cfg)
    if 'modname' in cfg and not fail:
        base, _ = impl_config({k: v for k, v in cfg.items() if k not in ('modname', 'extras')})
        if base != line:
            return f'module named {cfg["modname"]!r} with attributes {cfg.get("extras")}: outcome {line!r}, any other module gives {base!r}'
    return fail or oracle_config(cfg, line)


def replay(ck, rp):
    return generic_replay(ck, rp, oracle)
