"""C13 — playback timing follows the tempo map."""
from fractions import Fraction

from .. import envprobe
from ..common import chunks, generic_replay, pool_map

RULE = ('files: ticks_per_beat in {1,2,96,480,32767,random}, 1..3 tracks, 0..14 events per track, 0..6 tempo changes at '
        'arbitrary positions (tick 0, equal ticks, tempo 0, 1, 16777215), types 0/1/2; for each: list(mid), mid.length, '
        'mid.play(now=fake clock) with time.sleep replaced, consumer delays and sleep overshoot injected; units: '
        'second2tick(tick2second(t)) for random and boundary t, tpb, tempo. Distinct by the file contents + schedule; '
        'non-trivial = at least one positive delta')

TOL_ABS = 1e-9


def tol(x, n):
    return 8 * (n + 2) * 2.0 ** -53 * abs(float(x)) + TOL_ABS


def build_file(case):
    import mido
    ty, tpb, tracks = case['type'], case['tpb'], case['tracks']
    trs = []
    for tr in tracks:
        t = mido.MidiTrack()
        for (delta, tempo, note) in tr:
            if tempo is not None:
                t.append(mido.MetaMessage('set_tempo', tempo=tempo, time=delta))
            elif note == -1000:
                # an end_of_track that is not the last message (tracks glued together): its ticks count, the message goes
                t.append(mido.MetaMessage('end_of_track', time=delta))
            elif note <= -2000:
                # a time signature: notation only (the metronome click, how many notated 32nds a MIDI quarter note has);
                # the tempo map is the set_tempo events and ticks_per_beat alone
                j = -note - 2000
                t.append(mido.MetaMessage('time_signature', numerator=j % 7 + 1, denominator=2 ** (j % 5), clocks_per_click=(j * 7) % 256,
                                          notated_32nd_notes_per_beat=j % 256, time=delta))
            elif note < 0:
                t.append(mido.MetaMessage('marker', text='x%d' % -note, time=delta))
            else:
                t.append(mido.Message('note_on', note=note % 128, velocity=note // 128 % 128, time=delta))
        trs.append(t)
    mid = mido.MidiFile(type=ty, ticks_per_beat=tpb, tracks=trs, debug=bool(case.get('debug')))
    if case.get('loaded'):
        # the same contents as a file loaded from bytes (ticks_per_beat then comes from the header)
        import io
        buf = io.BytesIO()
        mid.save(file=buf)
        mid = mido.MidiFile(file=io.BytesIO(buf.getvalue()), debug=bool(case.get('debug')))
    return mid


def merged_ref(tracks):
    evs = []
    longest = 0
    for ti, tr in enumerate(tracks):
        now = 0
        for i, (delta, tempo, note) in enumerate(tr):
            now += delta
            if note == -1000:
                continue
            evs.append((now, ti, i, tempo, note))
        longest = max(longest, now)
    evs.sort(key=lambda e: (e[0], e[1], e[2]))
    out = []
    now = 0
    for (t, ti, i, tempo, note) in evs:
        out.append((t - now, tempo, note, t))
        now = t
    out.append((longest - now, None, None, longest))     # end_of_track
    return out


_BPS_CACHE = {}


def integral_ref(merged, tpb, T):
    """Exact seconds of the tempo map from tick 0 to tick T: breakpoints from the set_tempo
    events, the last one at a tick wins; a tempo applies to the ticks after its event."""
    key = id(merged)
    if _BPS_CACHE.get('key') != key or _BPS_CACHE.get('len') != len(merged):
        bps = []
        for (_d, tempo, _n, t) in merged:
            if tempo is not None:
                if bps and bps[-1][0] == t:
                    bps[-1] = (t, tempo)
                else:
                    bps.append((t, tempo))
        _BPS_CACHE.update({'key': key, 'len': len(merged), 'bps': bps, 'keep': merged})
    bps = _BPS_CACHE['bps']
    total = Fraction(0)
    cur_t, cur_tempo = 0, 500000
    for (t, tempo) in bps:
        if t >= T:
            break
        total += Fraction((t - cur_t) * cur_tempo, 1000000 * tpb)
        cur_t, cur_tempo = t, tempo
    total += Fraction((T - cur_t) * cur_tempo, 1000000 * tpb)
    return total


class FakeTime:
    """Fake clock + sleep.  sched[r] = (consumer delay before round r, sleep overshoot in round r), both in micro-ticks;
    round r belongs to the r-th message of the merged track.  The round a sleep belongs to is found from the schedule
    itself (the first message after the one handed out last that is not yet due), not from how often play() reads the
    clock, so an implementation may read it as often as it likes."""

    def __init__(self, start, sched, unit, sched_times=()):
        self.clock = start
        self.sched = list(sched)
        self.unit = unit
        self.sched_times = list(sched_times)
        self.kprev = -1          # index in the merged track of the message handed out last
        self.sleep_by_round = {}
        self.stray = []          # real sleeps while nothing later is scheduled

    def now(self):
        return self.clock

    def sleep(self, d):
        if d < 0:
            raise ValueError('sleep length must be non-negative')
        if d <= 0.25 * self.unit:
            self.clock += d      # float dust around an exactly-zero remaining time is not a real sleep
            return
        r = next((j for j in range(self.kprev + 1, len(self.sched_times)) if self.sched_times[j] > self.clock + 0.25 * self.unit), None)
        if r is None:
            self.stray.append((d, self.clock))
            self.clock += d
            return
        extra = self.sched[r][1] if r < len(self.sched) else 0
        d0, at0 = self.sleep_by_round.get(r, (0.0, self.clock))
        self.sleep_by_round[r] = (d0 + d, at0)
        self.clock += d + extra * self.unit


def impl_case(case):
    if case.get('debug'):
        # debug=True makes the library print what it reads; what it computes must be the same
        import contextlib
        import io as _io
        with contextlib.redirect_stdout(_io.StringIO()):
            return _impl_case(case)
    return _impl_case(case)


def _impl_case(case):
    import mido
    from mido.midifiles import midifiles as MF
    fail = None
    out = {}
    ty, tpb = case['type'], case['tpb']
    merged = merged_ref(case['tracks'])
    try:
        mid = build_file(case)
    except Exception as e:
        return {'err': type(e).__name__}, f'building the file raised {type(e).__name__}: {e}'
    # iteration
    try:
        msgs = list(mid)
        out['iter'] = [m.time for m in msgs]
        if ty == 2:
            fail = 'iterating a type 2 file did not raise'
    except TypeError:
        out['iter'] = 'err TypeError'
        if ty != 2:
            fail = 'iteration raised TypeError on a type 0/1 file'
    except Exception as e:
        out['iter'] = 'err ' + type(e).__name__
        fail = f'iteration raised {type(e).__name__}: {e}'
    try:
        out['length'] = mid.length
        if ty == 2:
            fail = fail or 'length of a type 2 file did not raise'
    except ValueError:
        out['length'] = 'err ValueError'
        if ty != 2:
            fail = fail or 'length raised ValueError on a type 0/1 file'
    except Exception as e:
        out['length'] = 'err ' + type(e).__name__
        fail = fail or f'length raised {type(e).__name__}: {e}'
    if ty != 2 and fail is None and isinstance(out.get('iter'), list):
        # observations may overlap: length read inside a loop over the file, two iterators of one file side by side
        try:
            nested = []
            for k_, m in enumerate(mid):
                nested.append(m.time)
                if len(out['iter']) <= 300 or k_ % 997 == 0:      # every round for ordinary files, now and then for very long ones
                    _ = mid.length
            it1, it2 = iter(mid), None
            a, b = [], []
            for k in range(2 * len(out['iter']) + 2):
                if k == 1:
                    it2 = iter(mid)
                for it, acc in ((it1, a), (it2, b)):
                    if it is not None:
                        m = next(it, None)
                        if m is not None:
                            acc.append(m.time)
            # what iteration hands out are copies that belong to the consumer (play()'s documentation says so): a consumer
            # that rewrites them - the tempo of a set_tempo, the time of anything - does not change the timing of the rest
            edited = []
            for m in mid:
                edited.append(m.time)
                if m.type == 'set_tempo':
                    m.tempo = 1 if m.tempo != 1 else 999999
                m.time = 12345.5
            if edited != out['iter'] and fail is None:
                fail = (f'a consumer that rewrites the messages it is handed (tempo of set_tempo, time) sees the times {edited[:8]}, '
                        f'a consumer that only reads {out["iter"][:8]}')
            elif [m.time for m in mid] != out['iter'] and fail is None:
                fail = 'after a consumer rewrote the messages it was handed, a later iteration of the file gives other times'
            if fail is not None:
                pass
            elif nested != out['iter']:
                fail = f'message times seen by a loop that reads mid.length inside differ from a plain iteration: {nested[:8]} vs {out["iter"][:8]}'
            elif a != out['iter'] or b != out['iter']:
                fail = f'two iterators of one file running side by side see {a[:8]} / {b[:8]}, a single iteration {out["iter"][:8]}'
        except Exception as e:
            fail = f'overlapping observations raised {type(e).__name__}: {e}'
    if ty != 2 and fail is None:
        cum = 0.0
        if len(msgs) != len(merged):
            fail = f'iteration yields {len(msgs)} messages, the merged track has {len(merged)}'
        else:
            for k, (m, (d, tempo, note, t)) in enumerate(zip(msgs, merged)):
                cum += m.time
                want = integral_ref(merged, tpb, t)
                if abs(cum - want) > tol(want, k):
                    fail = (f'cumulative time of message {k} (tick {t}) is {cum!r}, the tempo-map integral is '
                            f'{float(want)!r}')
                    break
            if fail is None and abs(out['length'] - cum) > tol(cum, len(msgs)):
                fail = f'length {out["length"]!r} differs from the cumulative time of the last message {cum!r}'
    # play
    if ty != 2 and fail is None:
        unit = 1.0 / (1000000 * tpb)
        sched_times = [case['start'] * unit + float(integral_ref(merged, tpb, t)) for (_d, _tp, _n, t) in merged]
        ft = FakeTime(case['start'] * unit, case['sched'], unit, sched_times)
        expect = [(m, mm, k) for k, (m, mm) in enumerate(zip(msgs, merged)) if case['meta'] or not m.is_meta]
        real_time = MF.time

        class Shim:
            @staticmethod
            def sleep(d):
                ft.sleep(d)
            time = staticmethod(ft.now)
        MF.time = Shim
        try:
            gen = mid.play(meta_messages=case['meta'], now=ft.now)
            start = ft.clock
            played = []
            while True:
                try:
                    m = next(gen)
                except StopIteration:
                    break
                r = expect[len(played)][2] if len(played) < len(expect) else len(merged)
                ft.kprev = r
                played.append((m, ft.clock, r))
                # the consumer dawdles before asking for the next message: delay of round r+1
                delay = case['sched'][r + 1][0] if r + 1 < len(case['sched']) else 0
                ft.clock += delay * unit
            out['play'] = {'yields': [(r, c) for m, c, r in played], 'sleeps': dict(ft.sleep_by_round), 'start': start}
            if [m.type for m, _, _ in played] != [m.type for m, _, _ in expect] or \
                    any(vars(a) != vars(b) for (a, _, _), (b, _, _) in zip(played, expect)):
                fail = 'play() does not yield the messages of iteration (meta only on request)'
            else:
                for (m, c, r), (m0, _mm, k) in zip(played, expect):
                    if c < sched_times[k] - tol(sched_times[k], len(msgs)):
                        fail = f'play() yielded {m!r} at clock {c!r}, before its scheduled time {sched_times[k]!r}'
                        break
                if fail is None and ft.stray:
                    fail = (f'play() slept {ft.stray[0][0]!r} at clock {ft.stray[0][1]!r} although no remaining message is '
                            f'scheduled later than that')
                if fail is None:
                    for r, (d, at) in ft.sleep_by_round.items():
                        want = sched_times[r] - at
                        if abs(d - want) > tol(sched_times[r], len(msgs)) + tol(at, 1):
                            fail = (f'in round {r} play() slept {d!r} at clock {at!r}; the remaining time to the '
                                    f'scheduled time {sched_times[r]!r} is {want!r} (drift)')
                            break
        except Exception as e:
            fail = f'play raised {type(e).__name__}: {e}'
        finally:
            MF.time = real_time
    return out, fail


def _chunk(cs):
    return [impl_case(c) for c in cs]


def _units_chunk(cs):
    import mido
    bad = []
    for (t, tpb, tempo) in cs:
        s = mido.tick2second(t, tpb, tempo)
        back = mido.second2tick(s, tpb, tempo)
        want = Fraction(t * tempo, 1000000 * tpb)
        if back != t or abs(s - want) > tol(want, 1):
            bad.append(((t, tpb, tempo), f'tick2second={s!r} (exact {float(want)!r}), second2tick gives {back}'))
    return bad


def gen(ck):
    rng = ck.rng
    n = 3000 if ck.tier == 'quick' else 100000
    cases = []
    for _ in range(n):
        tpb = rng.choice([1, 2, 96, 480, 32767, rng.randint(1, 32767)])
        ntr = rng.choice([1, 1, 2, 3])
        ty = rng.choice([0, 1, 1, 1, 2]) if ntr == 1 else rng.choice([1, 1, 1, 2])
        tracks = []
        ntempo = rng.randint(0, 6)
        for ti in range(ntr):
            tr = []
            for _e in range(rng.randint(0, 14)):
                delta = rng.choice([0, 0, 1, 2, 7, 96, 480, 10000, rng.randint(0, 2000)])
                r = rng.random()
                if ntempo and r < 0.25:
                    ntempo -= 1
                    tr.append((delta, rng.choice([0, 1, 250000, 500000, 1000000, 16777215, rng.randint(0, 16777215)]), 0))
                elif r < 0.31:
                    tr.append((delta, None, -1000))
                elif r < 0.37:
                    tr.append((delta, None, -rng.randint(1, 99)))
                elif r < 0.43:
                    tr.append((delta, None, -2000 - rng.choice([8, 8, 0, 1, 4, 16, 24, 32, 255, rng.randint(0, 255)])))
                else:
                    tr.append((delta, None, rng.randint(0, 16383)))
            tracks.append(tr)
        nmsg = sum(len(t) for t in tracks) + 1
        sched = [(rng.choice([0, 0, 0, rng.randint(0, 5 * 10 ** 8), rng.randint(0, 10 ** 12)]),
                  rng.choice([0, 0, rng.randint(0, 10 ** 9)])) for _ in range(nmsg + 1)]
        cases.append({'type': ty, 'tpb': tpb, 'tracks': tracks, 'start': rng.choice([0, 12345678, 10 ** 13]),
                      'sched': sched, 'meta': rng.random() < 0.5, 'loaded': rng.random() < 0.4, 'debug': rng.random() < 0.15})
    # long pieces (no count of events is special): several thousand events, the consumer stalling shortly before event
    # 1024 / 4096 / 8192 / 16384 (quick: 4096 only), and once early on
    for total, stalls in ((4200, [100, 4088, 4090]), (4300, [4094])) if ck.tier == 'quick' else \
            ((1100, [1020]), (4200, [100, 4088, 4090]), (4300, [4094]), (8300, [8188]), (16500, [16380, 16383])):
        tr = [(rng.choice([1, 2, 3, 5]), None, (i * 37) % 16384) for i in range(total)]
        tr[total // 3] = (4, 400000, 0)
        sched = [(0, 0)] * (total + 2)
        for k in stalls:
            sched[k] = (4 * 10 ** 8, 0)
        cases.append({'type': 1, 'tpb': 480, 'tracks': [tr], 'start': 0, 'sched': sched, 'meta': rng.random() < 0.5, 'loaded': False})
    return cases


def model_requests(case):
    merged = merged_ref(case['tracks'])
    evs = ' '.join('%d:%s:%d' % (d, '-' if tempo is None else tempo, 1 if (tempo is not None or note is None or note < 0) else 0)
                   for (d, tempo, note, t) in merged)
    return 'iter %d %s' % (case['type'], evs), 'length %d %s' % (case['type'], evs)


def run(ck):
    ck.prepare_lean()
    ck.run_corpus(oracle)
    cases = gen(ck)
    res = [r for part in pool_map(_chunk, list(chunks(cases, 300))) for r in part]
    reqs, impl, plays = [], [], []
    for case, (out, fail) in zip(cases, res):
        nz = any(d > 0 for tr in case['tracks'] for (d, _, _) in tr)
        ck.note_case(repr((case['type'], case['tpb'], case['tracks'], case.get('loaded', False))), nontrivial=nz)
        ck.count('type:%d' % case['type'])
        ck.count('file:' + ('loaded-from-bytes' if case.get('loaded') else 'built-in-memory'))
        ck.count('tracks:%d' % len(case['tracks']))
        ck.count('tempo_changes:%d' % sum(1 for tr in case['tracks'] for e in tr if e[1] is not None))
        if fail:
            ck.oracle_fail(case, fail)
        r1, r2 = model_requests(case)
        unit = Fraction(1, 1000000 * case['tpb'])
        reqs += [r1, r2]
        impl += [('iter', out.get('iter'), unit), ('length', out.get('length'), unit)]
        if 'play' in out:
            plays.append((case, out['play'], len(reqs) - 2))
    for c in (cases[0], cases[len(cases) // 2]):
        ck.sample({k: c[k] for k in ('type', 'tpb', 'tracks', 'meta')})
    model = ck.driver.run(reqs)
    # compare floats of the implementation with the exact rationals of the model
    cmp_impl, cmp_model = [], []
    for (kind, val, unit), m in zip(impl, model):
        if isinstance(val, str) or val is None:
            cmp_impl.append(str(val))
            cmp_model.append(m)
            continue
        if not m.startswith('ok'):
            cmp_impl.append('float-result')
            cmp_model.append(m)
            continue
        nums = [int(x) for x in m.split()[1:]]
        vals = val if kind == 'iter' else [val]
        ok = len(nums) == len(vals) and all(abs(v - float(nn * unit)) <= tol(nn * unit, len(nums)) for v, nn in zip(vals, nums))
        cmp_impl.append('agrees' if ok else 'DIFF ' + repr(vals)[:200])
        cmp_model.append('agrees' if ok else m[:200])
    ck.compare('tempo', reqs, cmp_impl, cmp_model)
    # play(): the pacing state machine of the model on the same schedule
    preqs, pimpl_raw = [], []
    for case, pl, idx in plays:
        m = model[idx]
        if not m.startswith('ok'):
            continue
        times = m.split()[1:]
        nr = len(times)
        sched = [(case['sched'][r][0] if (r < len(case['sched']) and r > 0) else 0,
                  case['sched'][r][1] if r < len(case['sched']) else 0) for r in range(nr)]
        # a consumer delay only exists after a yielded message
        yielded_rounds = {r for r, _c in pl['yields']}
        sched = [((d if (r - 1) in yielded_rounds else 0), e) for r, (d, e) in enumerate(sched)]
        preqs.append('play %d %d %s | %s' % (case['start'], case['start'], ' '.join(times),
                                             ' '.join('%d:%d' % p for p in sched)))
        pimpl_raw.append((case, pl, nr))
    pmodel = ck.driver.run(preqs)
    pi, pm = [], []
    for (case, pl, nr), line in zip(pimpl_raw, pmodel):
        unit = Fraction(1, 1000000 * case['tpb'])
        rounds = [tuple(int(x) for x in t.split(':')) for t in line.split()]
        ok = len(rounds) == nr
        yields = dict(pl['yields'])
        for r, (sl, at) in enumerate(rounds):
            d_impl = pl['sleeps'].get(r, (0.0, 0))[0]
            if abs(d_impl - float(sl * unit)) > tol(at * unit, nr) + TOL_ABS:
                ok = False
            if r in yields and abs(yields[r] - float(at * unit)) > tol(at * unit, nr) + TOL_ABS:
                ok = False
        pi.append('agrees' if ok else 'DIFF ' + repr(pl)[:300])
        pm.append('agrees' if ok else line[:300])
    ck.compare('tempo.play', preqs, pi, pm)
    # units
    rng = ck.rng
    ucases = []
    for _ in range(20000 if ck.tier == 'quick' else 400000):
        ucases.append((rng.choice([0, 1, 2, 3, 479, 480, 2 ** 20, 2 ** 31, rng.randint(0, 2 ** 40), rng.randint(0, 10 ** 6)]),
                       rng.choice([1, 2, 96, 480, 960, 32767, rng.randint(1, 32767)]),
                       rng.choice([1, 2, 3, 250000, 500000, 999999, 16777215, rng.randint(1, 16777215)])))
    for part in pool_map(_units_chunk, list(chunks(ucases, 5000))):
        for c, why in part:
            ck.oracle_fail({'units': list(c)}, why)
    ck.evaluations += len(ucases)
    ck.hist['unit_conversions'] = len(ucases)
    envprobe.check(ck, ['length', 'iter'])
    return ck.finish(RULE, assumptions=[
        'the implementation computes in binary floats; each float is compared with the model\'s exact rational within '
        '8(n+2)*2^-53*|x| + 1e-9',
        'time.sleep is replaced by a function that advances the supplied clock by the request plus an overshoot >= 0',
        'clock readings are quantised to micro-ticks in the model'])


def oracle(case):
    if 'environment' in case:
        return envprobe.oracle(case)
    if 'units' in case:
        r = _units_chunk([tuple(case['units'])])
        return r[0][1] if r else None
    case = dict(case)
    case['tracks'] = [[tuple(e) for e in tr] for tr in case['tracks']]
    case['sched'] = [tuple(p) for p in case['sched']]
    return impl_case(case)[1]


def replay(ck, rp):
    return generic_replay(ck, rp, oracle)
