"""C19 — SYX files round-trip sysex messages."""
import os
import shutil
import tempfile

from .. import msgs, parsing
from ..common import chunks, exc_name, generic_replay, pool_map

RULE = ('message lists with sysex payload lengths {0,1,2,127,128,1000,5000}, interleaved non-sysex messages of all types, empty '
        'list; both formats written to and read from real files in a per-run temporary directory; text layouts: separators '
        'drawn from all \\s characters and runs of them, leading/trailing whitespace, CRLF; bad text: one-digit tokens, non-hex '
        'letters, digit pairs split by whitespace, non-latin bytes. Distinct by (message list, format, layout); all non-trivial')

WS = [' ', '\t', '\n', '\r', '\x0b', '\x0c', '\x1c', '\x1d', '\x1e', '\x1f', '\x85', '\xa0', '  ', '\r\n', ' \t ']
TMP = None


def _tmp():
    global TMP
    if TMP is None:
        TMP = tempfile.mkdtemp(prefix='verif-syx-')
    return TMP


def build(desc):
    import mido
    return [mido.Message(t, **d) for t, d in desc]


def impl_roundtrip(case):
    """case = (desc, plaintext)"""
    import mido
    desc, plaintext = case
    path = os.path.join(_tmp(), 'f%d.syx' % os.getpid())
    ms = build(desc)
    before = [vars(m).copy() for m in ms]
    if len(desc) % 3 == 1:
        # unrelated parsing that went wrong earlier in the process (a complete sysex, then an item that is no byte; a
        # tokenizer nobody drained) must leave no trace in what a SYX file reads back
        mido.Parser([0xf0, 0x44, 0xf7])
        if len(desc) == 1:
            mido.tokenizer.Tokenizer([0xf0, 0x33, 0xf7, 0xf8])
        else:
            try:
                mido.parse_all([0xf0, 0x11, 0x22, 0xf7, 0x90, 300])
            except (ValueError, TypeError):
                pass
    try:
        mido.write_syx_file(path, ms, plaintext=plaintext)
        with open(path, 'rb') as f:
            data = f.read()
        back = mido.read_syx_file(path)
    except Exception as e:
        return 'err ' + exc_name(e), None, f'round trip raised {type(e).__name__}: {e}'
    want = [m for m in ms if m.type == 'sysex']
    fail = None
    if back != want or any(m.type != 'sysex' for m in back):
        fail = f'read back {back!r}, expected the sysex messages {want!r}'
    elif [vars(m) for m in ms] != before:
        fail = 'messages modified by writing'
    line = 'ok' + (' ' + parsing.canon_list(back) if back else '')
    if fail is None and len(ms) < 60 and len(desc) % 2 == 0:
        # the messages handed over as other kinds of iterable (a Parser drains itself when iterated and is not its own
        # iterator; a deque; a generator; a MidiTrack), and as standard-library copies of the messages (pickled, deep-copied)
        import collections
        import copy
        import pickle
        variants = []
        p = mido.Parser()
        for m in ms:
            p.feed(m.bytes())
        variants.append(('a Parser holding the messages', p))
        variants.append(('a deque', collections.deque(build(desc))))
        variants.append(('a generator', (m for m in build(desc))))
        variants.append(('a MidiTrack', mido.MidiTrack(build(desc))))
        variants.append(('pickled messages', [pickle.loads(pickle.dumps(m)) for m in ms]))
        variants.append(('a pickled list of messages', pickle.loads(pickle.dumps(list(ms), 0))))
        variants.append(('deep-copied messages', copy.deepcopy(list(ms))))
        from mido.frozen import freeze_message
        variants.append(('pickled frozen messages', [pickle.loads(pickle.dumps(freeze_message(m))) for m in ms]))
        for what, it in variants:
            try:
                mido.write_syx_file(path, it, plaintext=plaintext)
                again = mido.read_syx_file(path)
            except Exception as e:
                fail = f'writing {what} raised {type(e).__name__}: {e}'
                break
            if again != want:
                fail = f'writing {what} and reading back gives {again!r}, the sysex messages are {want!r}'
                break
    if fail is None and back and len(back) < 50:
        # what was read belongs to the caller: after the caller edits it, reading the untouched file again gives the file
        try:
            for m in back:
                m.data = tuple(m.data) + (1, 2)
                m.time = 3
            again = mido.read_syx_file(path)
            if again != want:
                fail = f'after the caller edited the messages of an earlier read, reading the unchanged file again gives {again!r}, the file holds {want!r}'
            elif any(a is b for a in again for b in back):
                fail = 'two reads of a file handed out the very same message object'
        except Exception as e:
            fail = f'second read raised {type(e).__name__}: {e}'
    return line, list(data), fail


HEXD = set('0123456789abcdefABCDEF')


def text_judgement(data):
    """Independent reading of the property's text clause: None (binary file / not judged), 'bad' (some whitespace-separated
    token is not made of two-digit hex numbers: ValueError expected) or 'good' (only two-digit hex tokens)."""
    if not data or data[0] == 0xf0:
        return None
    toks = bytes(data).decode('latin1').split()
    if any(len(t) % 2 == 1 or any(c not in HEXD for c in t) for t in toks):
        return 'bad'
    if all(len(t) == 2 for t in toks):
        return 'good'
    return None


def impl_read(data):
    import mido
    verdict = text_judgement(data)
    path = os.path.join(_tmp(), 'r%d.syx' % os.getpid())
    with open(path, 'wb') as f:
        f.write(bytes(data))
    try:
        back = mido.read_syx_file(path)
    except Exception as e:
        name = exc_name(e)
        if verdict == 'good':
            return 'err ' + name, f'well-formed two-digit hex text raised {type(e).__name__}: {e}'
        return 'err ' + name, (None if name in ('ValueError', 'UnicodeError') else f'read_syx_file raised {type(e).__name__}: {e}')
    fail = None
    if verdict == 'bad':
        fail = f'text that is not two-digit hex was accepted (read as {len(back)} message(s)) instead of raising ValueError'
    if any(m.type != 'sysex' for m in back):
        fail = 'read_syx_file returned a non-sysex message'
    return 'ok' + (' ' + parsing.canon_list(back) if back else ''), fail


def bare_name_case(plaintext):
    """A file name without a directory part, with the working directory on another filesystem than the temp directory."""
    import tempfile
    import mido
    base = '/dev/shm'
    try:
        if not os.path.isdir(base) or os.stat(base).st_dev == os.stat(tempfile.gettempdir()).st_dev:
            return None
        d = tempfile.mkdtemp(prefix='verif_c19_', dir=base)
    except OSError:
        return None
    old = os.getcwd()
    try:
        os.chdir(d)
        ms = [mido.Message('sysex', data=(1, 2, 3)), mido.Message('clock'), mido.Message('sysex', data=())]
        try:
            mido.write_syx_file('dump.syx', ms, plaintext=plaintext)
            back = mido.read_syx_file('dump.syx')
        except Exception as e:
            return f'write/read of a bare file name in a directory on another filesystem raised {type(e).__name__}: {e}'
        if back != [ms[0], ms[2]]:
            return f'bare file name on another filesystem: read back {back!r}'
        return None
    finally:
        os.chdir(old)
        shutil.rmtree(d, ignore_errors=True)


def _rt_chunk(cs):
    return [impl_roundtrip(c) for c in cs]


def _rd_chunk(cs):
    return [impl_read(c) for c in cs]


def gen(ck):
    rng = ck.rng
    n = 1500 if ck.tier == 'quick' else 40000
    rts = [([], False), ([], True)]
    lens = [0, 1, 2, 127, 128, 1000, 5000, 5461, 6000]
    for i in range(n):
        desc = []
        for _ in range(rng.randint(0, 6)):
            if rng.random() < 0.55:
                ln = lens[i % len(lens)] if rng.random() < 0.3 and i < 400 else rng.choice([0, 1, 2, rng.randint(0, 40)])
                desc.append(('sysex', {'data': tuple(rng.randint(0, 127) for _ in range(ln))}))
            else:
                t, d = msgs.random_message(rng, types=[x for x in msgs.TYPE_NAMES if x != 'sysex'])
                desc.append((t, d))
        rts.append((desc, rng.random() < 0.5))
    # very many messages in one file (more than any bounded internal queue would hold)
    for nmsg in ([1025, 1500] if ck.tier == 'quick' else [1024, 1025, 2048, 5000]):
        many = [('sysex', {'data': (i % 128, (i // 128) % 128)}) for i in range(nmsg)]
        rts.append((many, False))
        rts.append((many, True))
        rts.append(([('sysex', {'data': (1, 2, 3)})] + [('clock', {})] * nmsg + [('sysex', {'data': ()})], False))
    # payload lengths around the block sizes an implementation may write or read in (4096, 8192, 16384, 65536 bytes / characters)
    for ln in ([4094, 4095, 8190, 8191, 8192, 16383] if ck.tier == 'quick' else
               [2046, 2047, 4094, 4095, 4096, 8189, 8190, 8191, 8192, 8193, 16382, 16383, 16384, 24575, 32767, 65534, 65535]):
        body = tuple((i * 5 + 1) % 128 for i in range(ln))
        for text in (False, True):
            rts.append(([('sysex', {'data': (7,)}), ('sysex', {'data': body}), ('sysex', {'data': (8, 9)})], text))
            rts.append(([('sysex', {'data': body})], text))
    # very long payloads: no size is special
    for ln in ([200000, 1100000] if ck.tier == 'quick' else [196606, 196607, 200000, 1048577, 3000000]):
        rts.append(([('sysex', {'data': (1,)}), ('sysex', {'data': tuple((i * 13) % 128 for i in range(ln))}), ('sysex', {'data': (2, 3)})], False))
    rts.append(([('sysex', {'data': tuple((i * 11) % 128 for i in range(200000))})], True))
    reads = []
    for _ in range(n):
        # layouts of valid text
        ms = [tuple(rng.randint(0, 127) for _ in range(rng.choice([0, 1, 3, 10]))) for _ in range(rng.randint(0, 3))]
        bs = [b for d in ms for b in [0xf0] + list(d) + [0xf7]]
        if rng.random() < 0.2:
            bs = [0x90, 1, 2] + bs + [0xc0, 5]
        txt = rng.choice(['', ' ', '\n'])
        for b in bs:
            txt += rng.choice(['%02X', '%02x']) % b + rng.choice(WS if rng.random() < 0.8 else [''])
        r = rng.random()
        if r < 0.15 and txt:
            k = rng.randrange(len(txt))
            txt = txt[:k] + rng.choice(['G', 'x', '0', 'F ', ' 1 ', '\xe9', '.', '-']) + txt[k:]
        elif r < 0.2:
            txt = txt.replace('F0', 'F 0', 1)
        elif r < 0.3 and bs:
            # an even number of hex digits overall, but split into one-digit / three-digit tokens
            toks = ['%02X' % b for b in bs]
            k = rng.randrange(len(toks))
            style = rng.random()
            if style < 0.4:
                toks[k:k + 1] = [toks[k][0], toks[k][1]]
            elif style < 0.7 and k + 1 < len(toks):
                toks[k:k + 2] = [toks[k] + toks[k + 1][0], toks[k + 1][1]]
            else:
                j = rng.randrange(len(toks))
                toks[k:k + 1] = [toks[k][0], toks[k][1]]
                toks[j:j + 1] = [toks[j][0], toks[j][1]] if len(toks[j]) == 2 else [toks[j]]
            txt = rng.choice(WS).join(toks)
        elif r < 0.4 and bs:
            # a token that int(x, 16) / int(x) style parsing would take but that is not two hex digits: signs, prefixes,
            # underscores, digits outside 0-9A-F
            toks = ['%02X' % b for b in bs]
            k = rng.randrange(len(toks))
            toks[k] = rng.choice(['+', '-']) + toks[k][1] if rng.random() < 0.6 else rng.choice(['0x', '0X', '1_', '_1', '\xb2' + toks[k][1], toks[k][0] + '\xb9', '+0', '-0', ' +F'])
            txt = rng.choice(WS).join(toks)
        try:
            reads.append(list(txt.encode('latin1')))
        except UnicodeError:
            pass
    # long plain-text files (several times any block size a reader may use) whose whitespace is not one character per byte:
    # CRLF line ends, double spaces, tabs and blank lines, indented lines, 16 bytes per line
    for total, style in ((17000, 'crlf'), (20000, 'double'), (33000, 'tabs'), (17500, 'indent'), (70000, 'mixed')):
        payload = [(i * 7 + 3) % 128 for i in range(total)]
        parts, pos = [], 0
        while pos < total:
            ln = 1 + (pos * 13) % 900
            parts.append([0xf0] + payload[pos:pos + ln] + [0xf7])
            pos += ln
        toks = ['%02X' % b for msg in parts for b in msg]
        out = []
        for i, tk in enumerate(toks):
            out.append(tk)
            if style == 'crlf':
                out.append('\r\n' if i % 16 == 15 else ' ')
            elif style == 'double':
                out.append('  ' if i % 5 == 0 else ' ')
            elif style == 'tabs':
                out.append('\t' if i % 3 else '\n\n')
            elif style == 'indent':
                out.append('\n    ' if i % 16 == 15 else ' ')
            else:
                out.append([' ', '\r\n', '\t ', '  ', '\n', ' \x0c'][(i * i + i // 7) % 6])
        reads.append(list(''.join(out).encode('latin1')))
    reads += [[], [0xf0, 0xf7], [0xf0, 1, 2], [0x46], [0x46, 0x30, 0x20, 0x46, 0x37], [0xff], [0x20], [0x0a, 0x0a]]
    # a hand-made binary file: one sysex followed by far more than a thousand other messages, then another sysex
    reads.append([0xf0, 9, 0xf7] + [0xf8] * 1100 + [0x90, 1, 2] * 1100 + [0xf0, 0xf7])
    return rts, reads


def run(ck):
    ck.prepare_lean()
    _tmp()          # created before the worker pool forks, removed in the finally below
    try:
        ck.run_corpus(oracle)
        rts, reads = gen(ck)
        res = [r for part in pool_map(_rt_chunk, list(chunks(rts, 300))) for r in part]
        wreq, wimpl, rreq, rimpl = [], [], [], []
        for (desc, plaintext), (line, data, fail) in zip(rts, res):
            ck.note_case(repr(desc) + str(plaintext))
            ck.count('format:' + ('text' if plaintext else 'binary'))
            ck.count('sysex_msgs:%d' % min(sum(1 for t, _ in desc if t == 'sysex'), 4))
            if fail:
                ck.oracle_fail({'desc': [[t, {k: list(v) if k == 'data' else v for k, v in d.items()}] for t, d in desc],
                                'plaintext': plaintext}, fail)
            if data is not None and len(data) <= 30000:
                wreq.append('syxwrite %s %s' % ('text' if plaintext else 'bin', ' | '.join(msgs.canon_vals(t, d) for t, d in desc)))
                wimpl.append(' '.join(map(str, data)))
                rreq.append('syxread ' + ' '.join(map(str, data)))
                rimpl.append(line)
        ck.compare('syx.write', wreq, wimpl, ck.driver.run(wreq))
        ck.compare('syx.read', rreq, rimpl, ck.driver.run(rreq))
        for plaintext in (False, True):
            ck.evaluations += 1
            f = bare_name_case(plaintext)
            if f:
                ck.oracle_fail({'bare_name': plaintext}, f)
        rres = [r for part in pool_map(_rd_chunk, list(chunks(reads, 500))) for r in part]
        lreq = []
        for data, (line, fail) in zip(reads, rres):
            ck.note_case(bytes(data))
            ck.count('read:' + line.split(' ')[0] + (':' + line.split(' ')[1] if line.startswith('err') else ''))
            if fail:
                ck.oracle_fail({'bytes': data}, fail)
            lreq.append('syxread ' + ' '.join(map(str, data)))
        ck.compare('syx.layouts', lreq, [r[0] for r in rres], ck.driver.run(lreq))
        ck.sample({'desc': repr(rts[5][0])[:200], 'plaintext': rts[5][1]})
        ck.sample({'text_file': bytes(reads[3]).decode('latin1')[:80]})
        return ck.finish(RULE, assumptions=['files are written on a POSIX system (text mode writes "\\n")'])
    finally:
        if TMP and os.path.isdir(TMP):
            shutil.rmtree(TMP, ignore_errors=True)


def oracle(case):
    if 'bare_name' in case:
        return bare_name_case(case['bare_name'])
    if 'bytes' in case:
        return impl_read(case['bytes'])[1]
    desc = [(t, {k: tuple(v) if k == 'data' else v for k, v in d.items()}) for t, d in case['desc']]
    return impl_roundtrip((desc, case['plaintext']))[2]


def replay(ck, rp):
    try:
        return generic_replay(ck, rp, oracle)
    finally:
        if TMP and os.path.isdir(TMP):
            shutil.rmtree(TMP, ignore_errors=True)
