"""Deterministic scheduler for real threads (C10).

Exactly one thread runs at a time; a thread gives up control only at *yield points* - the
shared accesses (lock acquire / release, deque test / pop / append / extend, a byte written to
the device wire, the start of an API call).  A yield point announces the action the thread is
about to perform; when the scheduler picks the thread it performs that action and runs on to its
next yield point.  A thread whose pending action is the acquisition of a lock held by another
thread is *disabled*: picking it has no effect.
"""
import collections
import threading

_S = None          # the active scheduler (one execution at a time per process)


class Sched:
    def __init__(self, watchdog=5.0):
        self.cv = threading.Condition()
        self.cur = None
        self.pending = {}      # tid -> (action, object)
        self.done = set()
        self.trace = []        # (tid, action) in execution order
        self.trace_ev = []     # (tid, action, object) in execution order (for the discipline replay)
        self.results = {}
        self.watchdog = watchdog
        self.lock_owner = {}   # id(lock wrapper) -> (tid, depth)
        self.stuck = False
        self.known = None      # ids of the instrumented objects of THIS execution (None: accept all)

    # called by instrumented objects from worker threads
    def yp(self, action, obj=None):
        tid = threading.current_thread().name
        if tid not in self.threads:
            return
        if obj is not None and self.known is not None and id(obj) not in self.known:
            # an instrumented object of an EARLIER execution (its finaliser happens to run in this thread): not a
            # shared access of this program
            return
        with self.cv:
            self.pending[tid] = (action, obj)
            self.cur = None
            self.cv.notify_all()
            while self.cur != tid:
                self.cv.wait()
            self.trace.append((tid, action))
            self.trace_ev.append((tid, action, obj))

    def enabled(self, tid):
        act, obj = self.pending.get(tid, (None, None))
        if act == 'acq':
            owner = self.lock_owner.get(id(obj))
            return owner is None or owner[0] == tid
        return True

    def run(self, progs, choose):
        """progs: {tid: callable}; choose(live, enabled, trace) -> tid to run next (may return a
        disabled one: no effect).  Returns results per thread."""
        global _S
        import gc
        _S = self
        self.threads = {}
        gc_was = gc.isenabled()
        gc.disable()           # no finalisers of old ports in the middle of a worker thread's step

        def body(name, f):
            self.yp('start')
            try:
                self.results[name] = ('ok', f())
            except BaseException as e:          # noqa
                self.results[name] = ('raised', e)
            with self.cv:
                self.done.add(name)
                self.pending.pop(name, None)
                self.cur = None
                self.cv.notify_all()
        for n, f in progs.items():
            self.threads[n] = threading.Thread(target=body, args=(n, f), name=n, daemon=True)
        for t in self.threads.values():
            t.start()
        decisions = []
        with self.cv:
            while True:
                # wait until every live thread is parked at a yield point
                ok = self.cv.wait_for(lambda: self.cur is None and len(self.pending) + len(self.done) >= len(progs),
                                      timeout=self.watchdog)
                if not ok:
                    self.stuck = True
                    break
                live = [n for n in progs if n not in self.done]
                if not live:
                    break
                en = [n for n in live if self.enabled(n)]
                if not en:
                    self.stuck = True       # deadlock
                    self.results['__deadlock__'] = ('raised', RuntimeError('deadlock'))
                    break
                pick = choose(live, en, self.trace)
                decisions.append(pick)
                if pick not in en:
                    continue                # disabled or finished: the decision has no effect
                self.cur = pick
                self.cv.notify_all()
        _S = None
        if gc_was:
            gc.enable()
        self.decisions = decisions
        return self.results


def yp(action, obj=None):
    if _S is not None:
        _S.yp(action, obj)


class SLock:
    """Wraps whatever lock object the port created (RLock or DummyLock)."""

    def __init__(self, inner, real):
        self.inner = inner
        self.real = real        # False for DummyLock: no exclusion, but still a yield point

    def __enter__(self):
        yp('acq' if self.real else 'dacq', self)
        s = _S
        if s is not None and self.real:
            tid = threading.current_thread().name
            owner = s.lock_owner.get(id(self))
            s.lock_owner[id(self)] = (tid, (owner[1] if owner else 0) + 1)
        self.inner.__enter__()
        return self

    def __exit__(self, *a):
        yp('rel' if self.real else 'drel', self)
        s = _S
        if s is not None and self.real:
            tid, depth = s.lock_owner[id(self)]
            if depth <= 1:
                del s.lock_owner[id(self)]
            else:
                s.lock_owner[id(self)] = (tid, depth - 1)
        return self.inner.__exit__(*a)


class SDeque(collections.deque):
    """A deque whose shared accesses are yield points; it also logs what was appended and popped (in order)."""

    def _log(self, name):
        d = self.__dict__
        if name not in d:
            d[name] = []
        return d[name]

    def __bool__(self):
        yp('bool', self)
        return super().__len__() > 0

    def __len__(self):
        yp('bool', self)          # `while len(deque):` is an emptiness test as well
        return super().__len__()

    def popleft(self):
        yp('popleft', self)
        x = super().popleft()
        self._log('pops').append(x)
        return x

    def append(self, x):
        yp('append', self)
        self._log('apps').append(x)
        return super().append(x)

    def extend(self, xs):
        for x in xs:
            yp('append', self)
            self._log('apps').append(x)
            super().append(x)


def instrument(port):
    """Replace the port's lock and message deque by instrumented ones (no change to mido)."""
    import mido.ports as P
    inner = port._lock
    port._lock = SLock(inner, not isinstance(inner, P.DummyLock))
    if hasattr(port, '_messages') and not isinstance(port._messages, SDeque):
        d = SDeque(port._messages)
        port._messages = d
        if hasattr(port, '_parser'):
            port._parser.messages = d
    return port
