"""Shared pieces of the parser domains (C04, C05, C06, C18, C19)."""
import itertools

from . import msgs
from .common import exc_name

# one representative per byte class
CLASS_ALPHABET = [0x00, 0x7f, 0x90, 0xc5, 0xe0, 0xf0, 0xf1, 0xf2, 0xf3, 0xf4, 0xf6, 0xf7, 0xf8, 0xf9, 0xff]
DEFINED_RT = (0xf8, 0xfa, 0xfb, 0xfc, 0xfe, 0xff)
RT_TYPE = {0xf8: 'clock', 0xfa: 'start', 0xfb: 'continue', 0xfc: 'stop', 0xfe: 'active_sensing', 0xff: 'reset'}


def canon_list(ms):
    return ';'.join(msgs.canon_msg(m) for m in ms)


def valid_msg(m):
    """Independent validity table (MIDI 1.0 ranges)."""
    t = m.type
    if t not in msgs.TYPES:
        return False
    d = vars(m)
    _, names = msgs.TYPES[t]
    if set(d) != set(names) | {'type', 'time'}:
        return False
    for n in names:
        if n == 'data':
            if not all(isinstance(b, int) and 0 <= b <= 127 for b in d[n]):
                return False
        else:
            lo, hi = msgs.RANGES[n]
            if not (isinstance(d[n], int) and lo <= d[n] <= hi):
                return False
    return True


def parse_oracle(bs, ms):
    """Property C04 judged on the implementation's output for input bytes bs."""
    for m in ms:
        if not valid_msg(m):
            return f'parser yielded an invalid message {m!r}'
    rt_in = [RT_TYPE[b] for b in bs if b in RT_TYPE]
    rt_out = [m.type for m in ms if m.type in msgs.REALTIME]
    if rt_in != rt_out:
        return f'real-time messages {rt_out} do not match the real-time bytes of the input {rt_in}'
    rest = [b for b in bs if b < 0xf8]
    pos = 0
    for m in ms:
        if m.type in msgs.REALTIME:
            continue
        d = dict(vars(m))
        for b in msgs.encode_ref(m.type, d):
            try:
                pos = rest.index(b, pos) + 1
            except ValueError:
                return f'bytes of {m!r} are not a subsequence of the input (invented, duplicated or reordered)'
    return None


def impl_parse_all(bs):
    """(protocol line, oracle failure) of mido.parse_all on bs."""
    import mido
    try:
        ms = mido.parse_all(bs)
    except Exception as e:
        return 'err ' + exc_name(e), f'parse_all raised {type(e).__name__}: {e}'
    line = 'ok' + (' ' + canon_list(ms) if ms else '')
    fail = parse_oracle(bs, ms)
    if fail is None and ms and len(bs) < 200:
        # the messages handed out belong to the caller: what it does to them must not show up in a later parse
        for m in ms:
            m.time = 77
            if m.type == 'sysex':
                m.data = (1, 2, 3)
            elif hasattr(m, 'channel'):
                m.channel = (m.channel + 1) % 16
        try:
            again = mido.parse_all(bs)
            line2 = 'ok' + (' ' + canon_list(again) if again else '')
            if line2 != line or any(m.time != 0 for m in again):
                fail = f'after the caller changed the messages of an earlier parse, the same bytes parse to {line2[:200]} (times {[m.time for m in again][:6]}) instead of {line[:200]}'
            elif any(a is b for a in ms for b in again):
                fail = 'two parses handed out the very same message object'
        except Exception as e:
            fail = f'second parse raised {type(e).__name__}: {e}'
    return line, fail


def strings_upto(alphabet, n):
    for ln in range(n + 1):
        for t in itertools.product(alphabet, repeat=ln):
            yield list(t)


def random_stream(rng, n, p_status):
    out = []
    for _ in range(n):
        if rng.random() < p_status:
            out.append(rng.randint(0x80, 0xff))
        else:
            out.append(rng.randint(0, 0x7f))
    return out


def message_stream(rng, nmsgs, garbage=0.2, max_sysex=6):
    """Mostly valid concatenated encodings with some garbage; returns bytes."""
    out = []
    for _ in range(nmsgs):
        if rng.random() < garbage:
            out += [rng.choice(CLASS_ALPHABET + [rng.randint(0, 255)]) for _ in range(rng.randint(1, 3))]
        else:
            t, d = msgs.random_message(rng, max_sysex=max_sysex)
            enc = msgs.encode_ref(t, d)
            if rng.random() < 0.1:
                enc = enc[:rng.randrange(len(enc))]       # cut short
            out += enc
    return out
