"""A small translator from a fragment of Python to Lean 4 (shallow embedding).

On every run it parses the *source text* of selected functions and methods of the mido
working tree with `ast` and writes lean/MidoModel/Generated/Src.lean.  The theorems in
lean/MidoProofs/SrcTie.lean state that each generated definition agrees with the
hand-written model (on the domain the model covers) and are re-checked by `lake build`,
so an edit of one of these functions changes a proof obligation, not only the sampled
correspondence.

The translation is syntax directed and deliberately dumb:
  * a function body becomes a `do` block in `Except Err`; local variables are `let mut`;
  * `raise X(...)` is `throw Err.X`, `try/except` is `try/catch`;
  * Python ints are `Int`, lists/tuples/deques of ints are `List Int` with VALUE semantics
    (aliasing is not modelled), `self.attr` are fields of a structure that the method
    takes and returns, `msg['k']` / `message.k` of a record-typed parameter is the Lean
    parameter `msg_k`;
  * operators are mapped to the definitions of MidoModel/PySem.lean (`land`, `lor`, `shlN`,
    `idx`, `dictGet`, ...), whose agreement with CPython is tested separately;
  * a `while` loop becomes an auxiliary recursive function with explicit fuel (taken from the
    unit's configuration; running out of fuel is `Err.Hang`), a `for` loop over a list is
    Lean's `for`;
  * module level integer constants are inlined with the value they have in the imported
    module; dict tables with integer keys become association lists.
Anything else raises `Untranslatable`; the caller reports the unit as a broken tie.

The types of parameters and fields are not inferred from nothing: they are declared in
UNITS below (that is the only per-function knowledge the translator is given).
"""
import ast
import importlib
import os
import textwrap

from .common import LEAN_DIR, REPO, import_mido

INT, BOOL, STR, NONE = 'Int', 'Bool', 'String', 'Unit'


def LIST(t):
    return ('List', t)


LINT = LIST(INT)
SPECROW = 'SpecRow'
FILE = 'File'        # a binary file object being read: the bytes not yet consumed
MSG = 'TMsg'         # a message in a track as far as tracks.py / write_track look at it
OPT_INT = 'OptInt'    # None or an int (running_status_byte)
INFILE = 'PyFile'     # a binary file being read: unread bytes and position (tell())
EXTMSG = 'M'          # a message object built by code outside the translated fragment (passed in as `ext`)
OBJ = 'PyObjV'         # a message object as frozen.py sees it: its class (by name) and its instance dict
PORT = 'P'             # a port object built by the backend module's class (outside the fragment)
KWARGS = 'KwArgs'      # the keyword arguments of a call as a dict: name -> None or a string (backend.py: only `api` is looked at)
DEVICE = 'Device'     # an entry of a backend's device list: {'name': str, 'is_input': bool, 'is_output': bool}
DICT = 'PyDict'       # a dict with string keys whose values are ints, strings or tuples of ints (a message dict)


class Rec:
    """a parameter that is a dict / object with named integer (or list) attributes"""

    def __init__(self, fields, out=False):
        self.fields = fields      # ordered dict name -> type
        self.out = out            # attributes are assigned and returned


class Untranslatable(Exception):
    pass


def lty(t):
    if isinstance(t, tuple) and t[0] == 'List':
        return '(List %s)' % lty(t[1])
    if isinstance(t, tuple) and t[0] == 'Tuple':
        return '(' + ' × '.join(lty(x) for x in t[1]) + ')'
    if t == SPECROW:
        return 'SpecRow'
    if t == FILE:
        return '(List Int)'
    if t == OPT_INT:
        return '(Option Int)'
    if t == INFILE:
        return 'PyFile'
    if t == DICT:
        return 'PyDict'
    if isinstance(t, tuple) and t[0] == 'Obj':
        return t[1]
    if isinstance(t, tuple) and t[0] == 'Raw':
        return t[1]
    if isinstance(t, tuple) and t[0] == 'ObjM':
        return '(%s M)' % t[1]
    if t == ('Text',):
        return '(List Int)'
    if t == OBJ:
        return '(PyObj V)'
    if isinstance(t, tuple) and t[0] == 'Set':
        return '(List %s)' % lty(t[1])
    if isinstance(t, tuple) and t[0] == 'Opt':
        return '(Option %s)' % lty(t[1])
    return t


def is_file(t):
    return t in (FILE, INFILE)


ERRS = {'ValueError', 'TypeError', 'AttributeError', 'LookupError', 'IndexError', 'KeyError',
        'OSError', 'EOFError', 'KeySignatureError'}


class Unit:
    def __init__(self, file, name, params, ret=None, cls=None, fields=None, fuel=None, lean_name=None,
                 self_type=None):
        self.file, self.name, self.params, self.ret = file, name, params, ret
        self.cls, self.fields, self.fuel = cls, fields, fuel or {}
        self.lean_name = lean_name or ((cls + '.' if cls else '') + name)
        self.self_type = self_type


class FnTranslator:
    def __init__(self, tr, unit, fn):
        self.tr, self.unit, self.fn = tr, unit, fn
        self.env = {}           # python name -> (lean expr, type)
        self.muts = []          # declared let-mut locals in order
        self.aux = []           # auxiliary definitions (loops)
        self.nloops = 0
        self.out_rec = None

    @property
    def pm(self):
        return getattr(self.unit, 'pm', False)

    def monad(self):
        return f'PM {self.unit.self_type}' if self.pm else 'Except Err'

    def ext_sig(self):
        if self.pm:
            return self.unit.ext_sig
        return '{M : Type} [Inhabited M] (ext : ReaderExt M)'

    def extra_args(self, callee=None):
        return ''.join(f'{n} ' for n, _ in getattr(callee or self.unit, 'extra', []))

    # ---------- expressions -------------------------------------------------
    def class_name(self, name):
        mod = self.tr.module_of(self.unit.file)
        v = getattr(mod, name, None)
        if not isinstance(v, type):
            raise Untranslatable(f'{name} is not a class')
        self.tr.class_table(self.unit.file)
        self.tr.classes_used.setdefault(self.unit.file, set()).add(v)
        return '"%s"' % v.__name__

    def const_of_global(self, name):
        mod = self.tr.module_of(self.unit.file)
        if not hasattr(mod, name):
            raise Untranslatable(f'unknown name {name}')
        v = getattr(mod, name)
        if isinstance(v, type) and getattr(self.unit, 'objects', False):
            return self.class_name(name), STR          # a class used as a value: its name
        if isinstance(v, bool):
            return ('true' if v else 'false'), BOOL
        if isinstance(v, int):
            return f'({v} : Int)', INT
        if isinstance(v, dict) and v and all(callable(x) for x in v.values()):
            kt = INT if all(isinstance(k, int) for k in v) else STR
            return self.tr.fn_table(self.unit.file, name, v), ('FnDict', kt, self.unit.file, name)
        if isinstance(v, dict) and v and all(isinstance(k, int) for k in v):
            return self.tr.table(name, v), ('Dict', None)
        if isinstance(v, dict) and v and all(isinstance(k, str) for k in v):
            return self.tr.table(name, v), ('DictS', None)
        if isinstance(v, (set, frozenset, list, tuple)) and all(isinstance(k, int) and not isinstance(k, bool) for k in v):
            if len(v) > 16:
                # a large set of ints (CHANNEL_MESSAGES): a named table, only ever used for membership
                if name not in self.tr.tables:
                    self.tr.tables[name] = f'def {name} : List Int :=\n  [' + ', '.join(str(k) for k in sorted(v)) + ']'
                return name, LINT
            return '([%s] : List Int)' % ', '.join(str(k) for k in sorted(v)), LINT
        raise Untranslatable(f'global {name} of unsupported kind {type(v).__name__}')

    def expr(self, e):
        """-> (lean text, type).  Monadic sub-terms are written `(← t)`."""
        if isinstance(e, ast.Constant):
            v = e.value
            if isinstance(v, bool):
                return ('true' if v else 'false'), BOOL
            if isinstance(v, int):
                return f'({v} : Int)', INT
            if isinstance(v, str):
                return '"%s"' % v.replace('\\', '\\\\').replace('"', '\\"'), STR
            if v is None:
                return '()', NONE
            if isinstance(v, bytes):
                return '([%s] : List Int)' % ', '.join(str(b) for b in v), LINT
            raise Untranslatable(f'constant {v!r}')
        if isinstance(e, ast.Name):
            if e.id in getattr(self.unit, 'globals_state', {}) and e.id not in self.env:
                return f'(← get).{e.id}', self.unit.globals_state[e.id]      # a module global the function rebinds
            if e.id in self.env:
                return self.env[e.id]
            return self.const_of_global(e.id)
        if isinstance(e, ast.Attribute) and isinstance(e.value, ast.Name) and e.value.id in getattr(self.unit, 'opaque', {}):
            attrs = self.unit.opaque[e.value.id].get('attrs', {})
            if e.attr not in attrs:
                raise Untranslatable(f'attribute {e.attr} of the opaque object {e.value.id}')
            return f'{e.value.id}_{e.attr}', attrs[e.attr]
        if isinstance(e, ast.Attribute):
            if isinstance(e.value, ast.Name) and e.value.id in self.env:
                base, t = self.env[e.value.id]
                if isinstance(t, Rec):
                    if e.attr in getattr(self.unit, 'attr_consts', {}):
                        return ('true' if self.unit.attr_consts[e.attr] else 'false'), BOOL
                    if e.attr not in t.fields:
                        pu = self.tr.unit_by_pyname(self.unit.file, e.attr, pycls=getattr(self.unit, 'pycls', None)) \
                            if getattr(self.unit, 'pycls', None) else None
                        if pu is not None and getattr(pu, 'is_property', False):
                            return f'(← {pu.lean_name} {self.self_args(pu, e.value.id, t)})', pu.ret
                        raise Untranslatable(f'attribute {e.attr} of {e.value.id}')
                    return f'{e.value.id}_{e.attr}', t.fields[e.attr]
                if t == 'Self':
                    if e.attr in getattr(self.unit, 'attr_consts', {}):
                        return ('true' if self.unit.attr_consts[e.attr] else 'false'), BOOL
                    if e.attr not in self.unit.fields:
                        raise Untranslatable(f'field {e.attr}')
                    if self.pm:
                        return f'(← get).{e.attr}', self.unit.fields[e.attr]
                    return f'self.{e.attr}', self.unit.fields[e.attr]
                if isinstance(t, tuple) and t[0] == 'ObjM':
                    fields = self.tr.class_fields(t[1])
                    if e.attr not in fields:
                        raise Untranslatable(f'field {e.attr} of {t[1]}')
                    return f'{base}.{e.attr}', fields[e.attr]
                if t == MSG and e.attr == 'time':
                    return f'{base}.time', INT
                if t == MSG and e.attr in ('is_realtime', 'is_meta'):
                    return f'{base}.{ {"is_realtime": "isRealtime", "is_meta": "isMeta"}[e.attr] }', BOOL
                if t == MSG and e.attr == 'data':
                    return f'{base}.data', LINT
                if t == MSG and e.attr == 'tempo':
                    return f'{base}.tempo', INT
            if isinstance(e.value, ast.Attribute):
                base, t = self.expr(e.value)
                if isinstance(t, tuple) and t[0] == 'Obj':
                    fields = self.tr.class_fields(t[1])
                    if e.attr not in fields:
                        raise Untranslatable(f'field {e.attr} of {t[1]}')
                    return f'{base}.{e.attr}', fields[e.attr]
            raise Untranslatable('attribute ' + ast.dump(e)[:80])
        if isinstance(e, ast.Subscript):
            if isinstance(e.value, ast.Name) and e.value.id in self.env and isinstance(self.env[e.value.id][1], Rec):
                t = self.env[e.value.id][1]
                k = e.slice
                if isinstance(k, ast.Constant) and k.value in t.fields:
                    return f'{e.value.id}_{k.value}', t.fields[k.value]
                raise Untranslatable('record key')
            base, t = self.expr(e.value)
            if t == DEVICE:
                k = e.slice
                if isinstance(k, ast.Constant) and k.value in ('name', 'is_input', 'is_output'):
                    return f'{base}.{k.value}', {'name': STR, 'is_input': BOOL, 'is_output': BOOL}[k.value]
                raise Untranslatable('device key')
            if t == SPECROW:
                k = e.slice
                if isinstance(k, ast.Constant) and k.value in ('length', 'type', 'status_byte', 'value_names'):
                    return f'{base}.{k.value}', {'length': INT, 'type': STR, 'status_byte': INT, 'value_names': LIST(STR)}[k.value]
                raise Untranslatable('spec key')
            if isinstance(t, tuple) and t[0] == 'Dict':
                k, kt = self.expr(e.slice)
                return f'(← dictGet {base} {k})', SPECROW if t[1] is None else t[1]
            if isinstance(t, tuple) and t[0] == 'DictS':
                k, kt = self.expr(e.slice)
                if kt != STR:
                    raise Untranslatable('key type')
                return f'(← dictGetS {base} {k})', SPECROW if t[1] is None else t[1]
            if t == DICT:
                # what the value is used as follows from the key: 'type' is the type name, 'data' the payload tuple, every
                # other attribute of a message dict is an int
                k, kt = self.expr(e.slice)
                if kt != STR:
                    raise Untranslatable('key type')
                if isinstance(e.slice, ast.Constant) and e.slice.value == 'type':
                    return f'(← dgetStr {base} {k})', STR
                if isinstance(e.slice, ast.Constant) and e.slice.value == 'data':
                    return f'(← dgetInts {base} {k})', LINT
                return f'(← dgetInt {base} {k})', INT
            if isinstance(t, tuple) and t[0] == 'List':
                s = e.slice
                if isinstance(s, ast.Slice):
                    if s.step is not None:
                        raise Untranslatable('slice step')
                    lo, hi = s.lower, s.upper
                    if hi is None and isinstance(lo, ast.Constant) and isinstance(lo.value, int) and lo.value >= 0:
                        return f'(sliceFrom {base} {lo.value})', t
                    if lo is None and isinstance(hi, ast.UnaryOp) and isinstance(hi.op, ast.USub) and \
                            isinstance(hi.operand, ast.Constant):
                        return f'(sliceDropLast {base} {hi.operand.value})', t
                    if lo is None and isinstance(hi, ast.Constant) and isinstance(hi.value, int) and hi.value >= 0:
                        return f'(List.take {hi.value} {base})', t
                    if lo is not None:
                        lov, lot = self.expr(lo)
                        if lot == INT and hi is None:
                            return f'(sliceFromI {base} {lov})', t
                        if lot == INT and hi is not None:
                            hiv, hit = self.expr(hi)
                            if hit == INT:
                                return f'(sliceBetween {base} {lov} {hiv})', t
                    raise Untranslatable('slice form')
                i, it = self.expr(s)
                if it != INT:
                    raise Untranslatable('index type')
                return f'(← idx {base} {i})', t[1]
            raise Untranslatable('subscript of ' + str(t))
        if isinstance(e, ast.BinOp):
            a, ta = self.expr(e.left)
            b, tb = self.expr(e.right)
            op = type(e.op).__name__
            if isinstance(ta, tuple) and ta[0] == 'List' and op == 'Add':
                if tb != ta:
                    raise Untranslatable('list + non-list')
                return f'({a} ++ {b})', ta
            if ta != INT or tb != INT:
                raise Untranslatable(f'binop {op} on {ta}, {tb}')
            lit = isinstance(e.right, ast.Constant) and isinstance(e.right.value, int) and e.right.value >= 0
            if op == 'BitOr':
                return f'(lor {a} {b})', INT
            if op == 'BitAnd':
                return f'(land {a} {b})', INT
            if op == 'LShift':
                return (f'(shlN {a} {e.right.value})' if lit else f'(← shl {a} {b})'), INT
            if op == 'RShift':
                return (f'(shrN {a} {e.right.value})' if lit else f'(← shr {a} {b})'), INT
            if op == 'Add':
                return f'({a} + {b})', INT
            if op == 'Sub':
                return f'({a} - {b})', INT
            if op == 'Mult':
                return f'({a} * {b})', INT
            if op == 'Pow':
                return f'(← pow {a} {b})', INT
            raise Untranslatable('operator ' + op)
        if isinstance(e, ast.UnaryOp):
            a, ta = self.expr(e.operand)
            if isinstance(e.op, ast.Not):
                tv = self.truth(a, ta)
                if tv in ('true', 'false') and self.pm:
                    return ('false' if tv == 'true' else 'true'), BOOL
                return f'(!{tv})', BOOL
            if isinstance(e.op, ast.USub) and ta == INT:
                return f'(-{a})', INT
            if isinstance(e.op, ast.Invert) and ta == INT:
                return f'(inv {a})', INT
            raise Untranslatable('unary')
        if isinstance(e, ast.BoolOp) and isinstance(e.op, ast.And) and len(e.values) == 2 and isinstance(e.values[0], ast.Name) \
                and isinstance(e.values[1], ast.Compare) and len(e.values[1].ops) == 1 and isinstance(e.values[1].ops[0], ast.Eq) \
                and isinstance(e.values[1].left, ast.Subscript) and isinstance(e.values[1].left.value, ast.Name) \
                and e.values[1].left.value.id == e.values[0].id:
            # `xs and xs[0] == k` / `xs and xs[-1] == k`: the subscript is only evaluated on a non-empty list
            xs, xt = self.expr(e.values[0])
            k, kt = self.expr(e.values[1].comparators[0])
            ix = e.values[1].left.slice
            if xt == LINT and kt == INT:
                if isinstance(ix, ast.Constant) and ix.value == 0:
                    return f'(List.head? {xs} == some {k})', BOOL
                if isinstance(ix, ast.UnaryOp) and isinstance(ix.op, ast.USub) and isinstance(ix.operand, ast.Constant) and ix.operand.value == 1:
                    return f'(List.getLast? {xs} == some {k})', BOOL
            raise Untranslatable('guarded subscript form')
        if isinstance(e, ast.BoolOp) and isinstance(e.op, ast.Or) and len(e.values) == 2 and isinstance(e.values[1], ast.Constant) \
                and e.values[1].value is None:
            a, t = self.expr(e.values[0])
            if t == ('Opt', STR):
                return f'(optStrOrNone {a})', t        # `x or None`: '' becomes None
            raise Untranslatable('or None on ' + str(t))
        if isinstance(e, ast.BoolOp):
            parts = [self.cond(v) for v in e.values]
            if isinstance(e.op, ast.And) and self.pm:
                # operands known from the declared configuration (hasattr of a declared attribute)
                if 'false' in parts:
                    return 'false', BOOL
                parts = [p for p in parts if p != 'true'] or ['true']
                if len(parts) == 1:
                    return parts[0], BOOL
            if any('←' in p for p in parts[1:]):
                # a later operand has an effect (an index that may raise): it is only evaluated when the earlier ones
                # have not decided the result
                acc = parts[-1]
                for pth in reversed(parts[:-1]):
                    if isinstance(e.op, ast.And):
                        acc = f'(← (do if {pth} then return {acc} else return false))'
                    else:
                        acc = f'(← (do if {pth} then return true else return {acc}))'
                return acc, BOOL
            op = ' && ' if isinstance(e.op, ast.And) else ' || '
            return '(' + op.join(parts) + ')', BOOL
        if isinstance(e, ast.Compare) and len(e.ops) == 1 and isinstance(e.left, ast.Attribute) and e.left.attr == 'type' \
                and isinstance(e.left.value, ast.Name) and self.env.get(e.left.value.id, (None, None))[1] == EXTMSG \
                and getattr(self.unit, 'ext', False) and isinstance(e.ops[0], ast.Eq) \
                and isinstance(e.comparators[0], ast.Constant) and e.comparators[0].value == 'sysex':
            return f'(ext.isSysex {self.env[e.left.value.id][0]})', BOOL
        if isinstance(e, ast.Compare) and len(e.ops) == 1 and isinstance(e.left, ast.Attribute) and e.left.attr == 'type' \
                and isinstance(e.left.value, ast.Name) and self.env.get(e.left.value.id, (None, None))[1] == MSG:
            r = e.comparators[0]
            if isinstance(r, ast.Constant) and r.value in ('end_of_track', 'sysex', 'set_tempo') and isinstance(e.ops[0], (ast.Eq, ast.NotEq)):
                b = self.env[e.left.value.id][0]
                fld = {'end_of_track': 'eot', 'sysex': 'isSysex', 'set_tempo': 'isSetTempo'}[r.value]
                return (f'{b}.{fld}' if isinstance(e.ops[0], ast.Eq) else f'(!{b}.{fld})'), BOOL
            raise Untranslatable('comparison of a message type')
        if isinstance(e, ast.Compare):
            items = [e.left] + list(e.comparators)
            vals = [self.expr(x) for x in items[:1]]
            out = []
            prev, pt = vals[0]
            for op, rhs in zip(e.ops, e.comparators):
                opn = type(op).__name__
                if opn in ('In', 'NotIn'):
                    r, rt = self.expr(rhs)
                    if isinstance(rt, tuple) and rt[0] == 'Dict':
                        c = f'(dictHas {r} {prev})'
                    elif isinstance(rt, tuple) and rt[0] == 'DictS' and pt == STR:
                        c = f'(dictHasS {r} {prev})'
                    elif isinstance(rt, tuple) and rt[0] == 'FnDict' and pt == rt[1]:
                        c = f'({"dictHas" if pt == INT else "dictHasS"} {r} {prev})'
                    elif rt == LINT and pt == INT:
                        c = f'(List.elem {prev} {r})'
                    elif rt == KWARGS and pt == STR:
                        c = f'(kwHas {r} {prev})'
                    elif rt in (LIST(STR), ('Set', STR)) and pt == STR:
                        c = f'(List.elem {prev} {r})'
                    else:
                        raise Untranslatable('in on ' + str(rt))
                    out.append(c if opn == 'In' else f'(!{c})')
                    prev, pt = r, rt
                    continue
                if opn in ('Is', 'IsNot') and isinstance(rhs, ast.Constant) and rhs.value is None:
                    # the declared type of the parameter says whether it is None
                    if pt == OPT_INT:
                        out.append(f'({prev} == none)' if opn == 'Is' else f'({prev} != none)')
                    elif isinstance(pt, tuple) and pt[0] == 'Opt':
                        out.append(f'(Option.isNone {prev})' if opn == 'Is' else f'(Option.isSome {prev})')
                    elif pt in (FILE, INFILE, INT, LINT, MSG) or isinstance(pt, tuple):
                        out.append('false' if opn == 'Is' else 'true')
                    elif pt == NONE:
                        out.append('true' if opn == 'Is' else 'false')
                    else:
                        raise Untranslatable('None test on ' + str(pt))
                    prev, pt = '()', NONE
                    continue
                r, rt = self.expr(rhs)
                if pt == INT and rt == OPT_INT and opn in ('Eq', 'NotEq'):
                    out.append(f'(some {prev} {"==" if opn == "Eq" else "!="} {r})')
                    prev, pt = r, rt
                    continue
                if pt != rt and not (isinstance(pt, tuple) and isinstance(rt, tuple)):
                    raise Untranslatable(f'compare {pt} with {rt}')
                sym = {'Eq': '==', 'NotEq': '!=', 'Lt': '<', 'LtE': '≤', 'Gt': '>', 'GtE': '≥'}.get(opn)
                if sym is None:
                    raise Untranslatable('comparison ' + opn)
                if sym in ('==', '!='):
                    out.append(f'({prev} {sym} {r})')
                else:
                    if pt != INT:
                        raise Untranslatable('ordering on ' + str(pt))
                    out.append(f'(decide ({prev} {sym} {r}))')
                prev, pt = r, rt
            return ('(' + ' && '.join(out) + ')' if len(out) > 1 else out[0]), BOOL
        if isinstance(e, ast.List) or isinstance(e, ast.Tuple):
            if not e.elts:
                return '[]', LIST(INT)
            xs = [self.expr(x) for x in e.elts]
            t0 = xs[0][1]
            if any(t != t0 for _, t in xs) and isinstance(e, ast.Tuple):
                return '(' + ', '.join(x for x, _ in xs) + ')', ('Tuple', [t for _, t in xs])
            if any(t != t0 for _, t in xs):
                raise Untranslatable('heterogeneous list')
            return '[' + ', '.join(x for x, _ in xs) + ']', LIST(t0)
        if isinstance(e, ast.Dict) and getattr(self.unit, 'dicts', False):
            items = []
            for k, v in zip(e.keys, e.values):
                if not (isinstance(k, ast.Constant) and isinstance(k.value, str)):
                    raise Untranslatable('dict key')
                items.append(f'("{k.value}", {self.dv(*self.expr(v))})')
            return '(dfromPairs [' + ', '.join(items) + '])', DICT
        if isinstance(e, ast.DictComp) and getattr(self.unit, 'dicts', False):
            # {name: value for name, value in zip(names, data)}
            g = e.generators[0] if len(e.generators) == 1 else None
            if g is None or g.ifs or not (isinstance(g.target, ast.Tuple) and len(g.target.elts) == 2 and
                                          all(isinstance(x, ast.Name) for x in g.target.elts)) \
                    or not (isinstance(g.iter, ast.Call) and isinstance(g.iter.func, ast.Name) and g.iter.func.id == 'zip'
                            and len(g.iter.args) == 2) \
                    or not (isinstance(e.key, ast.Name) and e.key.id == g.target.elts[0].id
                            and isinstance(e.value, ast.Name) and e.value.id == g.target.elts[1].id):
                raise Untranslatable('dict comprehension form')
            a, ta = self.expr(g.iter.args[0])
            b, tb = self.expr(g.iter.args[1])
            if ta != LIST(STR) or tb != LINT:
                raise Untranslatable('dict comprehension over ' + str((ta, tb)))
            return f'(dfromPairs (List.map (fun p => (p.1, DV.int p.2)) (List.zip {a} {b})))', DICT
        if isinstance(e, ast.Dict):
            # a record result: values in the order of the keys as written
            xs = [self.expr(v) for v in e.values]
            if len(xs) == 1:
                return xs[0]
            return '(' + ', '.join(x for x, _ in xs) + ')', ('Tuple', [t for _, t in xs])
        if isinstance(e, ast.IfExp):
            c = self.cond(e.test)
            a, ta = self.expr(e.body)
            b, tb = self.expr(e.orelse)
            if ta != tb:
                raise Untranslatable('if-expression types')
            return f'(if {c} then {a} else {b})', ta
        if isinstance(e, ast.SetComp):
            v, t = self.expr(ast.copy_location(ast.ListComp(elt=e.elt, generators=e.generators), e))
            if not (isinstance(t, tuple) and t[0] == 'List' and t[1] == STR):
                raise Untranslatable('set of ' + str(t))
            return v, ('Set', STR)       # only membership is asked of it: the list of its elements decides the same
        if isinstance(e, ast.ListComp):
            if len(e.generators) != 1 or len(e.generators[0].ifs) > 1 or not isinstance(e.generators[0].target, ast.Name):
                raise Untranslatable('comprehension form')
            g = e.generators[0]
            src, st = self.expr(g.iter)
            if not (isinstance(st, tuple) and st[0] == 'List'):
                raise Untranslatable('comprehension source')
            v = g.target.id
            saved = self.env.get(v)
            self.env[v] = (v, st[1])
            if g.ifs:
                c = self.cond(g.ifs[0])
                if '←' in c:
                    raise Untranslatable('effect inside a comprehension filter')
                src = f'(List.filter (fun {v} => {c}) {src})'
            body, bt = self.expr(e.elt)
            if body == f'(← dgetInt {body[11:-1].split(" ")[0]} {v})' and '←' not in body[2:]:
                # [msg[name] for name in names]: the lookups happen in order, the first failing one raises
                if saved is None:
                    del self.env[v]
                else:
                    self.env[v] = saved
                return f'(← List.mapM (fun {v} => dgetInt {body[11:-1].split(" ")[0]} {v}) {src})', LIST(bt)
            if saved is None:
                del self.env[v]
            else:
                self.env[v] = saved
            if '←' in body:
                raise Untranslatable('effect inside comprehension')
            return f'(List.map (fun {v} => {body}) {src})', LIST(bt)
        if isinstance(e, ast.Call):
            return self.call(e)
        raise Untranslatable('expression ' + type(e).__name__)

    def call(self, e):
        f = e.func
        if isinstance(f, ast.Subscript) and not e.keywords:
            base, bt = self.expr(f.value)
            if isinstance(bt, tuple) and bt[0] == 'FnDict':
                k, kt = self.expr(f.slice)
                if kt != bt[1]:
                    raise Untranslatable('dispatch key type')
                return self.fn_call(bt, k, [self.expr(a) for a in e.args])
        if isinstance(f, ast.Name) and f.id in self.env and isinstance(self.env[f.id][1], tuple) and self.env[f.id][1][0] == 'FnVal' \
                and not e.keywords:
            t = self.env[f.id][1]
            return self.fn_call(('FnDict', t[1], t[2], t[3]), t[5], [self.expr(a) for a in e.args])
        if isinstance(f, ast.Attribute) and f.attr in ('bin', 'hex') and not e.args and not e.keywords and getattr(self.unit, 'ext', False) \
                and isinstance(f.value, ast.Name) and self.env.get(f.value.id, (None, None))[1] == EXTMSG:
            # message.bin() / message.hex(): the message class is outside the fragment; what they return is `ext`'s
            return f'(← ext.{f.attr} {self.env[f.value.id][0]})', (LINT if f.attr == 'bin' else ('Text',))
        if self.pm:
            r = self.pm_call(e)
            if r is not None:
                return r
        if isinstance(f, ast.Name):
            n = f.id
            if n == 'len' and len(e.args) == 1:
                a, t = self.expr(e.args[0])
                if isinstance(t, tuple) and t[0] == 'List':
                    return f'(len {a})', INT
                raise Untranslatable('len of ' + str(t))
            if n == 'isinstance' and len(e.args) == 2 and isinstance(e.args[0], ast.Attribute) and e.args[0].attr == 'time' \
                    and isinstance(e.args[0].value, ast.Name) and self.env.get(e.args[0].value.id, (None, None))[1] == MSG \
                    and isinstance(e.args[1], ast.Name) and e.args[1].id == 'Integral':
                return f'{self.env[e.args[0].value.id][0]}.timeIsInt', BOOL
            if n == 'bytearray' and not e.args and not e.keywords:
                return '[]', LINT
            if n == 'Parser' and not e.args and not e.keywords and getattr(self.unit, 'ext', False):
                self.tr.class_fields('Parser')      # the class must be among the translated ones
                return '({ messages := [], _tok := {} } : Parser M)', ('ObjM', 'Parser')
            if n == 'isinstance' and len(e.args) == 2 and isinstance(e.args[1], ast.Name) and isinstance(e.args[0], ast.Name) \
                    and self.env.get(e.args[0].id, (None, None))[1] in (OBJ, ('Opt', OBJ)):
                # isinstance(obj, C): the class of the object is C or has C among its bases (the table CLASS_MRO is read off the
                # classes of the working tree); None is an instance of none of them
                a, t = self.expr(e.args[0])
                tbl = self.tr.class_table(self.unit.file)
                cname = self.class_name(e.args[1].id)
                return (f'(isInstance {tbl} {a} {cname})' if t == OBJ else f'(optIsInstance {tbl} {a} {cname})'), BOOL
            if n == 'vars' and len(e.args) == 1 and isinstance(e.args[0], ast.Name) and self.env.get(e.args[0].id, (None, None))[1] in (OBJ, ('Opt', OBJ)):
                a, t = self.expr(e.args[0])
                return (f'{a}.vars' if t == OBJ else f'(← optObj {a}).vars'), ('Raw', 'V')
            if n == 'isinstance' and len(e.args) == 2:
                a, t = self.expr(e.args[0])
                k = e.args[1]
                kn = k.id if isinstance(k, ast.Name) else None
                if kn in ('Integral', 'Real', 'int') and t in (INT, BOOL):
                    return 'true', BOOL
                if kn == 'str' and t == STR:
                    return 'true', BOOL
                raise Untranslatable(f'isinstance({t}, {kn})')
            if n in ('list', 'tuple') and len(e.args) == 1:
                a, t = self.expr(e.args[0])
                if isinstance(t, tuple) and t[0] == 'List':
                    return a, t
                raise Untranslatable(n + ' of ' + str(t))
            if n == 'MetaMessage' and len(e.args) == 1 and isinstance(e.args[0], ast.Constant) and e.args[0].value == 'end_of_track' \
                    and [k.arg for k in e.keywords] == ['time']:
                tv, tt = self.expr(e.keywords[0].value)
                if tt != INT:
                    raise Untranslatable('time of the new end_of_track')
                return f'({{ id := 0, eot := true, time := {tv}, isMeta := true, bytes := .ok [255, 47, 0] }} : TMsg)', MSG
            if n == 'MidiTrack' and not e.args and not e.keywords:
                return '[]', LINT          # the element type comes from the unit's local_types
            if n == 'Message' and getattr(self.unit, 'ext', False) and len(e.args) == 1 and isinstance(e.args[0], ast.Constant) \
                    and e.args[0].value == 'sysex' and sorted(k.arg for k in e.keywords) == ['data', 'time']:
                kw = {k.arg: self.expr(k.value) for k in e.keywords}
                if kw['data'][1] == LINT and kw['time'][1] == INT:
                    return f'(← ext.mkSysex {kw["data"][0]} {kw["time"][0]})', EXTMSG
            if n == 'build_meta_message' and getattr(self.unit, 'ext', False) and len(e.args) == 3 and not e.keywords:
                xs = [self.expr(a) for a in e.args]
                if [t for _, t in xs] == [INT, LINT, INT]:
                    return '(← ext.buildMeta %s)' % ' '.join(x for x, _ in xs), EXTMSG
            if n == 'build_meta_message' and getattr(self.unit, 'ext', False) and len(e.args) == 2 and not e.keywords:
                xs = [self.expr(a) for a in e.args]
                if [t for _, t in xs] == [INT, LINT]:
                    return '(← ext.buildMeta %s (0 : Int))' % ' '.join(x for x, _ in xs), EXTMSG     # delta=0 is the default
            if n == 'MidiTrack' and len(e.args) == 1 and not e.keywords:
                a, t = self.expr(e.args[0])
                if t == LIST(MSG):
                    return a, t
                raise Untranslatable('MidiTrack of ' + str(t))
            if n == 'int' and len(e.args) == 1 and not e.keywords and 'pyint' in getattr(self.unit, 'fn_params', {}):
                a, t = self.expr(e.args[0])
                if t == ('Text',):
                    return f'(← pyint {a})', INT          # int(text): what it accepts and returns is a parameter of the unit
            if n in getattr(self.unit, 'fn_params', {}) and n != 'pyint' and not e.keywords:
                # a function of the code outside the fragment (float arithmetic): a parameter of the unit
                args = [self.expr(a) for a in e.args]
                if all(t == INT for _, t in args):
                    return '(%s %s)' % (n, ' '.join(a for a, _ in args)), INT
            if n == 'hasattr' and len(e.args) == 2 and isinstance(e.args[0], ast.Attribute) \
                    and isinstance(e.args[0].value, ast.Name) and e.args[0].value.id == 'self' and e.args[0].attr == 'module' \
                    and isinstance(e.args[1], ast.Constant) and e.args[1].value in getattr(self.unit, 'module_has', {}):
                return self.unit.module_has[e.args[1].value], BOOL       # what the backend module defines is a parameter
            if n == 'sum' and len(e.args) == 1 and not e.keywords and isinstance(e.args[0], ast.GeneratorExp) \
                    and len(e.args[0].generators) == 1 and not e.args[0].generators[0].ifs \
                    and isinstance(e.args[0].generators[0].target, ast.Name):
                # sum(ELT for x in self): the object's own (translated) __iter__ runs to its end, the values are added from 0
                g = e.args[0].generators[0]
                if isinstance(g.iter, ast.Name) and g.iter.id in self.env and isinstance(self.env[g.iter.id][1], Rec) \
                        and getattr(self.unit, 'pycls', None):
                    it = self.tr.unit_by_pyname(self.unit.file, '__iter__', pycls=self.unit.pycls)
                    if it is None:
                        raise Untranslatable('iteration over an object whose __iter__ is not translated')
                    src = f'(← {it.lean_name} {self.self_args(it, g.iter.id, self.env[g.iter.id][1])})'
                    et = it.ret[1]
                    v = g.target.id
                    saved = self.env.get(v)
                    self.env[v] = (v, et)
                    body, bt = self.expr(e.args[0].elt)
                    if saved is None:
                        del self.env[v]
                    else:
                        self.env[v] = saved
                    if bt != INT or '←' in body:
                        raise Untranslatable('sum of ' + str(bt))
                    return f'(List.foldl (fun acc__ {v} => acc__ + {body}) (0 : Int) {src})', INT
                raise Untranslatable('sum form')
            if n == 'abs' and len(e.args) == 1:
                a, t = self.expr(e.args[0])
                return f'(Int.ofNat (Int.natAbs {a}))', INT
            u = self.tr.unit_by_pyname(self.unit.file, n)
            if u is not None:
                if any(k.arg != 'skip_checks' for k in e.keywords):
                    raise Untranslatable('keyword argument')
                args = [self.expr(a) for a in e.args]
                if u.cls is not None:
                    raise Untranslatable('call of a method as a function')
                flat = self.flat_args(u, args, e.args)
                return f'(← {u.lean_name} {flat})', u.ret
            raise Untranslatable('call of ' + n)
        if isinstance(f, ast.Attribute) and isinstance(f.value, ast.Name) and f.value.id == 'ports' and f.attr == 'IOPort' \
                and len(e.args) == 2 and not e.keywords and 'ports_IOPort' in getattr(self.unit, 'fn_params', {}):
            a, ta = self.expr(e.args[0])
            b, tb = self.expr(e.args[1])
            if ta != PORT or tb != PORT:
                raise Untranslatable('IOPort of ' + str((ta, tb)))
            return f'(ports_IOPort {a} {b})', PORT          # the wrapper class of ports.py: a constructor, a parameter here
        if isinstance(f, ast.Attribute) and isinstance(f.value, ast.Attribute) and isinstance(f.value.value, ast.Name) \
                and f.value.value.id == 'self' and f.value.attr == 'module' and f.attr in getattr(self.unit, 'module_fns', {}) \
                and not e.args and len(e.keywords) == 1 and e.keywords[0].arg is None:
            # self.module.get_devices(**kw): a function of the backend module, a parameter of the unit
            kw, kt = self.expr(e.keywords[0].value)
            if kt != KWARGS:
                raise Untranslatable('module function arguments')
            nm, rt = self.unit.module_fns[f.attr]
            return f'(← {nm} {kw})', rt
        if isinstance(f, ast.Attribute) and isinstance(f.value, ast.Name) and isinstance(self.env.get(f.value.id, (None, None))[1], Rec) \
                and getattr(self.unit, 'pycls', None) and not e.args and len(e.keywords) == 1 and e.keywords[0].arg is None \
                and f.value.id not in getattr(self.unit, 'opaque', {}):
            # self.method(**kw): the dict becomes the callee's **kwargs
            mu = self.tr.unit_by_pyname(self.unit.file, f.attr, pycls=self.unit.pycls)
            if mu is not None and mu.ret not in (None, NONE) and len(mu.params) == 2 and mu.params[1][1] == KWARGS:
                kw, kt = self.expr(e.keywords[0].value)
                if kt != KWARGS:
                    raise Untranslatable('** of ' + str(kt))
                self.self_args(mu, f.value.id, self.env[f.value.id][1])
                rec_part = ' '.join(f'{f.value.id}_{k}' for k in mu.params[0][1].fields)
                fnp = ' '.join(getattr(mu, 'fn_params', {}))
                return f'(← {mu.lean_name} {rec_part} {kw} {fnp})'.replace('  ', ' ').replace(' )', ')'), mu.ret
        if isinstance(f, ast.Attribute) and isinstance(f.value, ast.Attribute) and isinstance(f.value.value, ast.Name) \
                and f.value.value.id == 'self' and f.value.attr == 'module' and f.attr in getattr(self.unit, 'module_ctors', {}) \
                and len(e.args) == 1 and len(e.keywords) == 1 and e.keywords[0].arg is None:
            # self.module.Input(name, **kw): the backend module is outside the fragment (reading `self.module` imports it on first
            # use); what its port class does with the name and the keyword dict is a parameter of the unit
            a, t = self.expr(e.args[0])
            kw, kt = self.expr(e.keywords[0].value)
            if t != ('Opt', STR) or kt != KWARGS:
                raise Untranslatable('port constructor arguments')
            return f'(← {self.unit.module_ctors[f.attr]} {a} {kw})', PORT
        if isinstance(f, ast.Attribute) and isinstance(f.value, ast.Name) and isinstance(self.env.get(f.value.id, (None, None))[1], Rec) \
                and getattr(self.unit, 'pycls', None) and not e.keywords \
                and f.value.id not in getattr(self.unit, 'opaque', {}):
            mu = self.tr.unit_by_pyname(self.unit.file, f.attr, pycls=self.unit.pycls)
            if mu is not None and mu.ret not in (None, NONE) and len(mu.params) == 1 + len(e.args):
                args = [self.expr(a) for a in e.args]
                for (pn, pt), (a, t) in zip(mu.params[1:], args):
                    if pt != t:
                        raise Untranslatable(f'argument {pn} of {f.attr}: {t} where {pt} is declared')
                sa = self.self_args(mu, f.value.id, self.env[f.value.id][1])
                rec_part = ' '.join(f'{f.value.id}_{k}' for k in mu.params[0][1].fields)
                fnp = ' '.join(getattr(mu, 'fn_params', {}))
                return f'(← {mu.lean_name} {rec_part} {" ".join(a for a, _ in args)} {fnp})'.replace('  ', ' ').replace(' )', ')'), mu.ret
        if isinstance(f, ast.Attribute) and f.attr == '__new__' and isinstance(f.value, ast.Name) and len(e.args) == 1 \
                and isinstance(e.args[0], ast.Name) and e.args[0].id == f.value.id and getattr(self.unit, 'objects', False):
            c, ct = self.expr(f.value)
            if ct != STR:
                raise Untranslatable('__new__ of ' + str(ct))
            return f'({{ cls := {c}, vars := default }} : PyObj V)', OBJ       # a new object of that class with an empty instance dict
        if isinstance(f, ast.Attribute) and f.attr == 'copy' and not e.args and not e.keywords and isinstance(f.value, ast.Name) \
                and self.env.get(f.value.id, (None, None))[1] in (OBJ, ('Opt', OBJ)) and 'obj_copy' in getattr(self.unit, 'fn_params', {}):
            a, t = self.expr(f.value)
            return (f'(← obj_copy {a})' if t == OBJ else f'(← obj_copy (← optObj {a}))'), OBJ      # the message's own copy(): a parameter
        if isinstance(f, ast.Attribute) and f.attr == 'get' and isinstance(f.value, ast.Attribute) and f.value.attr == 'environ' \
                and isinstance(f.value.value, ast.Name) and f.value.value.id == 'os' and len(e.args) == 1 and not e.keywords \
                and 'environ_get' in getattr(self.unit, 'fn_params', {}):
            # os.environ.get(name): the environment of the process is a parameter of the unit (None when the variable is unset)
            a, t = self.expr(e.args[0])
            if t != STR:
                raise Untranslatable('environment variable name')
            return f'(environ_get {a})', ('Opt', STR)
        if isinstance(f, ast.Attribute) and isinstance(f.value, ast.Name) and f.value.id in getattr(self.unit, 'opaque', {}):
            meths = self.unit.opaque[f.value.id].get('methods', {})
            if f.attr not in meths:
                raise Untranslatable(f'method {f.attr} of the opaque object {f.value.id}')
            return f'(← {f.value.id}_{f.attr})', meths[f.attr]       # what the call does is a parameter of the unit
        if isinstance(f, ast.Attribute) and f.attr == 'read' and not e.args and not e.keywords and isinstance(f.value, ast.Name) \
                and f.value.id in getattr(self, 'opened', {}):
            return self.opened[f.value.id], LINT          # the whole contents of the file that was opened for reading
        if isinstance(f, ast.Attribute) and f.attr == 'decode' and len(e.args) == 1 and isinstance(e.args[0], ast.Constant) \
                and e.args[0].value == 'latin1' and not e.keywords:
            a, t = self.expr(f.value)
            if t == LINT:
                return a, ('Text',)                        # latin1: byte values are the code points
        if isinstance(f, ast.Attribute) and f.attr == 'sub' and isinstance(f.value, ast.Name) and f.value.id == 're' and len(e.args) == 3 \
                and isinstance(e.args[0], ast.Constant) and e.args[0].value == r'\s' and isinstance(e.args[1], ast.Constant) \
                and e.args[1].value == ' ' and not e.keywords:
            a, t = self.expr(e.args[2])
            if t == ('Text',):
                return f'(subWs {a})', ('Text',)
        if isinstance(f, ast.Attribute) and f.attr == 'split' and len(e.args) == 1 and not e.keywords \
                and isinstance(e.args[0], ast.Constant) and isinstance(e.args[0].value, str) and len(e.args[0].value) == 1:
            a, t = self.expr(f.value)
            if t == ('Text',):
                return f'(splitCode ({ord(e.args[0].value)} : Int) {a})', LIST(('Text',))
        if isinstance(f, ast.Name) and f.id == 'int' and len(e.args) == 1 and not e.keywords and 'pyint' in getattr(self.unit, 'fn_params', {}):
            a, t = self.expr(e.args[0])
            if t == ('Text',):
                return f'(← pyint {a})', INT          # int(text): what it accepts and returns is a parameter of the unit
        if isinstance(f, ast.Attribute) and f.attr == 'fromhex' and isinstance(f.value, ast.Name) and f.value.id == 'bytearray' \
                and len(e.args) == 1 and not e.keywords:
            a, t = self.expr(e.args[0])
            if t == ('Text',):
                return f'(← fromhex {a})', LINT
        if isinstance(f, ast.Attribute):
            if f.attr == 'get' and len(e.args) == 1 and not e.keywords:
                base, bt = self.expr(f.value)
                if isinstance(bt, tuple) and bt[0] == 'FnDict':
                    k, kt = self.expr(e.args[0])
                    if kt != bt[1] or '←' in k and not k.startswith('(← dget'):
                        raise Untranslatable('dispatch key')
                    return '()', ('FnVal', bt[1], bt[2], bt[3], base, k)
            if f.attr == 'bit_length' and not e.args:
                a, t = self.expr(f.value)
                if t == INT:
                    return f'(bitLength {a})', INT
            if f.attr == 'tell' and not e.args and isinstance(f.value, ast.Name) and self.env.get(f.value.id, (None, None))[1] == INFILE:
                return f'(tell {f.value.id})', INT
            if f.attr == 'unpack' and isinstance(f.value, ast.Name) and f.value.id == 'struct' and len(e.args) == 2 \
                    and isinstance(e.args[0], ast.Constant):
                a, t = self.expr(e.args[1])
                if t == LINT and e.args[0].value == '>4sL':
                    return f'(← unpack4sL {a})', ('Tuple', [LINT, INT])
                if t == LINT and e.args[0].value == '>hhh':
                    return f'(← unpackHHH {a})', ('Tuple', [INT, INT, INT])
            if f.attr == 'from_bytes' and isinstance(f.value, ast.Name) and f.value.id == 'Message' and len(e.args) == 1 \
                    and [k.arg for k in e.keywords] == ['time'] and getattr(self.unit, 'ext', False):
                a, t = self.expr(e.args[0])
                tv, tt = self.expr(e.keywords[0].value)
                if t == LINT and tt == INT:
                    return f'(← ext.fromBytes {a} {tv})', EXTMSG
            if f.attr == 'from_bytes' and isinstance(f.value, ast.Name) and f.value.id == 'Message' and len(e.args) == 1 \
                    and not e.keywords and getattr(self.unit, 'ext', False):
                a, t = self.expr(e.args[0])
                if t == LINT:
                    return f'(← ext.fromBytes {a} (0 : Int))', EXTMSG       # time=0 is the default
            if f.attr == 'bytes' and not e.args and not e.keywords:
                a, t = self.expr(f.value)
                if t == MSG:
                    return f'(← {a}.bytes)', LINT
            if f.attr == 'pack' and isinstance(f.value, ast.Name) and f.value.id == 'struct' and len(e.args) == 2 \
                    and isinstance(e.args[0], ast.Constant) and e.args[0].value == '>L':
                a, t = self.expr(e.args[1])
                if t == INT:
                    return f'(← packU32 {a})', LINT
            if f.attr == 'pack' and isinstance(f.value, ast.Name) and f.value.id == 'struct' and len(e.args) == 4 \
                    and isinstance(e.args[0], ast.Constant) and e.args[0].value == '>hhh':
                xs = [self.expr(a) for a in e.args[1:]]
                if all(t == INT for _, t in xs):
                    return '(← packI16x3 %s)' % ' '.join(x for x, _ in xs), LINT
            if f.attr == 'copy' and not e.args:
                a, t = self.expr(f.value)
                kws = {k.arg: k.value for k in e.keywords}
                if t == MSG and set(kws) <= {'time', 'skip_checks'} and 'time' in kws:
                    # skip_checks only switches validation off; the copy is the message with the new time
                    tv, tt = self.expr(kws['time'])
                    if tt != INT:
                        raise Untranslatable('copy(time=<non-int>)')
                    return f'{{ {a} with time := {tv} }}', MSG
            raise Untranslatable('method call ' + f.attr)
        raise Untranslatable('call form')

    def pm_method(self, name):
        for u in self.tr.units:
            if getattr(u, 'pm', False) and u.self_type == self.unit.self_type and u.name == name and u.file == self.unit.file:
                return u
        return None

    def pm_args(self, u, e):
        """arguments of a call of the translated method u, positional or by keyword, in the order of its parameters"""
        names = [p for p, _ in u.params]
        vals = {}
        for nme, a in zip(names, e.args):
            vals[nme] = self.expr(a)[0]
        for k in e.keywords:
            if k.arg not in names:
                raise Untranslatable('keyword ' + str(k.arg))
            vals[k.arg] = self.expr(k.value)[0]
        if set(vals) != set(names):
            # parameters left at their defaults: the default values written in the callee's definition
            fn = self.tr.find(u.file, u.name, u.cls)
            pn = [a.arg for a in fn.args.args if a.arg != 'self']
            dflt = dict(zip(pn[len(pn) - len(fn.args.defaults):], fn.args.defaults))
            for nme in names:
                if nme not in vals and nme in dflt and isinstance(dflt[nme], ast.Constant) and isinstance(dflt[nme].value, (bool, int)):
                    vals[nme] = self.expr(dflt[nme])[0]
        if set(vals) != set(names):
            raise Untranslatable('arguments of ' + u.name)
        return ' '.join(vals[nme] for nme in names)

    def pm_call(self, e):
        f = e.func
        u0 = self.unit
        if isinstance(f, ast.Name) and f.id == 'hasattr' and len(e.args) == 2 and isinstance(e.args[0], ast.Name) \
                and e.args[0].id == 'self' and isinstance(e.args[1], ast.Constant) and e.args[1].value in getattr(u0, 'hasattr', {}):
            return ('true' if u0.hasattr[e.args[1].value] else 'false'), BOOL
        if isinstance(f, ast.Name) and f.id in getattr(u0, 'ext_values', {}) and not e.args and not e.keywords:
            nm, t = u0.ext_values[f.id]
            return f'ext.{nm}', t
        if isinstance(f, ast.Name) and f.id == 'isinstance' and len(e.args) == 2 and isinstance(e.args[1], ast.Name) \
                and e.args[1].id == 'Message':
            a, t = self.expr(e.args[0])
            if t == EXTMSG:
                return 'true', BOOL
        if isinstance(f, ast.Attribute) and f.attr == 'copy' and not e.args and not e.keywords:
            a, t = self.expr(f.value)
            if t == EXTMSG:
                return f'(ext.copy {a})', EXTMSG
        if isinstance(f, ast.Attribute) and isinstance(f.value, ast.Name) and f.value.id == 'self':
            if f.attr in getattr(u0, 'ext_methods', {}):
                nm, t = u0.ext_methods[f.attr]
                args = [self.expr(a)[0] for a in e.args] + [self.expr(k.value)[0] for k in e.keywords]
                return f'(← ext.{nm} {" ".join(args)})', t
            u = self.pm_method(f.attr)
            if u is not None:
                return f'(← {u.lean_name} ext {self.extra_args(u)}{self.pm_args(u, e)})', (u.ret if u.ret is not None else NONE)
        return None

    def self_args(self, callee, name, rec):
        """the arguments of a translated method of the same object: the fields its `self` record has, taken from ours, and
        the function parameters it has, which must be ours too"""
        crec = callee.params[0][1]
        if not (callee.params and callee.params[0][0] == 'self' and isinstance(crec, Rec)):
            raise Untranslatable('method of self with arguments')
        for k, kt in crec.fields.items():
            if rec.fields.get(k) != kt:
                raise Untranslatable(f'{callee.name} needs the field {k} of self')
        for fname in getattr(callee, 'fn_params', {}):
            if fname not in getattr(self.unit, 'fn_params', {}):
                raise Untranslatable(f'{callee.name} needs the function parameter {fname}')
        return ' '.join([f'{name}_{k}' for k in crec.fields] + list(getattr(callee, 'fn_params', {})))

    def flat_args(self, u, args, nodes):
        out = []
        for (pname, pt), (a, t), node in zip(u.params, args, nodes):
            if isinstance(pt, Rec):
                raise Untranslatable('record argument')
            out.append(a)
        return ' '.join(out)

    def lift(self, node, ind, out):
        """Calls that consume from / report on a file, inside an expression: the call is made first (in evaluation
        order), the file variable takes its new state, and the expression uses the value."""
        tr = self

        class L(ast.NodeTransformer):
            def visit_ListComp(self, n):
                # [read_byte(infile) for _ in range(size)]
                if len(n.generators) == 1 and not n.generators[0].ifs and isinstance(n.elt, ast.Call) and \
                        isinstance(n.elt.func, ast.Name) and n.elt.func.id == 'read_byte' and len(n.elt.args) == 1 and \
                        isinstance(n.elt.args[0], ast.Name) and is_file(tr.env.get(n.elt.args[0].id, (None, None))[1]):
                    it = n.generators[0].iter
                    if isinstance(it, ast.Call) and isinstance(it.func, ast.Name) and it.func.id == 'range' and len(it.args) == 1:
                        f = n.elt.args[0].id
                        cnt, ct = tr.expr(it.args[0])
                        if ct != INT:
                            raise Untranslatable('range of ' + str(ct))
                        return tr._tmp_call(f'readN {f} {cnt}', f, LINT, ind, out)
                return n

            def visit_Call(self, n):
                n = self.generic_visit(n)
                if isinstance(n.func, ast.Name):
                    u = tr.tr.unit_by_pyname(tr.unit.file, n.func.id)
                    if u is not None and any(is_file(t) for _, t in u.params) and u.ret not in (None, NONE):
                        fi = [i for i, (_, t) in enumerate(u.params) if is_file(t)]
                        if len(fi) != 1 or not isinstance(n.args[fi[0]], ast.Name):
                            raise Untranslatable('file argument form')
                        f = n.args[fi[0]].id
                        args = [tr.expr(a)[0] for a in n.args]
                        if any(k.arg in dict(u.params) for k in n.keywords):
                            byname = {k.arg: tr.expr(k.value)[0] for k in n.keywords}
                            names = [p for p, _ in u.params]
                            args = args + [byname[p] for p in names[len(args):]]
                        ext = 'ext ' if getattr(u, 'ext', False) else ''
                        return tr._tmp_call(f'{u.lean_name} {ext}{" ".join(args)}', f, u.ret, ind, out)
                if isinstance(n.func, ast.Attribute) and n.func.attr == 'read' and isinstance(n.func.value, ast.Name) and \
                        tr.env.get(n.func.value.id, (None, None))[1] == INFILE and len(n.args) == 1:
                    f = n.func.value.id
                    cnt, ct = tr.expr(n.args[0])
                    return tr._tmp_call(f'readUpTo {f} {cnt}', f, LINT, ind, out, pure=True)
                return n
        return L().visit(node) if node is not None else None

    def _tmp_call(self, call, f, rt, ind, out, pure=False):
        self.ntmp = getattr(self, 'ntmp', 0) + 1
        tmp = f'r__{self.ntmp}'
        out.append(f'{ind}let {tmp} {":=" if pure else "←"} {call}')
        out.append(f'{ind}{f} := {tmp}.2')
        self.env[tmp + '_v'] = (f'{tmp}.1', rt)
        return ast.Name(id=tmp + '_v', ctx=ast.Load())

    def dv(self, a, t):
        if t == INT:
            return f'DV.int {a}'
        if t == STR:
            return f'DV.str {a}'
        if t == LINT:
            return f'DV.ints {a}'
        raise Untranslatable('dict value of type ' + str(t))

    def fn_call(self, fnd, key, args):
        """TABLE[key](args) for a dict of functions: a generated dispatcher over the names in the table"""
        _, kt, file, name = fnd[:4]
        disp, rt = self.tr.dispatcher(self, file, name, kt, [t for _, t in args])
        return f'(← {disp} {key} {" ".join(a for a, _ in args)})', rt

    def truth(self, a, t):
        if t == BOOL:
            return a
        if isinstance(t, tuple) and t[0] == 'FnVal':
            # `f = TABLE.get(k)` ... `if f:` - a function is true, None (key absent) is false
            return f'({"dictHas" if t[1] == INT else "dictHasS"} {t[4]} {t[5]})'
        if t == INT:
            return f'({a} != 0)'
        if isinstance(t, tuple) and t[0] == 'List':
            return f'(!List.isEmpty {a})'
        if isinstance(t, tuple) and t[0] == 'Opt' and t[1] == EXTMSG:
            return f'(Option.isSome {a})'       # a message object is true (its __len__ is at least 1)
        if t == ('Opt', STR):
            return f'(optStrTruthy {a})'        # None and '' are false
        raise Untranslatable('truth value of ' + str(t))

    def cond(self, e):
        a, t = self.expr(e)
        return self.truth(a, t)

    # ---------- statements --------------------------------------------------
    def assign_target(self, tgt, val, vt, ind, out):
        if isinstance(tgt, ast.Name) and tgt.id in getattr(self.unit, 'globals_state', {}) and tgt.id in getattr(self, 'declared_global', ()):
            if vt != self.unit.globals_state[tgt.id]:
                raise Untranslatable('type of the global ' + tgt.id)
            if '(← get)' in val:
                out.append(f'{ind}let v__ := {val}')
                val = 'v__'
            out.append(f'{ind}modify fun g => {{ g with {tgt.id} := {val} }}')
            return
        if isinstance(tgt, ast.Name) and isinstance(vt, tuple) and vt[0] == 'FnVal':
            # f = TABLE.get(key): the key is evaluated here (it may raise), the function is looked up where it is used
            k = vt[5]
            if '←' in k:
                self.ntmp = getattr(self, 'ntmp', 0) + 1
                tmp = f'k__{self.ntmp}'
                out.append(f'{ind}let {tmp} ← {k[3:-1]}')
                vt = vt[:5] + (tmp,)
            self.env[tgt.id] = ('()', vt)
            return
        if isinstance(tgt, ast.Subscript) and isinstance(tgt.value, ast.Name) and self.env.get(tgt.value.id, (None, None))[1] == DICT \
                and tgt.value.id in self.muts:
            k, kt = self.expr(tgt.slice)
            if kt != STR:
                raise Untranslatable('dict key type')
            out.append(f'{ind}{tgt.value.id} := dset {tgt.value.id} {k} ({self.dv(val, vt)})')
            return
        if isinstance(tgt, ast.Subscript) and isinstance(tgt.value, ast.Name) and self.env.get(tgt.value.id, (None, None))[1] == KWARGS \
                and tgt.value.id in self.muts:
            k, kt = self.expr(tgt.slice)
            if kt != STR or vt != ('Opt', STR):
                raise Untranslatable('keyword dict entry')
            out.append(f'{ind}{tgt.value.id} := kwSet {tgt.value.id} {k} {val}')
            return
        if isinstance(tgt, ast.Name) and vt == OBJ:
            self.fresh_objects = dict(getattr(self, 'fresh_objects', {}))
            self.fresh_objects[tgt.id] = 'vars := default' in val
        if isinstance(tgt, ast.Name):
            n = tgt.id
            hint = getattr(self.unit, 'local_types', {}).get(n)
            if hint is not None and vt == LIST(INT) and val == '[]':
                vt = hint          # an empty list literal: its element type is declared in the unit configuration
            if vt == OPT_INT and n in self.env and self.env[n][1] == INT:
                val, vt = f'(← optGet {val})', INT        # the code has excluded None on this path
            if hint == OPT_INT:
                if vt == NONE:
                    val, vt = 'none', OPT_INT
                elif vt == INT:
                    val, vt = f'(some {val})', OPT_INT
            if n in self.env and self.env[n][1] != vt and not (val == '[]' and isinstance(self.env[n][1], tuple)):
                et = self.env[n][1]
                if not (isinstance(et, tuple) and isinstance(vt, tuple) and et[0] == vt[0] == 'List'):
                    if getattr(self.unit, 'retype', False):
                        # the Python name is rebound to a value of another type: a new Lean variable takes over the name
                        self.nre = getattr(self, 'nre', 0) + 1
                        new = f'{n}_{self.nre}'
                        out.append(f'{ind}let mut {new} : {lty(vt)} := {val}')
                        self.muts.append(new)
                        self.env[n] = (new, vt)
                        return
                    raise Untranslatable(f'variable {n} changes type {et} -> {vt}')
            if n in self.env and self.env[n][0] != n and self.env[n][0] in self.muts and self.env[n][1] == vt:
                out.append(f'{ind}{self.env[n][0]} := {val}')
            elif n in self.muts:
                out.append(f'{ind}{n} := {val}')
            else:
                self.muts.append(n)
                self.env[n] = (n, vt)
                out.append(f'{ind}let mut {n} : {lty(vt)} := {val}')
            return
        if isinstance(tgt, ast.Attribute) and isinstance(tgt.value, ast.Attribute):
            # self.a.b = v   (a field of an object held in a field)
            base, t = self.expr(tgt.value)
            if isinstance(t, tuple) and t[0] == 'Obj' and tgt.attr in self.tr.class_fields(t[1]):
                inner = f'{{ {base} with {tgt.attr} := {val} }}'
                self.assign_target(tgt.value, inner, t, ind, out)
                return
        if isinstance(tgt, ast.Attribute) and isinstance(tgt.value, ast.Name) and tgt.value.id in self.env \
                and isinstance(self.env[tgt.value.id][1], tuple) and self.env[tgt.value.id][1][0] == 'ObjM' and tgt.value.id in self.muts:
            out.append(f'{ind}{tgt.value.id} := {{ {tgt.value.id} with {tgt.attr} := {val} }}')
            return
        if isinstance(tgt, ast.Attribute) and isinstance(tgt.value, ast.Name) and tgt.value.id in self.env:
            base, t = self.env[tgt.value.id]
            if t == 'Self':
                if tgt.attr not in self.unit.fields:
                    raise Untranslatable('assignment to unknown field ' + tgt.attr)
                if self.pm:
                    if '(← get)' in val:
                        out.append(f'{ind}let v__ := {val}')
                        val = 'v__'
                    out.append(f'{ind}modify fun self => {{ self with {tgt.attr} := {val} }}')
                    return
                out.append(f'{ind}self := {{ self with {tgt.attr} := {val} }}')
                return
            if isinstance(t, Rec) and t.out and tgt.attr in t.fields:
                out.append(f'{ind}{tgt.value.id}_{tgt.attr} := {val}')
                return
        if isinstance(tgt, ast.Subscript):
            base, t = self.expr(tgt.value)
            if isinstance(t, tuple) and t[0] == 'List' and isinstance(tgt.value, ast.Name) and tgt.value.id in self.muts:
                i, it = self.expr(tgt.slice)
                out.append(f'{ind}{base} ← setIdx {base} {i} {val}')
                return
        raise Untranslatable('assignment target ' + ast.dump(tgt)[:80])

    def block(self, stmts, ind):
        out = []
        for s in stmts:
            out.extend(self.stmt(s, ind))
        if not out:
            out.append(f'{ind}pure ()')
        return out

    def ret_value(self, e):
        """what `return e` hands back; methods return the object state (and a value)"""
        if self.pm:
            if getattr(self, 'is_gen', False):
                return 'out__'
            isnone = e is None or (isinstance(e, ast.Constant) and e.value is None)
            if isinstance(self.unit.ret, tuple) and self.unit.ret[0] == 'Opt':
                if isnone:
                    return 'none'
                v, t = self.expr(e)
                if t == self.unit.ret:
                    return v
                if t == self.unit.ret[1]:
                    return f'(some {v})'
                raise Untranslatable(f'return of {t} where {self.unit.ret} is declared')
            if isnone:
                return '()'
            return self.expr(e)[0]
        if self.unit.cls is not None:
            if (e is None or (isinstance(e, ast.Constant) and e.value is None)) and not (isinstance(self.unit.ret, tuple) and self.unit.ret[0] == 'Opt'):
                return 'self'
            if isinstance(self.unit.ret, tuple) and self.unit.ret[0] == 'Opt':
                if e is None or (isinstance(e, ast.Constant) and e.value is None):
                    return '(none, self)'
                v, t = self.expr(e)
                if t != self.unit.ret[1]:
                    raise Untranslatable(f'return of {t} where {self.unit.ret} is declared')
                return f'(some {v}, self)'
            v, t = self.expr(e)
            if self.unit.ret in (None, NONE):
                # `return self.method(...)` of a method returning None
                return 'self'
            return f'({v}, self)'
        if getattr(self, 'is_gen', False):
            return 'out__'
        if self.out_rec is not None:
            name, rec = self.out_rec
            vals = [f'{name}_{k}' for k in rec.fields] + [p for p, t in self.unit.params if is_file(t)]
            return vals[0] if len(vals) == 1 else '(' + ', '.join(vals) + ')'
        files = [p for p, t in self.unit.params if is_file(t)]
        if isinstance(self.unit.ret, tuple) and self.unit.ret[0] == 'Opt' and (e is None or (isinstance(e, ast.Constant) and e.value is None)):
            v = 'none'
        elif e is None:
            v = '()'
        else:
            v, t = self.expr(e)
            if isinstance(self.unit.ret, tuple) and self.unit.ret[0] == 'Opt' and t == self.unit.ret[1]:
                v = f'(some {v})'
        if files:
            return '(' + ', '.join([v] + files) + ')'
        return v

    def stmt(self, s, ind):
        out = []
        if isinstance(s, ast.Expr):
            if isinstance(s.value, ast.Constant) and isinstance(s.value.value, str):
                return []          # docstring
            pre = []
            val = s.value
            if isinstance(val, ast.Call) and isinstance(val.func, ast.Attribute) and val.func.attr in ('append', 'extend'):
                val = ast.Call(func=val.func, args=[self.lift(a, ind, pre) for a in val.args], keywords=val.keywords)
            return pre + self.call_stmt(val, ind)
        if isinstance(s, ast.Pass):
            return [f'{ind}pure ()']
        if isinstance(s, ast.Global):
            for nme in s.names:
                if nme not in getattr(self.unit, 'globals_state', {}):
                    raise Untranslatable('global ' + nme)
            self.declared_global = set(getattr(self, 'declared_global', ())) | set(s.names)
            return []
        if isinstance(s, ast.Try) and getattr(self.unit, 'ctxmgr', False) and not s.handlers and not s.orelse and s.finalbody \
                and len(s.body) == 1 and isinstance(s.body[0], ast.Expr) and isinstance(s.body[0].value, ast.Yield) \
                and s.body[0].value.value is None:
            # @contextmanager: `try: yield  finally: F` - the block of the `with` statement runs at the yield; F runs
            # afterwards whether the block raised or not
            fin = self.block(s.finalbody, ind + '    ')
            return [f'{ind}PM.tryFinally\' body (do'] + fin + [f'{ind}  )']
        if isinstance(s, ast.Return) and s.value is not None and isinstance(s.value, ast.Call) \
                and isinstance(s.value.func, ast.Attribute) and s.value.func.attr == 'popleft' and not s.value.args:
            # return q.popleft()
            self.npop = getattr(self, 'npop', 0) + 1
            pn = f'popped__{self.npop}'
            pre = self.stmt(ast.Assign(targets=[ast.Name(id=pn, ctx=ast.Store())], value=s.value), ind)
            return pre + self.stmt(ast.Return(value=ast.Name(id=pn, ctx=ast.Load())), ind)
        if isinstance(s, ast.Return) and isinstance(s.value, ast.ListComp) and len(s.value.generators) == 1 \
                and isinstance(s.value.generators[0].target, ast.Name):
            g = s.value.generators[0]
            try:
                _a, it_t = self.expr(g.iter)
            except Untranslatable:
                it_t = None
            if isinstance(it_t, tuple) and it_t[0] in ('Obj', 'ObjM'):
                # [e for x in OBJ if c] where OBJ's class has a generator __iter__:  acc = []; for x in OBJ: if c: acc.append(e)
                acc = 'acc__'
                body = ast.Expr(value=ast.Call(func=ast.Attribute(value=ast.Name(id=acc, ctx=ast.Load()), attr='append', ctx=ast.Load()),
                                               args=[s.value.elt], keywords=[]))
                for cnd in reversed(g.ifs):
                    body = ast.If(test=cnd, body=[body], orelse=[])
                prog = [ast.Assign(targets=[ast.Name(id=acc, ctx=ast.Store())], value=ast.List(elts=[], ctx=ast.Load())),
                        ast.For(target=g.target, iter=g.iter, body=[body], orelse=[]),
                        ast.Return(value=ast.Name(id=acc, ctx=ast.Load()))]
                return self.block([ast.fix_missing_locations(x) for x in prog], ind)
        if isinstance(s, ast.Return) and self.pm:
            if getattr(self, 'is_gen', False):
                return [f'{ind}return out__']
            return [f'{ind}return {self.ret_value(s.value)}']
        if isinstance(s, ast.Return):
            if self.unit.cls is not None and s.value is not None and isinstance(s.value, ast.Call):
                pre = self.call_stmt(s.value, ind, allow_value=True)
                if pre is not None:
                    return pre + [f'{ind}return self']
            pre = []
            value = self.lift(s.value, ind, pre) if s.value is not None else None
            return pre + [f'{ind}return {self.ret_value(value)}']
        if isinstance(s, ast.Break):
            if not getattr(self, 'loop_exit', None):
                raise Untranslatable('break outside a while loop')
            return [f'{ind}return {self.loop_exit[-1]}']
        if isinstance(s, ast.Raise) and s.exc is None and getattr(self, 'in_handler', 0):
            return [f'{ind}throw e']          # bare `raise` in an except block: the exception being handled
        if isinstance(s, ast.Raise):
            exc = s.exc
            n = None
            if isinstance(exc, ast.Call) and isinstance(exc.func, ast.Name):
                n = exc.func.id
            elif isinstance(exc, ast.Name):
                n = exc.id
            if n is None:
                raise Untranslatable('raise form')
            return [f'{ind}throw Err.{n if n in ERRS else "Other"}']
        if isinstance(s, ast.Assign) and len(s.targets) > 1 and isinstance(s.value, ast.Name) \
                and all(isinstance(t, ast.Name) for t in s.targets):
            # a = b = x with x a variable: the value is evaluated once and bound left to right
            out = []
            for t in s.targets:
                out.extend(self.stmt(ast.copy_location(ast.Assign(targets=[t], value=s.value), s), ind))
            return out
        if isinstance(s, ast.Assign):
            if len(s.targets) != 1:
                raise Untranslatable('multiple targets')
            if isinstance(s.targets[0], ast.Name) and s.targets[0].id in getattr(self.unit, 'opaque', {}):
                return []      # an object of the code outside the fragment: what is read from it are parameters of the unit
            if isinstance(s.value, ast.Call) and isinstance(s.value.func, ast.Name) and s.value.func.id == 'read_byte' \
                    and len(s.value.args) == 1 and isinstance(s.value.args[0], ast.Name) \
                    and is_file(self.env.get(s.value.args[0].id, (None, None))[1]):
                # byte = read_byte(infile): one byte off the front of the unread input, EOFError at its end
                f = s.value.args[0].id
                if f not in self.muts:
                    raise Untranslatable('file parameter is not mutable')
                out.append(f'{ind}let r__ ← readByte {f}')
                self.assign_target(s.targets[0], 'r__.1', INT, ind, out)
                out.append(f'{ind}{f} := r__.2')
                return out
            if isinstance(s.value, ast.Call) and isinstance(s.value.func, ast.Attribute) and s.value.func.attr == 'popleft' \
                    and not s.value.args and not s.value.keywords:
                # x = q.popleft(): the first element (IndexError on an empty deque), and q loses it
                q, qt = self.expr(s.value.func.value)
                if not (isinstance(qt, tuple) and qt[0] == 'List'):
                    raise Untranslatable('popleft on ' + str(qt))
                self.ntmp = getattr(self, 'ntmp', 0) + 1
                tmp = f'h__{self.ntmp}'
                if self.pm:
                    out.append(f'{ind}let q__{self.ntmp} := {q}')
                    out.append(f'{ind}let {tmp} ← (match q__{self.ntmp} with | [] => throw Err.IndexError | h :: _ => pure h)')
                    self.assign_target(s.value.func.value, f'(List.tail q__{self.ntmp})', qt, ind, out)
                    self.assign_target(s.targets[0], tmp, qt[1], ind, out)
                    return out
                out.append(f'{ind}let {tmp} ← idx {q} (0 : Int)')
                self.assign_target(s.value.func.value, f'(List.tail {q})', qt, ind, out)
                self.assign_target(s.targets[0], tmp, qt[1], ind, out)
                return out
            value = self.lift(s.value, ind, out)
            v, t = self.expr(value)
            tg = s.targets[0]
            if isinstance(tg, ast.Tuple) and isinstance(t, tuple) and t[0] == 'List' and '←' not in v:
                # a, b = xs : the list has exactly as many items (ValueError otherwise)
                out.append(f'{ind}if (len {v}) != ({len(tg.elts)} : Int) then')
                out.append(f'{ind}  throw Err.ValueError')
                for i, el in enumerate(tg.elts):
                    self.assign_target(el, f'(← idx {v} ({i} : Int))', t[1], ind, out)
                return out
            if isinstance(tg, ast.Tuple):
                if not (isinstance(t, tuple) and t[0] == 'Tuple' and len(t[1]) == len(tg.elts)):
                    raise Untranslatable('tuple assignment from ' + str(t))
                self.ntmp = getattr(self, 'ntmp', 0) + 1
                tmp = f't__{self.ntmp}'
                out.append(f'{ind}let {tmp} := {v}')
                for i, (el, et) in enumerate(zip(tg.elts, t[1])):
                    proj = tmp + ''.join(['.2'] * i) + ('.1' if i < len(tg.elts) - 1 else '')
                    self.assign_target(el, proj, et, ind, out)
                return out
            self.assign_target(tg, v, t, ind, out)
            return out
        if isinstance(s, ast.AugAssign):
            cur = ast.BinOp(left=self._load(s.target), op=s.op, right=s.value)
            v, t = self.expr(cur)
            self.assign_target(s.target, v, t, ind, out)
            return out
        if isinstance(s, ast.If):
            c = self.cond(s.test)
            if c == 'true':
                return self.block(s.body, ind)          # the other branch cannot be reached with the declared types
            if c == 'false':
                return self.block(s.orelse, ind) if s.orelse else [f'{ind}pure ()']
            if getattr(self.unit, 'pure_if', False) and not s.orelse and len(s.body) == 1 and isinstance(s.body[0], ast.Assign) \
                    and isinstance(s.body[0].targets[0], ast.Name) and s.body[0].targets[0].id in self.muts:
                # `if c: x = e` with a pure `e`: a conditional value, no branching of the control flow
                nm = s.body[0].targets[0].id
                v, vt = self.expr(s.body[0].value)
                if '←' not in v and '←' not in c and vt == self.env[nm][1]:
                    return [f'{ind}{nm} := (if {c} then {v} else {nm})']
            out.append(f'{ind}if {c} then')
            out.extend(self.block(s.body, ind + '  '))
            if s.orelse:
                out.append(f'{ind}else')
                out.extend(self.block(s.orelse, ind + '  '))
            return out
        if isinstance(s, ast.With) and self.pm and len(s.items) == 1 and isinstance(s.items[0].context_expr, ast.Attribute) \
                and s.items[0].context_expr.attr == '_lock' and s.items[0].optional_vars is None:
            # the translation is the single-thread reading of the method: holding the (re-entrant) lock is no step
            return self.block(s.body, ind)
        if isinstance(s, ast.With) and len(s.items) == 1 and isinstance(s.items[0].context_expr, ast.Call) \
                and isinstance(s.items[0].context_expr.func, ast.Name) and s.items[0].context_expr.func.id in ('open', 'open_') \
                and isinstance(s.items[0].optional_vars, ast.Name) and (getattr(self.unit, 'file_param', None) or getattr(self.unit, 'written_file', None)):
            c = s.items[0].context_expr
            mode = c.args[1].value if len(c.args) > 1 and isinstance(c.args[1], ast.Constant) else None
            if mode in ('wb', 'w') and getattr(self.unit, 'written_file', None) == s.items[0].optional_vars.id:
                # the one file the function creates: what is written to it is the function's result (text mode: the
                # characters written, as code points; no newline translation on the platform of the check)
                return self.block(s.body, ind)
            if mode != 'rb':
                raise Untranslatable('open mode ' + repr(mode))
            # the file that is opened for reading: its contents are a parameter of the unit
            self.opened = dict(getattr(self, 'opened', {}))
            self.opened[s.items[0].optional_vars.id] = self.unit.file_param
            return self.block(s.body, ind)
        if isinstance(s, ast.With):
            if len(s.items) == 1 and isinstance(s.items[0].context_expr, ast.Call) and \
                    isinstance(s.items[0].context_expr.func, ast.Name) and s.items[0].context_expr.func.id == 'meta_charset' \
                    and s.items[0].optional_vars is None:
                # the process-wide charset during the block is the parameter `cs` of the message records' `bytes`
                # (its scoping is the subject of C17's model); control flow is that of the body
                return self.block(s.body, ind)
            raise Untranslatable('with statement')
        if isinstance(s, ast.For):
            return self.for_stmt(s, ind)
        if isinstance(s, ast.While):
            return self.while_stmt(s, ind)
        if isinstance(s, ast.Try):
            if s.orelse or s.finalbody or len(s.handlers) != 1:
                raise Untranslatable('try form')
            h = s.handlers[0]
            hn = h.type.id if isinstance(h.type, ast.Name) else None
            ctab = {'KeyError': ['KeyError'], 'LookupError': ['KeyError', 'IndexError', 'LookupError'],
                    'IndexError': ['IndexError'], 'OSError': ['OSError'], 'ValueError': ['ValueError']}
            classes = ctab.get(hn)
            if isinstance(h.type, ast.Tuple) and all(isinstance(x, ast.Name) and x.id in ctab for x in h.type.elts):
                classes = [c for x in h.type.elts for c in ctab[x.id]]
                hn = '(' + ', '.join(x.id for x in h.type.elts) + ')'
            if classes is None:
                raise Untranslatable('except ' + str(hn))
            if len(s.body) == 1 and isinstance(s.body[0], ast.Assign) and isinstance(s.body[0].targets[0], ast.Name) \
                    and len(h.body) == 1 and isinstance(h.body[0], ast.Raise):
                # try: x = <expr>  except E: raise X   ->   the exception of <expr> is mapped, nothing else happens
                exc = h.body[0].exc
                xn = exc.func.id if isinstance(exc, ast.Call) and isinstance(exc.func, ast.Name) else (exc.id if isinstance(exc, ast.Name) else None)
                if xn is None:
                    raise Untranslatable('raise form')
                xn = xn if xn in ERRS else 'Other'
                v, vt = self.expr(s.body[0].value)
                test = ' || '.join(f'e == Err.{c}' for c in classes)
                self.assign_target(s.body[0].targets[0], f'(← mapErr (fun e => if {test} then Err.{xn} else e) (do return {v}))', vt, ind, out)
                return out
            if self.pm and len(s.body) == 1 and ((isinstance(s.body[0], ast.Expr) and isinstance(s.body[0].value, ast.Yield)
                                                  and isinstance(s.body[0].value.value, ast.Call)) or
                                                 (isinstance(s.body[0], ast.Assign) and isinstance(s.body[0].value, ast.Call)
                                                  and isinstance(s.body[0].targets[0], ast.Name))):
                # try: <one call whose value is yielded / assigned>  except E: H
                # the call runs inside the try; what is done with its value, and the handler, run outside (no local variable
                # changes inside the try itself)
                callnode = s.body[0].value.value if isinstance(s.body[0], ast.Expr) else s.body[0].value
                v, vt = self.expr(callnode)
                if v.startswith('(← ') and v.endswith(')') and v.count('←') == 1:
                    self.ntmp = getattr(self, 'ntmp', 0) + 1
                    rn, vn = f'r__{self.ntmp}', f'v__{self.ntmp}'
                    test = ' || '.join(f'e == Err.{c}' for c in classes)
                    out.append(f'{ind}let {rn} ← tryCatch (do let v ← {v[3:-1]}; pure (Sum.inr v)) (fun e => if {test} then pure (Sum.inl e) else throw e)')
                    out.append(f'{ind}match {rn} with')
                    out.append(f'{ind}| Sum.inl e =>')
                    self.in_handler = getattr(self, 'in_handler', 0) + 1
                    out.extend(self.block(h.body, ind + '  '))
                    self.in_handler -= 1
                    out.append(f'{ind}| Sum.inr {vn} =>')
                    self.env[vn] = (vn, vt)
                    use = ast.Name(id=vn, ctx=ast.Load())
                    if isinstance(s.body[0], ast.Expr):
                        out.extend(self.call_stmt(ast.Yield(value=use), ind + '  '))
                    else:
                        tmp = []
                        self.assign_target(s.body[0].targets[0], vn, vt, ind + '  ', tmp)
                        out.extend(tmp)
                    return out
            # variables first assigned inside the try body must exist before it
            for sub in s.body:
                if isinstance(sub, ast.Assign) and isinstance(sub.targets[0], ast.Name) and sub.targets[0].id not in self.muts:
                    # first assignment inside the try block: the variable has to exist outside it in Lean
                    _v, _t = self.expr(sub.value)
                    nm = sub.targets[0].id
                    out.append(f'{ind}let mut {nm} : {lty(_t)} := default')
                    self.muts.append(nm)
                    self.env[nm] = (nm, _t)
            out.append(f'{ind}try')
            out.extend(self.block(s.body, ind + '  '))
            out.append(f'{ind}catch e =>')
            test = ' || '.join(f'e == Err.{c}' for c in classes)
            out.append(f'{ind}  if {test} then')
            self.in_handler = getattr(self, 'in_handler', 0) + 1
            out.extend(self.block(h.body, ind + '    '))
            self.in_handler -= 1
            out.append(f'{ind}  else throw e')
            return out
        raise Untranslatable('statement ' + type(s).__name__)

    def _load(self, tgt):
        t = ast.parse(ast.unparse(tgt), mode='eval').body
        return t

    def call_stmt(self, e, ind, allow_value=False):
        """an expression statement: a mutating method call"""
        if self.pm and isinstance(e, ast.Call):
            f = e.func
            if isinstance(f, ast.Name) and f.id in getattr(self.unit, 'ghost_calls', {}):
                g = self.unit.ghost_calls[f.id]
                return [f'{ind}modify fun self => {{ self with {g} := self.{g} + 1 }}']
            if isinstance(f, ast.Attribute) and isinstance(f.value, ast.Name) and f.value.id == 'self':
                if f.attr in getattr(self.unit, 'skip_methods', ()):
                    return []
                r = self.pm_call(e)
                if r is not None:
                    v, t = r
                    if v.startswith('(← ') and v.endswith(')'):
                        return [f'{ind}let _ ← {v[3:-1]}' if t not in (None, NONE) else f'{ind}{v[3:-1]}']
        if self.pm and isinstance(e, ast.Yield):
            v, t = self.expr(e.value)
            if t == ('Opt', EXTMSG):
                # on this path the code has excluded None (`if msg is None: return  else: yield msg`)
                return [f'{ind}out__ := out__ ++ (Option.toList {v})']
            if t != EXTMSG:
                raise Untranslatable('yield of ' + str(t))
            return [f'{ind}out__ := out__ ++ [{v}]']
        if isinstance(e, ast.Yield):
            if e.value is None:
                raise Untranslatable('bare yield')
            v, t = self.expr(e.value)
            if t != MSG:
                raise Untranslatable('yield of ' + str(t))
            return [f'{ind}out__ := out__ ++ [{v}]']
        if isinstance(e, ast.Call) and isinstance(e.func, ast.Attribute) and e.func.attr == 'sort' and not e.args \
                and [k.arg for k in e.keywords] == ['key']:
            lam = e.keywords[0].value
            cur, t = self.expr(e.func.value)
            if t == LIST(MSG) and isinstance(lam, ast.Lambda) and len(lam.args.args) == 1 and isinstance(lam.body, ast.Attribute) \
                    and lam.body.attr == 'time' and isinstance(lam.body.value, ast.Name) and lam.body.value.id == lam.args.args[0].arg:
                out = []
                self.assign_target(e.func.value, f'(sortByTime {cur})', t, ind, out)     # list.sort is stable
                return out
            raise Untranslatable('sort form')
        if isinstance(e, ast.Call) and isinstance(e.func, ast.Attribute):
            f = e.func
            # self.method(args) where `self` is a read-only record: a call of the translated method with the same record
            if isinstance(f.value, ast.Name) and isinstance(self.env.get(f.value.id, (None, None))[1], Rec):
                rec = self.env[f.value.id][1]
                u = self.tr.unit_by_pyname(self.unit.file, f.attr, pycls=getattr(self.unit, 'pycls', None))
                if u is None or not u.params or not isinstance(u.params[0][1], Rec) or list(u.params[0][1].fields) != list(rec.fields):
                    raise Untranslatable('call of untranslated method ' + f.attr)
                recargs = ' '.join(f'{f.value.id}_{k}' for k in rec.fields)
                args = [self.expr(a) for a in e.args]
                files = [(i, p) for i, (p, t) in enumerate(u.params[1:]) if t == FILE]
                rest = ' '.join(a for a, _ in args)
                if files and u.ret in (None, NONE):
                    if len(files) != 1 or not isinstance(e.args[files[0][0]], ast.Name):
                        raise Untranslatable('file argument form')
                    fv = e.args[files[0][0]].id
                    return [f'{ind}{fv} := (← {u.lean_name} {recargs} {rest}).2']
                raise Untranslatable('method call form')
            # self.method(args)
            if isinstance(f.value, ast.Name) and self.env.get(f.value.id, (None, None))[1] == 'Self':
                u = self.tr.unit_by_pyname(self.unit.file, f.attr, cls=self.unit.cls)
                if u is None:
                    raise Untranslatable('call of untranslated method ' + f.attr)
                args = ' '.join(self.expr(a)[0] for a in e.args)
                if u.ret in (None, NONE):
                    return [f'{ind}self ← {u.lean_name} {"ext " if getattr(u, "ext", False) else ""}self {args}']
                raise Untranslatable('method with a value used as statement')
            # obj.method(args) where obj is a local object of a translated class
            if isinstance(f.value, ast.Name) and isinstance(self.env.get(f.value.id, (None, None))[1], tuple) \
                    and self.env[f.value.id][1][0] == 'ObjM':
                ot = self.env[f.value.id][1]
                u = next((x for x in self.tr.units if x.cls == ot[1] and x.name == f.attr), None)
                if u is None or u.ret not in (None, NONE):
                    raise Untranslatable(f'call of {ot[1]}.{f.attr}')
                args = ' '.join(self.expr(a)[0] for a in e.args)
                return [f'{ind}{f.value.id} ← {u.lean_name} ext {f.value.id} {args}']
            # self.obj.method(args) where self.obj is an object of a translated class
            if isinstance(f.value, ast.Attribute):
                try:
                    ob, ot = self.expr(f.value)
                except Untranslatable:
                    ob, ot = None, None
                if isinstance(ot, tuple) and ot[0] == 'Obj':
                    u = next((x for x in self.tr.units if x.cls == ot[1] and x.name == f.attr), None)
                    if u is None:
                        raise Untranslatable(f'call of untranslated method {ot[1]}.{f.attr}')
                    if u.ret not in (None, NONE):
                        raise Untranslatable('method with a value used as statement')
                    args = ' '.join(self.expr(a)[0] for a in e.args)
                    out = []
                    self.assign_target(f.value, f'(← {u.lean_name} {ob} {args})', ot, ind, out)
                    return out
            # outfile.write(data): the bytes are appended to what has been written
            if f.attr == 'write' and isinstance(f.value, ast.Name) and self.env.get(f.value.id, (None, None))[1] == FILE and len(e.args) == 1:
                if isinstance(e.args[0], ast.Constant) and isinstance(e.args[0].value, str):
                    v, vt = '[' + ', '.join(f'({ord(ch)} : Int)' for ch in e.args[0].value) + ']', ('Text',)
                else:
                    v, vt = self.expr(e.args[0])
                if vt not in (LINT, ('Text',)):
                    raise Untranslatable('write of ' + str(vt))
                return [f'{ind}{f.value.id} := {f.value.id} ++ {v}']
            if f.attr == 'update' and len(e.args) == 1 and not e.keywords and isinstance(f.value, ast.Call) \
                    and isinstance(f.value.func, ast.Name) and f.value.func.id == 'vars' and len(f.value.args) == 1 \
                    and isinstance(f.value.args[0], ast.Name) and self.env.get(f.value.args[0].id, (None, None))[1] == OBJ \
                    and f.value.args[0].id in self.muts:
                # vars(new).update(vars(old)) on an object that was just made by __new__ (empty instance dict): it gets the entries
                tgt = f.value.args[0].id
                v, vt = self.expr(e.args[0])
                if vt != ('Raw', 'V'):
                    raise Untranslatable('update with ' + str(vt))
                if getattr(self, 'fresh_objects', {}).get(tgt) is not True:
                    raise Untranslatable('update of the instance dict of an object that is not fresh')
                return [f'{ind}{tgt} := {{ {tgt} with vars := {v} }}']
            if f.attr == 'update' and len(e.args) == 1 and not e.keywords and isinstance(f.value, ast.Name) \
                    and self.env.get(f.value.id, (None, None))[1] == KWARGS and isinstance(e.args[0], ast.Call) \
                    and isinstance(e.args[0].func, ast.Name) and e.args[0].func.id == 'dict' and not e.args[0].args \
                    and all(k.arg is not None and k.arg != 'api' for k in e.args[0].keywords):
                # kwargs.update(dict(virtual=..., callback=...)): entries under other names than `api`; KwArgs keeps the entries
                # whose value is None or a string, and of those only `api` is ever looked at - nothing tracked changes
                for k in e.args[0].keywords:
                    if not isinstance(k.value, ast.Name):
                        raise Untranslatable('update value with an effect')
                return []
            if f.attr == 'update' and len(e.args) == 1 and not e.keywords and isinstance(f.value, ast.Name) \
                    and self.env.get(f.value.id, (None, None))[1] == DICT and f.value.id in self.muts:
                pre = []
                v, vt = self.expr(e.args[0])
                if vt != DICT:
                    raise Untranslatable('update with ' + str(vt))
                return pre + [f'{ind}{f.value.id} := dupdate {f.value.id} {v}']
            # xs.append(v) / xs.extend(ys) / xs.reverse() on a local list or a list field
            if f.attr in ('append', 'extend', 'reverse'):
                tgt = f.value
                cur, t = self.expr(tgt)
                if not (isinstance(t, tuple) and t[0] == 'List'):
                    raise Untranslatable(f.attr + ' on ' + str(t))
                if f.attr == 'append':
                    v, vt = self.expr(e.args[0])
                    if vt != t[1]:
                        raise Untranslatable(f'append {vt} to {t}')
                    new = f'({cur} ++ [{v}])'
                elif f.attr == 'extend':
                    v, vt = self.expr(e.args[0])
                    if vt != t:
                        raise Untranslatable(f'extend {t} with {vt}')
                    new = f'({cur} ++ {v})'
                else:
                    new = f'(List.reverse {cur})'
                out = []
                self.assign_target(tgt, new, t, ind, out)
                return out
        if allow_value:
            return None
        if isinstance(e, ast.Call) and isinstance(e.func, ast.Name):
            u = self.tr.unit_by_pyname(self.unit.file, e.func.id)
            if u is not None and u.ret in (None, NONE):
                args = [self.expr(a) for a in e.args]
                files = [(i, p) for i, (p, t) in enumerate(u.params) if t == FILE]
                if files:
                    # the callee writes to / reads from the file it is handed: its new state comes back
                    if len(files) != 1 or not isinstance(e.args[files[0][0]], ast.Name):
                        raise Untranslatable('file argument form')
                    fv = e.args[files[0][0]].id
                    return [f'{ind}{fv} := (← {u.lean_name} {self.flat_args(u, args, e.args)}).2']
                return [f'{ind}{u.lean_name} {self.flat_args(u, args, e.args)}']
        raise Untranslatable('expression statement ' + ast.dump(e)[:80])

    def assigned_names(self, stmts):
        names = []
        for s in ast.walk(ast.Module(body=stmts, type_ignores=[])):
            tg = None
            if isinstance(s, ast.Assign) and isinstance(s.value, ast.Call) and isinstance(s.value.func, ast.Attribute) \
                    and s.value.func.attr == 'popleft':
                base = s.value.func.value
                while isinstance(base, ast.Attribute):
                    base = base.value
                if isinstance(base, ast.Name) and base.id != 'self' and base.id not in names:
                    names.append(base.id)          # q.popleft() changes the object that holds q
            if isinstance(s, ast.Assign):
                tg = s.targets[0]
                if isinstance(s.value, ast.Call) and isinstance(s.value.func, ast.Name) and s.value.func.id == 'read_byte' \
                        and s.value.args and isinstance(s.value.args[0], ast.Name) and s.value.args[0].id not in names:
                    names.append(s.value.args[0].id)       # reading consumes: the file state changes
            elif isinstance(s, ast.AugAssign):
                tg = s.target
            elif isinstance(s, ast.Call) and isinstance(s.func, ast.Attribute) and s.func.attr in ('append', 'extend', 'reverse', 'update'):
                tg = s.func.value
            while isinstance(tg, ast.Subscript):
                tg = tg.value
            if isinstance(tg, ast.Name) and tg.id not in names:
                names.append(tg.id)
        return names

    def inline_generator(self, s):
        """for x in OBJ: BODY [else: E]  where OBJ's class has  def __iter__(self): while C: yield V
        is  while C[self:=OBJ]: x = V[self:=OBJ]; BODY  followed by E (the body has no break): exactly the interleaving
        Python performs, the generator running up to its next yield each time round the loop."""
        try:
            ob, ot = self.expr(s.iter)
        except Untranslatable:
            return None
        cls = self.unit.cls if ot == 'Self' else (ot[1] if isinstance(ot, tuple) and ot[0] in ('Obj', 'ObjM') else None)
        if cls is None:
            return None
        file = next((u.file for u in self.tr.units if u.cls == cls), None)
        if file is None:
            return None
        it = self.tr.find(file, '__iter__', cls)
        body = [b for b in it.body if not (isinstance(b, ast.Expr) and isinstance(b.value, ast.Constant))]
        if len(body) != 1 or not isinstance(body[0], ast.While) or body[0].orelse or len(body[0].body) != 1 \
                or not isinstance(body[0].body[0], ast.Expr) or not isinstance(body[0].body[0].value, ast.Yield) \
                or body[0].body[0].value.value is None:
            raise Untranslatable(f'{cls}.__iter__ is not of the form `while C: yield V`')
        if any(isinstance(x, ast.Break) for b in s.body for x in ast.walk(b)):
            raise Untranslatable('break in a for loop over a generator')
        obj_ast = s.iter

        class Sub(ast.NodeTransformer):
            def visit_Name(self, n):
                if n.id == 'self':
                    return ast.parse(ast.unparse(obj_ast), mode='eval').body
                return n
        cond = Sub().visit(ast.parse(ast.unparse(body[0].test), mode='eval').body)
        val = Sub().visit(ast.parse(ast.unparse(body[0].body[0].value.value), mode='eval').body)
        loop = ast.While(test=cond, body=[ast.Assign(targets=[s.target], value=val)] + list(s.body), orelse=[])
        return [loop] + list(s.orelse)

    def for_stmt(self, s, ind):
        inl = self.inline_generator(s)
        if inl is not None:
            return self.block([ast.fix_missing_locations(x) for x in inl], ind)
        if s.orelse or not isinstance(s.target, ast.Name):
            raise Untranslatable('for form')
        v = s.target.id
        it = s.iter
        if isinstance(it, ast.Call) and isinstance(it.func, ast.Name) and it.func.id == 'range' and len(it.args) == 1:
            n, nt = self.expr(it.args[0])
            src, et = f'(rangeInt {n})', INT
        else:
            src, st = self.expr(it)
            if not (isinstance(st, tuple) and st[0] == 'List'):
                raise Untranslatable('for over ' + str(st))
            et = st[1]
            if '←' in src:
                out0 = [f'{ind}let it__ ← {src[3:-1] if src.startswith("(← ") else src}']
                src = 'it__'
            else:
                out0 = []
        saved = self.env.get(v)
        self.env[v] = (v, et)
        out = (out0 if not (isinstance(it, ast.Call) and isinstance(it.func, ast.Name) and it.func.id == 'range') else []) + [f'{ind}for {v} in {src} do']
        out.extend(self.block(s.body, ind + '  '))
        if saved is None:
            del self.env[v]
        else:
            self.env[v] = saved
        return out

    def while_stmt(self, s, ind):
        """while c: body   ->   an auxiliary function over the variables the body assigns"""
        if s.orelse:
            raise Untranslatable('while-else')
        self.nloops += 1
        key = f'loop{self.nloops}'
        fuel = self.unit.fuel.get(key)
        if fuel is None:
            raise Untranslatable('while loop without a fuel bound in the unit configuration')
        for sub in ast.walk(ast.Module(body=s.body, type_ignores=[])):
            if isinstance(sub, ast.Continue):
                raise Untranslatable('continue in while')
        has_break = any(isinstance(sub, ast.Break) for sub in ast.walk(ast.Module(body=s.body, type_ignores=[])))
        names = [n for n in self.assigned_names(s.body) if n in self.muts]
        if getattr(self, 'is_gen', False) and 'out__' not in names and \
                any(isinstance(x, ast.Yield) for b in s.body for x in ast.walk(b)):
            names.append('out__')
        has_self = self.unit.cls is not None and not self.pm
        state = (['self'] if has_self else []) + names
        if not state and self.pm:
            if 'u__' not in self.muts:
                self.muts.append('u__')
                self.env['u__'] = ('u__', NONE)
                self.pre_loop = ['let mut u__ : Unit := ()']
            names = ['u__']
            state = ['u__']
        if not state:
            raise Untranslatable('while loop without state')
        returns = any(isinstance(sub, ast.Return) for sub in ast.walk(ast.Module(body=s.body, type_ignores=[])))
        stypes = ([self.unit.self_type] if has_self else []) + [lty(self.env[n][1]) for n in names]
        # free variables of the loop that are not state: pass every other known local/param as an argument
        frees = [(n, self.env[n]) for n in self.env if n not in names and n != 'self'
                 and not isinstance(self.env[n][1], Rec) and not n.startswith('r__') and n not in getattr(self.unit, 'consts', {})
                 and not (isinstance(self.env[n][1], tuple) and self.env[n][1][0] in ('FnVal',)) and n != 'u__' and n != 'out__'
                 and not n.startswith('popped__')]
        for n in list(self.env):
            if isinstance(self.env[n][1], Rec):
                for k, t in self.env[n][1].fields.items():
                    frees.append((f'{n}_{k}', (f'{n}_{k}', t)))
        fparams = ' '.join(f'({n} : {lty(t)})' for n, (_, t) in frees)
        fargs = ' '.join(n for n, _ in frees)
        if getattr(self.unit, 'ext', False):
            fparams = self.ext_sig() + ' ' + fparams
            fargs = 'ext ' + fargs
        sparams = ' '.join(f'({n} : {t})' for n, t in zip(state, stypes))
        tup = state[0] if len(state) == 1 else '(' + ', '.join(state) + ')'
        tupty = stypes[0] if len(stypes) == 1 else '(' + ' × '.join(stypes) + ')'
        aux_name = f'{self.unit.lean_name}.{key}'
        rty = lty(self.unit.ret) if self.unit.ret not in (None, NONE) else 'Unit'
        if any(is_file(t) for _, t in self.unit.params):
            rty = '(' + ' × '.join([rty] + [lty(t) for _, t in self.unit.params if is_file(t)]) + ')'
        if has_self:
            rty = self.unit.self_type if self.unit.ret in (None, NONE) else f'({lty(self.unit.ret)} × {self.unit.self_type})'
        if self.pm and getattr(self, 'is_gen', False):
            rty = '(List M)'
        if returns:
            resty = f'(Sum {rty} {tupty})'      # inl: the function returned; inr: the loop ended
        else:
            resty = tupty
        c = self.cond(s.test)
        saved_muts = list(self.muts)
        self.loop_exit = getattr(self, 'loop_exit', []) + [f'(Sum.inr {tup})' if returns else tup]
        body = self.hoist_decls(self.block(s.body, '      '), '      ')
        self.loop_exit.pop()
        self.muts = saved_muts
        if getattr(self.unit, 'split_body', False) and not returns:
            # the loop body as a function of its own: Sum.inl = the loop is left (break), Sum.inr = next round
            blines = [f'def {aux_name}.body {fparams} {sparams} : {self.monad()} (Sum {tupty} {tupty}) := do']
            for n in state:
                blines.append(f'    let mut {n} := {n}')
            for b in body:
                # a `break` was rendered as `return <state>`: it leaves the loop
                blines.append(b[2:].replace(f'return {tup}', f'return Sum.inl {tup}') if b.strip() == f'return {tup}' else b[2:])
            blines.append(f'    return Sum.inr {tup}')
            self.aux.append('\n'.join(blines))
            pat = ', '.join(state)
            lines = [f'def {aux_name} {fparams} : Nat → {" → ".join(stypes)} → {self.monad()} {tupty}']
            lines.append(f'  | 0, {pat} => if {c} then throw Err.Hang else pure {tup}')
            lines.append(f'  | fuel + 1, {pat} =>')
            lines.append(f'    if {c} then')
            lines.append(f'      match {aux_name}.body {fargs} {" ".join(state)} with')
            lines.append(f'      | .error e => .error e')
            lines.append(f'      | .ok (Sum.inl st) => pure st')
            projs = []
            for i, n in enumerate(state):
                projs.append('st' + ''.join(['.2'] * i) + ('.1' if i < len(state) - 1 else '') if len(state) > 1 else 'st')
            lines.append(f'      | .ok (Sum.inr st) => {aux_name} {fargs} fuel {" ".join(projs)}')
            lines.append(f'    else pure {tup}')
            self.aux.append('\n'.join(lines))
            out = []
            call = f'{aux_name} {fargs} ({fuel}) {" ".join(state)}'
            out.append(f'{ind}let st ← {call}')
            for n, pr in zip(state, projs):
                out.append(f'{ind}{n} := {pr}')
            return out
        fv = 'fuel__' if self.pm else 'fuel'
        lines = [f'def {aux_name} {fparams} : Nat → {" → ".join(stypes)} → {self.monad()} {resty}']
        pat = ', '.join(state)
        done = f'pure (Sum.inr {tup})' if returns else f'pure {tup}'
        lines.append(f'  | 0, {pat} => {"do " if "←" in c else ""}if {c} then throw Err.Hang else {done}')
        lines.append(f'  | {fv} + 1, {pat} => do')
        for n in state:
            lines.append(f'    let mut {n} := {n}')
        lines.append(f'    if {c} then')
        if returns:
            body = [(b.replace('return ', 'return Sum.inl (') + ')') if ('return ' in b and 'return (Sum.inr' not in b) else b for b in body]
        lines.extend(body)
        if not self.terminates(s.body):
            lines.append(f'      {aux_name} {fargs} {fv} {" ".join(state)}')
        lines.append(f'    else {done}')
        self.aux.append('\n'.join(lines))
        out = []
        call = f'{aux_name} {fargs} ({fuel}) {" ".join(state)}'
        infinite = isinstance(s.test, ast.Constant) and s.test.value is True
        if returns and infinite and not has_break:
            out.append(f'{ind}match (← {call}) with')
            out.append(f'{ind}| Sum.inl r => return r')
            out.append(f'{ind}| Sum.inr _ => throw Err.Hang')
            return out
        if returns:
            out.append(f'{ind}match (← {call}) with')
            out.append(f'{ind}| Sum.inl r => return r')
            out.append(f'{ind}| Sum.inr st =>')
            if len(state) == 1:
                out.append(f'{ind}  {state[0]} := st')
            else:
                for i, n in enumerate(state):
                    proj = 'st' + ''.join(['.2'] * i) + ('.1' if i < len(state) - 1 else '')
                    out.append(f'{ind}  {n} := {proj}')
        else:
            out.append(f'{ind}let st ← {call}')
            if len(state) == 1:
                out.append(f'{ind}{state[0]} := st')
            else:
                for i, n in enumerate(state):
                    proj = 'st' + ''.join(['.2'] * i) + ('.1' if i < len(state) - 1 else '')
                    out.append(f'{ind}{n} := {proj}')
        return out

    def hoist_decls(self, lines, base):
        if not getattr(self.unit, 'hoist', False):
            return lines
        return self._hoist_decls(lines, base)

    @staticmethod
    def _hoist_decls(lines, base):
        """Python variables live in the whole function: a variable first assigned inside a branch is declared (with a
        default value that is never read) at the start of the enclosing body, and the branch assigns to it."""
        import re as _re
        seen, decls, out = set(), [], []
        pat = _re.compile(r'^(\s*)let mut (\w+) : (.+?) := (.*)$')
        for ln in lines:
            m = pat.match(ln)
            if m and len(m.group(1)) > len(base) and m.group(2) not in seen:
                seen.add(m.group(2))
                decls.append(f'{base}let mut {m.group(2)} : {m.group(3)} := default')
                out.append(f'{m.group(1)}{m.group(2)} := {m.group(4)}')
            elif m and len(m.group(1)) > len(base) and m.group(2) in seen:
                out.append(f'{m.group(1)}{m.group(2)} := {m.group(4)}')
            else:
                if m:
                    seen.add(m.group(2))
                out.append(ln)
        return decls + out

    def terminates(self, stmts):
        if not stmts:
            return False
        last = stmts[-1]
        if isinstance(last, (ast.Return, ast.Raise)):
            return True
        if isinstance(last, ast.If):
            return bool(last.orelse) and self.terminates(last.body) and self.terminates(last.orelse)
        if isinstance(last, ast.For) and last.orelse and self.terminates(last.orelse) and \
                not any(isinstance(x, ast.Break) for x in ast.walk(last)):
            return True
        if isinstance(last, ast.While) and isinstance(last.test, ast.Constant) and last.test.value is True and \
                not any(isinstance(x, ast.Break) for x in ast.walk(last)):
            return True
        return False

    # ---------- whole function ----------------------------------------------
    RESERVED = {'end', 'from', 'do', 'then', 'at', 'by', 'have', 'show', 'fun', 'match', 'with', 'open', 'let', 'where',
                'instance', 'deriving', 'def', 'theorem', 'if', 'else', 'for', 'in', 'return', 'mut', 'namespace', 'section'}

    def translate(self):
        u, fn = self.unit, self.fn
        reserved = self.RESERVED

        class Ren(ast.NodeTransformer):          # Python names that are Lean keywords get a trailing underscore
            def visit_Name(self, n):
                if n.id in reserved:
                    return ast.copy_location(ast.Name(id=n.id + '_', ctx=n.ctx), n)
                return n
        src_text = textwrap.indent(ast.unparse(fn), '  -- ')
        fn = self.fn = Ren().visit(fn)
        pnames = [a.arg for a in fn.args.args]
        params = []
        if u.cls is not None:
            if pnames[0] != 'self':
                raise Untranslatable('method without self')
            pnames = pnames[1:]
            self.env['self'] = ('self', 'Self')
            if not self.pm:
                params.append(f'(self : {u.self_type})')
            for en, et in getattr(u, 'extra', []):
                params.append(f'({en} : {et})')
                self.env[en] = (en, ('Raw', et))
        if u.cls is None:
            for en, et in getattr(u, 'extra', []):
                params.append(f'({en} : {et})')
                self.env[en] = (en, ('Raw', et))
        decl = dict(u.params)
        ndefaults = len(fn.args.defaults)
        required = pnames[:len(pnames) - ndefaults] if ndefaults else list(pnames)
        if fn.args.kwarg is not None:
            pnames = pnames + [fn.args.kwarg.arg]        # **kwargs: a dict parameter, declared or (when unused) left out
        for p in pnames:
            if p in getattr(u, 'consts', {}):
                continue
            if p not in decl:
                if p in getattr(u, 'untyped_params', ()):
                    continue
                if p in required:
                    raise Untranslatable(f'parameter {p} has no declared type')
                continue        # optional parameter left at its default: must not be used
        if [p for p, _ in u.params] != [p for p in pnames if p in decl]:
            raise Untranslatable(f'parameters are {pnames}, configured {[p for p, _ in u.params]}')
        for p, t in u.params:
            self.env[p] = (p, t)
            if isinstance(t, Rec):
                for k, kt in t.fields.items():
                    params.append(f'({p}_{k} : {lty(kt)})')
                if t.out:
                    self.out_rec = (p, t)
            else:
                params.append(f'({p} : {lty(t)})')
        for cname, cval in getattr(u, 'consts', {}).items():
            self.env[cname] = (('true' if cval else 'false'), BOOL)
        for fname, fty in getattr(u, 'fn_params', {}).items():
            params.append(f'({fname} : {fty})')
        for oname, od in getattr(u, 'opaque', {}).items():
            for a, t in od.get('attrs', {}).items():
                params.append(f'({oname}_{a} : {lty(t)})')
            for m, t in od.get('methods', {}).items():
                params.append(f'({oname}_{m} : Except Err {lty(t)})')
        if getattr(u, 'type_params', None):
            params.insert(0, u.type_params)
        if getattr(u, 'ext', False):
            params.insert(0, self.ext_sig())
        if getattr(u, 'ctxmgr', False):
            params.insert(0, '{α : Type}')
            params.append(f'(body : PM {u.self_type} α)')
        body = []
        if u.cls is not None and not self.pm:
            body.append('  let mut self := self')
            self.muts.append('self')
        assigned = self.assigned_names(fn.body)
        for p, t in u.params:
            if not isinstance(t, Rec) and (p in assigned or is_file(t)):
                body.append(f'  let mut {p} := {p}')
                self.muts.append(p)
        if self.out_rec is not None:
            name, rec = self.out_rec
            for k in rec.fields:
                body.append(f'  let mut {name}_{k} := {name}_{k}')
        if getattr(u, 'written_file', None):
            if any(isinstance(x, ast.Return) for x in ast.walk(fn)):
                raise Untranslatable('return inside a function whose result is the file it writes')
            body.append(f'  let mut {u.written_file} : (List Int) := []')
            self.muts.append(u.written_file)
            self.env[u.written_file] = (u.written_file, FILE)
        stmts = fn.body
        self.is_gen = any(isinstance(x, ast.Yield) for x in ast.walk(fn)) and not getattr(u, 'ctxmgr', False)
        if self.is_gen and self.pm:
            body.append('  let mut out__ : List M := []')
            self.muts.append('out__')
            self.env['out__'] = ('out__', LIST(EXTMSG))
        elif self.is_gen:
            if any(isinstance(x, ast.Return) for x in ast.walk(fn)):
                raise Untranslatable('return inside a generator')
            body.append('  let mut out__ : List TMsg := []')
            self.muts.append('out__')
            self.env['out__'] = ('out__', LIST(MSG))
        blk = self.hoist_decls(self.block(stmts, '  '), '  ')
        body.extend(['  ' + x for x in getattr(self, 'pre_loop', [])])
        body.extend(blk)
        if getattr(u, 'ctxmgr', False):
            if not (stmts and isinstance(stmts[-1], ast.Try)):
                raise Untranslatable('context manager that does not end with try: yield finally: ...')
        elif not self.terminates(stmts):
            # falling off the end returns None (the object state for methods)
            body.append(f'  return {u.written_file if getattr(u, "written_file", None) else self.ret_value(None)}')
        if getattr(u, 'ctxmgr', False):
            rty = 'α'
        elif getattr(u, 'written_file', None):
            rty = '(List Int)'
        elif self.pm:
            rty = '(List M)' if self.is_gen else (lty(u.ret) if u.ret not in (None, NONE) else 'Unit')
        elif u.cls is not None:
            rty = u.self_type if u.ret in (None, NONE) else f'({lty(u.ret)} × {u.self_type})'
        elif self.out_rec is not None:
            ts = [lty(t) for t in self.out_rec[1].fields.values()] + [lty(t) for _, t in u.params if is_file(t)]
            rty = ts[0] if len(ts) == 1 else '(' + ' × '.join(ts) + ')'
        else:
            rty = lty(u.ret) if u.ret not in (None,) else 'Unit'
            if any(is_file(t) for _, t in u.params):
                rty = '(' + ' × '.join([rty] + [lty(t) for _, t in u.params if is_file(t)]) + ')'
        head = f'def {u.lean_name} {" ".join(params)} : {self.monad()} {rty} := do'
        src = src_text
        return '\n\n'.join(self.aux + [f'/- {u.file}: {("class " + u.cls + ", ") if u.cls else ""}{u.name}\n{src}\n-/\n' + head + '\n' + '\n'.join(body)])


class Translator:
    def __init__(self, units):
        self.units = units
        self.tables = {}
        self.asts = {}
        self.mods = {}
        self.failures = []

    def class_table(self, file):
        """CLASS_MRO_<file>: class name -> names of the classes in its method resolution order (itself first), for the classes
        the translated functions of the file mention; read off the live classes of the working tree"""
        if not hasattr(self, 'classes_used'):
            self.classes_used = {}
        self.classes_used.setdefault(file, set())
        return 'CLASS_MRO_' + os.path.basename(file)[:-3]

    def class_tables_text(self, file):
        cs = sorted(getattr(self, 'classes_used', {}).get(file, ()), key=lambda c: c.__name__)
        rows = ', '.join('("%s", [%s])' % (c.__name__, ', '.join('"%s"' % b.__name__ for b in c.__mro__ if b is not object)) for c in cs)
        return f'def {self.class_table(file)} : List (String × List String) := [{rows}]'

    def module_of(self, file):
        if file not in self.mods:
            name = file[:-3].replace('/', '.')
            self.mods[file] = importlib.import_module(name)
        return self.mods[file]

    def table(self, name, d):
        if name not in self.tables:
            rows = []
            skey = all(isinstance(k, str) for k in d)
            for k in sorted(d):
                v = d[k]
                if isinstance(v, dict) and 'length' in v and 'type' in v:
                    ln = v['length']
                    ln = 0 if ln == float('inf') else int(ln)
                    vn = ', '.join('"%s"' % x for x in v.get('value_names', ()))
                    key = f'"{k}"' if skey else str(k)
                    rows.append(f'({key}, {{ type := "{v["type"]}", length := {ln}, status_byte := {int(v.get("status_byte", 0))}, '
                                f'value_names := [{vn}] }})')
                else:
                    raise Untranslatable(f'table {name} has rows of unsupported kind')
            self.tables[name] = f'def {name} : List ({"String" if skey else "Int"} × SpecRow) :=\n  [' + ', '.join(rows) + ']'
        return name

    def fn_table(self, file, name, d):
        """a dict of functions: key -> NAME of the function (the dispatcher generated where it is called matches on it)"""
        lname = os.path.basename(file)[:-3] + '_' + name.lstrip('_')
        if lname not in self.tables:
            skey = all(isinstance(k, str) for k in d)
            rows = ', '.join((f'("{k}", "{d[k].__name__}")' if skey else f'({k}, "{d[k].__name__}")') for k in sorted(d))
            self.tables[lname] = f'def {lname} : List ({"String" if skey else "Int"} × String) :=\n  [' + rows + ']'
            self.fn_names = getattr(self, 'fn_names', {})
            self.fn_names[(file, name)] = (lname, sorted({f.__name__ for f in d.values()}))
        return lname

    def dispatcher(self, ft, file, name, kt, argtypes):
        """def <table>.call key args: looks the function's name up (KeyError if absent) and calls its translation"""
        lname, fnames = self.fn_names[(file, name)]
        dname = lname + '.call'
        self.dispatchers = getattr(self, 'dispatchers', {})
        if dname in self.dispatchers:
            return dname, self.dispatchers[dname]
        want_dict = getattr(ft.unit, 'dicts', False)
        arms, rts = [], set()
        for fname in fnames:
            cands = [u for u in self.units if u.name == fname and u.file == file and u.cls is None and not getattr(u, 'pycls', None)]
            pref = [u for u in cands if bool(getattr(u, 'dicts', False)) == want_dict] or cands
            if not pref:
                raise Untranslatable(f'{fname} (in {name}) is not translated')
            u = pref[0]
            if len(u.params) != len(argtypes):
                raise Untranslatable(f'{fname}: number of arguments')
            call = []
            for i, ((pn, pt), at) in enumerate(zip(u.params, argtypes)):
                if isinstance(pt, Rec) and at == DICT:
                    for k, kty in pt.fields.items():
                        g = {INT: 'dgetInt', STR: 'dgetStr', LINT: 'dgetInts'}.get(kty)
                        if g is None:
                            raise Untranslatable('record field type')
                        call.append(f'(← {g} a{i} "{k}")')
                elif pt == at:
                    call.append(f'a{i}')
                else:
                    raise Untranslatable(f'{fname}: argument {pn} is {pt}, given {at}')
            rts.add(str(u.ret))
            ret = u.ret
            arms.append(f'  | "{fname}" => {u.lean_name} {" ".join(call)}')
        if len(rts) != 1:
            raise Untranslatable(f'functions in {name} return different types')
        params = ' '.join(f'(a{i} : {lty(t)})' for i, t in enumerate(argtypes))
        get = 'dictGet' if kt == INT else 'dictGetS'
        text = (f'/-- `{name}[key](…)` of {file} -/\ndef {dname} (key : {lty(kt)}) {params} : Except Err {lty(ret)} := do\n'
                f'  match (← {get} {lname} key) with\n' + '\n'.join(arms) + '\n  | _ => throw Err.Other')
        ft.aux.append(text)
        self.dispatchers[dname] = ret
        return dname, ret

    def name_tables(self):
        """dispatch tables of the source: which function serves which key (function names only)"""
        out = []
        try:
            C = importlib.import_module('mido.messages.checks')
            rows = ', '.join('("%s", "%s")' % (k, C._CHECKS[k].__name__) for k in sorted(C._CHECKS))
            out.append('/-- mido/messages/checks.py: `_CHECKS`, attribute name -> name of the check function -/\n'
                       'def _CHECKS : List (String × String) := [' + rows + ']')
            E = importlib.import_module('mido.messages.encode')
            rows = ', '.join('("%s", "%s")' % (k, E._SPECIAL_CASES[k].__name__) for k in sorted(E._SPECIAL_CASES))
            out.append('/-- mido/messages/encode.py: `_SPECIAL_CASES`, message type -> name of the dedicated encoder -/\n'
                       'def ENCODE_SPECIAL_CASES : List (String × String) := [' + rows + ']')
            D = importlib.import_module('mido.messages.decode')
            rows = ', '.join('(%d, "%s")' % (k, D._SPECIAL_CASES[k].__name__) for k in sorted(D._SPECIAL_CASES))
            out.append('/-- mido/messages/decode.py: `_SPECIAL_CASES`, status byte -> name of the dedicated decoder -/\n'
                       'def DECODE_SPECIAL_CASES : List (Nat × String) := [' + rows + ']')
        except Exception as e:
            self.failures.append(f'dispatch tables: {type(e).__name__}: {e}')
        return '\n\n'.join(out)

    def class_fields(self, cls):
        for u in self.units:
            if u.cls == cls and u.fields:
                return u.fields
        raise Untranslatable('unknown class ' + cls)

    def unit_by_pyname(self, file, name, cls=None, pycls=None):
        if pycls is not None:
            for u in self.units:
                if u.name == name and getattr(u, 'pycls', None) == pycls and u.file == file:
                    return u
            return None
        for u in self.units:
            if u.name == name and u.cls == cls and u.file == file and not getattr(u, 'pycls', None):
                return u
        # imported from another translated module
        if cls is None:
            for u in self.units:
                if u.name == name and u.cls is None:
                    return u
        return None

    def find(self, file, name, cls):
        if file not in self.asts:
            with open(os.path.join(REPO, file)) as f:
                self.asts[file] = ast.parse(f.read())
        tree = self.asts[file]
        body = tree.body
        if cls is not None:
            cands = [n for n in body if isinstance(n, ast.ClassDef) and n.name == cls]
            if not cands:
                raise Untranslatable(f'class {cls} not found in {file}')
            body = cands[0].body
        cands = [n for n in body if isinstance(n, ast.FunctionDef) and n.name == name]
        if not cands:
            raise Untranslatable(f'function {name} not found in {file}')
        if len(cands) > 1:
            # a property with its setter / deleter: the getter is what an attribute read calls
            def is_acc(n):
                return len(n.decorator_list) == 1 and isinstance(n.decorator_list[0], ast.Attribute) and \
                    isinstance(n.decorator_list[0].value, ast.Name) and n.decorator_list[0].value.id == name and \
                    n.decorator_list[0].attr in ('setter', 'deleter')
            getters = [n for n in cands if not is_acc(n)]
            if len(getters) == 1 and len(getters[0].decorator_list) == 1 and isinstance(getters[0].decorator_list[0], ast.Name) \
                    and getters[0].decorator_list[0].id == 'property':
                cands = getters
            else:
                raise Untranslatable(f'function {name} is defined more than once in {file}')
        for n in body:
            tg = []
            if isinstance(n, ast.Assign):
                tg = n.targets
            elif isinstance(n, (ast.AugAssign, ast.AnnAssign)):
                tg = [n.target]
            if any(isinstance(t, ast.Name) and t.id == name for t in tg):
                raise Untranslatable(f'the name {name} is rebound after the definition ({ast.unparse(n)[:60]})')
        for d in cands[0].decorator_list:
            # a decorator changes what a call of the function does (a cache makes callers share one result object):
            # only the ones that merely bind the first argument are within the fragment
            if not (isinstance(d, ast.Name) and d.id in ('classmethod', 'staticmethod', 'contextmanager', 'property')):
                raise Untranslatable(f'function {name} is decorated with {ast.unparse(d)}')
        return cands[0]

    GROUPS = {'mido/messages/encode.py': 'Codec', 'mido/messages/decode.py': 'Codec', 'mido/messages/checks.py': 'Codec',
              'mido/tokenizer.py': 'Tok', 'mido/midifiles/meta.py': 'MetaNum', 'mido/midifiles/tracks.py': 'Tracks',
              'mido/midifiles/midifiles.py': 'FileIO', 'mido/parser.py': 'Parser', 'mido/ports.py': 'Ports', 'mido/syx.py': 'Syx', 'mido/sockets.py': 'Sockets'}
    DEPS = {'Codec': [], 'Msg': ['Codec'], 'Tok': [], 'Parser': ['Tok'], 'Ports': [], 'Charset': [], 'Syx': ['Tok', 'Parser'], 'Sockets': [], 'Backend': [], 'Frozen': [], 'Timing': [], 'MetaNum': [], 'Tracks': [], 'FileIO': ['MetaNum', 'Tracks']}

    def run_groups(self):
        """one generated file per group of source files, so that a function that cannot be translated (or an edit that
        breaks a proof) only touches the ties that really depend on it"""
        out = {}
        structs = {}
        per = {g: [] for g in self.DEPS}
        for u in self.units:
            g = getattr(u, 'group', None) or self.GROUPS[u.file]
            defs = per[g]
            if getattr(u, 'globals_state', None) and u.self_type not in structs:
                structs[u.self_type] = u.struct_text
                defs.append(structs[u.self_type])
            if u.cls is not None and u.self_type not in structs:
                fl = '\n'.join(f'  {k} : {lty(t)} := {dflt}' for k, (t, dflt) in u.field_defaults.items())
                if getattr(u, 'pm', False):
                    structs[u.self_type] = u.struct_text
                elif getattr(u, 'ext', False):
                    structs[u.self_type] = f'structure {u.cls} (M : Type) where\n{fl}'
                else:
                    structs[u.self_type] = f'structure {u.self_type} where\n{fl}\n  deriving DecidableEq, Repr, Inhabited'
                defs.append(structs[u.self_type])
            try:
                pycls = getattr(u, 'pycls', None)
                fn = self.find(u.file, u.name, pycls or u.cls)
                if pycls:
                    fn = ast.parse(ast.unparse(fn)).body[0]
                    if not fn.args.args or fn.args.args[0].arg not in ('self', 'cls'):
                        raise Untranslatable('method without self')
                    if not getattr(u, 'keep_self', False):
                        fn.args.args = fn.args.args[1:]
                defs.append(FnTranslator(self, u, fn).translate())
            except Untranslatable as e:
                self.failures.append(f'{u.file}:{(getattr(u, "pycls", None) or u.cls or "")}.{u.name}: {e}')
                defs.append(f'-- NOT TRANSLATED: {u.lean_name}: {e}')
        per['Codec'].append(self.name_tables())
        for file in sorted(getattr(self, 'classes_used', {})):
            g = next((getattr(u, 'group', None) or self.GROUPS[u.file] for u in self.units if u.file == file and getattr(u, 'objects', False)), None)
            if g is not None:
                per[g].insert(0, self.class_tables_text(file))
        note = '/- GENERATED by harness/py2lean.py from the SOURCE TEXT of the mido working tree. Do not edit. -/'
        out['SrcTables'] = '\n\n'.join([note + '\nimport MidoModel.PySem\nnamespace Mido.Src\nopen Mido Mido.Py\n'] +
                                        list(self.tables.values()) + ['end Mido.Src', ''])
        for g, defs in per.items():
            imports = ['import MidoModel.PySem', 'import MidoModel.Generated.SrcTables'] + [f'import MidoModel.Generated.Src{d}' for d in self.DEPS[g]]
            head = [note] + imports + ['set_option linter.unusedVariables false', 'namespace Mido.Src', 'open Mido Mido.Py', '']
            out['Src' + g] = '\n\n'.join(['\n'.join(head)] + defs + ['end Mido.Src', ''])
        out['Src'] = note + '\n' + '\n'.join(f'import MidoModel.Generated.Src{g}' for g in per) + '\n'
        return out

    def run(self):
        defs = []
        structs = {}
        for u in self.units:
            if u.cls is not None and u.self_type not in structs:
                fl = '\n'.join(f'  {k} : {lty(t)} := {dflt}' for k, (t, dflt) in u.field_defaults.items())
                structs[u.self_type] = f'structure {u.self_type} where\n{fl}\n  deriving DecidableEq, Repr, Inhabited'
                defs.append(structs[u.self_type])
            try:
                pycls = getattr(u, 'pycls', None)
                fn = self.find(u.file, u.name, pycls or u.cls)
                if pycls:       # method of a stateless class: translated as a plain function, `self` must stay unused
                    fn = ast.parse(ast.unparse(fn)).body[0]
                    if not fn.args.args or fn.args.args[0].arg != 'self':
                        raise Untranslatable('method without self')
                    if not getattr(u, 'keep_self', False):
                        fn.args.args = fn.args.args[1:]
                defs.append(FnTranslator(self, u, fn).translate())
            except Untranslatable as e:
                self.failures.append(f'{u.file}:{(getattr(u, "pycls", None) or u.cls or "")}.{u.name}: {e}')
                defs.append(f'-- NOT TRANSLATED: {u.lean_name}: {e}')
        defs.append(self.name_tables())
        head = ['/- GENERATED by harness/py2lean.py from the SOURCE TEXT of the mido working tree. Do not edit. -/',
                'import MidoModel.PySem', 'set_option linter.unusedVariables false',
                'namespace Mido.Src', 'open Mido Mido.Py', '']
        return '\n\n'.join(['\n'.join(head)] + list(self.tables.values()) + defs + ['end Mido.Src', ''])


def _tok_fields():
    return {'_status': (INT, '0'), '_bytes': (LINT, '[]'), '_messages': (LIST(LINT), '[]'), '_len': (INT, '0')}


def units():
    U = []
    E = 'mido/messages/encode.py'
    U.append(Unit(E, '_encode_pitchwheel', [('msg', Rec({'pitch': INT, 'channel': INT}))], LINT))
    U.append(Unit(E, '_encode_sysex', [('msg', Rec({'data': LINT}))], LINT))
    U.append(Unit(E, '_encode_quarter_frame', [('msg', Rec({'frame_type': INT, 'frame_value': INT}))], LINT))
    U.append(Unit(E, '_encode_songpos', [('data', Rec({'pos': INT}))], LINT))
    U.append(Unit(E, '_encode_note_off', [('msg', Rec({'channel': INT, 'note': INT, 'velocity': INT}))], LINT))
    U.append(Unit(E, '_encode_note_on', [('msg', Rec({'channel': INT, 'note': INT, 'velocity': INT}))], LINT))
    U.append(Unit(E, '_encode_control_change', [('msg', Rec({'channel': INT, 'control': INT, 'value': INT}))], LINT))
    D = 'mido/messages/decode.py'
    U.append(Unit(D, '_decode_sysex_data', [('data', LINT)], LINT))
    U.append(Unit(D, '_decode_quarter_frame_data', [('data', LINT)], ('Tuple', [INT, INT])))
    U.append(Unit(D, '_decode_songpos_data', [('data', LINT)], INT))
    U.append(Unit(D, '_decode_pitchwheel_data', [('data', LINT)], INT))
    # the message dict level: decode_message / encode_message and what they call, with dicts as dicts
    for n in ('_decode_sysex_data', '_decode_quarter_frame_data', '_decode_songpos_data', '_decode_pitchwheel_data'):
        u = Unit(D, n, [('data', LINT)], DICT, lean_name=n + '.d')
        u.dicts, u.group = True, 'Msg'
        U.append(u)
    u = Unit(D, '_decode_data_bytes', [('status_byte', INT), ('data', LINT), ('spec', SPECROW)], DICT)
    u.dicts, u.group = True, 'Msg'
    U.append(u)
    u = Unit(D, 'decode_message', [('msg_bytes', LINT), ('time', INT)], DICT)
    u.dicts, u.group, u.consts = True, 'Msg', {'check': True}
    U.append(u)
    u = Unit(E, 'encode_message', [('msg', DICT)], LINT)
    u.dicts, u.group = True, 'Msg'
    U.append(u)
    C = 'mido/messages/checks.py'
    for n in ('check_channel', 'check_pos', 'check_pitch', 'check_frame_type', 'check_frame_value', 'check_data_byte'):
        U.append(Unit(C, n, [({'check_channel': 'channel', 'check_pos': 'pos', 'check_pitch': 'pitch'}.get(n, 'value'), INT)], NONE))
    U.append(Unit(C, 'check_data', [('data_bytes', LINT)], NONE))
    T = 'mido/tokenizer.py'
    for n, ps in (('_feed_status_byte', [('status', INT)]), ('_feed_data_byte', [('byte', INT)]),
                  ('feed_byte', [('byte', INT)]), ('feed', [('data', LINT)])):
        u = Unit(T, n, ps, NONE, cls='Tokenizer', fields={k: t for k, (t, _) in _tok_fields().items()},
                 self_type='Tokenizer')
        u.field_defaults = _tok_fields()
        U.append(u)
    P = 'mido/parser.py'
    pf = {'messages': (LIST(EXTMSG), '[]'), '_tok': (('Obj', 'Tokenizer'), '{}')}
    for n, ps, ret, fuel in (('_decode', [], NONE, {'loop1': 'self._tok._messages.length + 1'}),
                             ('feed', [('data', LINT)], NONE, None), ('feed_byte', [('byte', INT)], NONE, None),
                             ('get_message', [], ('Opt', EXTMSG), {'loop1': 'self.messages.length + 1'}),
                             ('pending', [], INT, None)):
        u = Unit(P, n, ps, ret, cls='Parser', fields={k: t for k, (t, _) in pf.items()}, self_type='(Parser M)', fuel=fuel)
        u.field_defaults, u.ext = pf, True
        U.append(u)
    PO = 'mido/ports.py'
    port_struct = ('/-- a port object as far as ports.py reads and writes it: the `closed` flag, the queue `_messages`, `autoreset`, the\n'
                   '    state of the device behind `_receive`/`_send`/`_close` (type `D`), and a count of the calls of `sleep()` -/\n'
                   'structure BasePort (M D : Type) where\n  closed : Bool\n  _messages : List M\n  autoreset : Bool\n  dev : D\n  sleeps : Int\n\n'
                   '/-- what the code outside ports.py does when ports.py calls it: the device methods of the port subclass\n'
                   '    (they may do anything to the port object), `msg.copy()`, and the messages `reset_messages()` yields -/\n'
                   'structure PortExt (M D : Type) where\n  recv : Bool → PM (BasePort M D) (Option M)\n  send : M → PM (BasePort M D) Unit\n'
                   '  closeDev : PM (BasePort M D) Unit\n  copy : M → M\n  resetMsgs : List M')
    pfields = {'closed': BOOL, '_messages': LIST(EXTMSG), 'autoreset': BOOL, 'sleeps': INT}
    for cls, n, ps, ret, fuel, extra in (
            ('BaseOutput', 'send', [('msg', EXTMSG)], NONE, None, []),
            ('BaseOutput', 'reset', [], NONE, None, []),
            ('BasePort', 'close', [], NONE, None, []),
            ('BaseInput', 'receive', [('block', BOOL)], ('Opt', EXTMSG), {'loop1': 'fuel'}, [('fuel', 'Nat')]),
            ('BaseInput', 'poll', [], ('Opt', EXTMSG), None, [('fuel', 'Nat')]),
            ('BaseInput', 'iter_pending', [], LIST(EXTMSG), {'loop1': 'fuel2'}, [('fuel', 'Nat'), ('fuel2', 'Nat')]),
            ('BaseInput', '__iter__', [], LIST(EXTMSG), {'loop1': 'fuel2'}, [('fuel', 'Nat'), ('fuel2', 'Nat')])):
        u = Unit(PO, n, ps, ret, cls=cls, fields=pfields, self_type='(BasePort M D)', fuel=fuel,
                 lean_name=f'{cls}.{n}' if n != '__iter__' else f'{cls}.iter_all')
        u.pm, u.ext, u.extra = True, True, extra
        u.ext_sig = '{M D : Type} (ext : PortExt M D)'
        u.struct_text, u.field_defaults = port_struct, {}
        u.ext_methods = {'_receive': ('recv', ('Opt', EXTMSG)), '_send': ('send', NONE), '_close': ('closeDev', NONE)}
        u.ext_values = {'reset_messages': ('resetMsgs', LIST(EXTMSG))}
        u.ghost_calls = {'sleep': 'sleeps'}
        u.skip_methods = ('_check_callback',)
        u.hasattr = {'autoreset': True}
        u.attr_consts = {'is_input': True, 'is_output': True}
        U.append(u)
    u = Unit('mido/sockets.py', 'parse_address', [('address', ('Text',))], ('Tuple', [('Text',), INT]))
    u.fn_params = {'pyint': 'List Int → Except Err Int'}
    u.retype = True
    U.append(u)
    u = Unit('mido/syx.py', 'read_syx_file', [], LIST(EXTMSG), fuel={'loop1': 'parser.messages.length + 1'})
    u.ext, u.file_param, u.consts = True, 'file_bytes', {}
    u.extra = [('file_bytes', '(List Int)')]
    u.local_types = {'acc__': LIST(EXTMSG)}
    u.untyped_params = ('filename',)
    u.hoist = True
    U.append(u)
    BK = 'mido/backends/backend.py'
    u = Unit(BK, '_add_api', [('self', Rec({'api': ('Opt', STR)})), ('kwargs', KWARGS)], KWARGS, lean_name='Backend._add_api')
    u.pycls, u.keep_self, u.group = 'Backend', True, 'Backend'
    U.append(u)
    u = Unit(BK, '_env', [('self', Rec({'use_environ': BOOL})), ('name', STR)], ('Opt', STR), lean_name='Backend._env')
    u.pycls, u.keep_self, u.group = 'Backend', True, 'Backend'
    u.fn_params = {'environ_get': 'String → Option String'}
    U.append(u)
    gd = {'module_has_get_devices': 'Bool', 'module_get_devices': 'KwArgs → Except Err (List Device)'}
    u = Unit(BK, '_get_devices', [('self', Rec({'api': ('Opt', STR)})), ('kwargs', KWARGS)], LIST(DEVICE), lean_name='Backend._get_devices')
    u.pycls, u.keep_self, u.group = 'Backend', True, 'Backend'
    u.fn_params = dict(gd)
    u.module_has = {'get_devices': 'module_has_get_devices'}
    u.module_fns = {'get_devices': ('module_get_devices', LIST(DEVICE))}
    U.append(u)
    for nm in ('get_input_names', 'get_output_names', 'get_ioport_names'):
        u = Unit(BK, nm, [('self', Rec({'api': ('Opt', STR)})), ('kwargs', KWARGS)], LIST(STR), lean_name=f'Backend.{nm}')
        u.pycls, u.keep_self, u.group = 'Backend', True, 'Backend'
        u.fn_params = dict(gd)
        U.append(u)
    for nm, ctor in (('open_input', 'Input'), ('open_output', 'Output')):
        u = Unit(BK, nm, [('self', Rec({'api': ('Opt', STR), 'use_environ': BOOL})), ('name', ('Opt', STR)), ('kwargs', KWARGS)], PORT,
                 lean_name=f'Backend.{nm}')
        u.pycls, u.keep_self, u.group = 'Backend', True, 'Backend'
        u.untyped_params = ('virtual', 'callback', 'autoreset')
        u.type_params = '{P : Type}'
        u.fn_params = {'environ_get': 'String → Option String', f'module_{ctor}': 'Option String → KwArgs → Except Err P'}
        u.module_ctors = {ctor: f'module_{ctor}'}
        U.append(u)
    u = Unit(BK, 'open_ioport', [('self', Rec({'api': ('Opt', STR), 'use_environ': BOOL})), ('name', ('Opt', STR)), ('kwargs', KWARGS)], PORT,
             lean_name='Backend.open_ioport')
    u.pycls, u.keep_self, u.group = 'Backend', True, 'Backend'
    u.untyped_params = ('virtual', 'callback', 'autoreset')
    u.type_params = '{P : Type}'
    u.fn_params = {'environ_get': 'String → Option String', 'module_has_IOPort': 'Bool', 'module_IOPort': 'Option String → KwArgs → Except Err P',
                   'module_Input': 'Option String → KwArgs → Except Err P', 'module_Output': 'Option String → KwArgs → Except Err P',
                   'ports_IOPort': 'P → P → P'}
    u.module_ctors = {'IOPort': 'module_IOPort', 'Input': 'module_Input', 'Output': 'module_Output'}
    u.module_has = {'IOPort': 'module_has_IOPort'}
    u.hoist = True
    U.append(u)
    FZ = 'mido/frozen.py'
    for nm, ret, copy in (('is_frozen', BOOL, False), ('freeze_message', ('Opt', OBJ), False), ('thaw_message', ('Opt', OBJ), True)):
        u = Unit(FZ, nm, [('msg', ('Opt', OBJ))], ret)
        u.group, u.objects, u.hoist = 'Frozen', True, True
        u.type_params = '{V : Type} [Inhabited V]'
        if copy:
            u.fn_params = {'obj_copy': 'PyObj V → Except Err (PyObj V)'}
        U.append(u)
    u = Unit('mido/syx.py', 'write_syx_file', [('messages', LIST(EXTMSG)), ('plaintext', BOOL)], NONE)
    u.ext, u.written_file, u.untyped_params = True, 'outfile', ('filename',)
    U.append(u)
    M = 'mido/midifiles/meta.py'
    U.append(Unit(M, 'encode_variable_int', [('value', INT)], LINT, fuel={'loop1': 'value.toNat'}))
    U.append(Unit(M, 'decode_variable_int', [('value', LINT)], INT))
    MFR = 'mido/midifiles/midifiles.py'
    U.append(Unit(MFR, 'read_variable_int', [('infile', INFILE)], INT, fuel={'loop1': 'infile.rest.length + 1'}))
    U.append(Unit(MFR, 'read_bytes', [('infile', INFILE), ('size', INT)], LINT))
    U.append(Unit(MFR, 'read_chunk_header', [('infile', INFILE)], ('Tuple', [LINT, INT])))
    U.append(Unit(MFR, 'read_file_header', [('infile', INFILE)], ('Tuple', [INT, INT, INT])))
    for nm, ps in (('read_message', [('infile', INFILE), ('status_byte', INT), ('peek_data', LINT), ('delta', INT), ('clip', BOOL)]),
                   ('read_sysex', [('infile', INFILE), ('delta', INT), ('clip', BOOL)]),
                   ('read_meta_message', [('infile', INFILE), ('delta', INT)])):
        u = Unit(MFR, nm, ps, EXTMSG)
        u.ext = True
        u.pure_if = True
        U.append(u)
    u = Unit(MFR, 'read_track', [('infile', INFILE), ('clip', BOOL)], LIST(EXTMSG), fuel={'loop1': 'infile.rest.length + 1'})
    u.ext = True
    u.consts = {'debug': False}
    u.hoist = True
    u.split_body = True
    u.local_types = {'track': LIST(EXTMSG), 'last_status': OPT_INT}
    U.append(u)
    U.append(Unit(M, 'check_int', [('value', INT), ('low', INT), ('high', INT)], NONE))
    u = Unit(M, 'meta_charset', [('tmp_charset', STR)], NONE, self_type='MetaGlobals')
    u.pm, u.ctxmgr, u.group = True, True, 'Charset'
    u.globals_state = {'_charset': STR}
    u.struct_text = ('/-- the module globals of mido/midifiles/meta.py that its functions rebind -/\n'
                     'structure MetaGlobals where\n  _charset : String\n  deriving DecidableEq, Repr')
    u.ext_sig = ''
    U.append(u)
    u = Unit(M, 'from_bytes', [('msg_bytes', LINT)], EXTMSG, lean_name='MetaMessage.from_bytes', fuel={'loop1': 'msg_bytes.length + 1'})
    u.pycls, u.ext = 'MetaMessage', True
    U.append(u)
    u = Unit(M, 'bytes', [], LINT, lean_name='MetaMessage.bytes')
    u.pycls, u.opaque = 'MetaMessage', {'spec': {'attrs': {'type_byte': INT}, 'methods': {'encode': LINT}}}
    U.append(u)
    u = Unit(M, 'bytes', [('self', Rec({'type_byte': INT, 'data': LINT}))], LINT, lean_name='UnknownMetaMessage.bytes')
    u.pycls, u.keep_self = 'UnknownMetaMessage', True
    U.append(u)

    TR = 'mido/midifiles/tracks.py'
    U.append(Unit(TR, '_to_abstime', [('messages', LIST(MSG))], LIST(MSG)))
    U.append(Unit(TR, '_to_reltime', [('messages', LIST(MSG))], LIST(MSG)))
    U.append(Unit(TR, 'fix_end_of_track', [('messages', LIST(MSG))], LIST(MSG)))
    U.append(Unit(TR, 'merge_tracks', [('tracks', LIST(LIST(MSG)))], LIST(MSG)))
    U[-1].local_types = {'messages': LIST(MSG)}

    MF = 'mido/midifiles/midifiles.py'
    U.append(Unit(MF, 'write_chunk', [('outfile', FILE), ('name', LINT), ('data', LINT)], NONE))
    U.append(Unit(MF, 'write_track', [('outfile', FILE), ('track', LIST(MSG))], NONE))
    U[-1].local_types = {'running_status_byte': OPT_INT}

    mfrec = lambda: Rec({'type': INT, 'tracks': LIST(LIST(MSG)), 'ticks_per_beat': INT})   # noqa: E731
    u = Unit(MF, '_save', [('self', mfrec()), ('outfile', FILE)], NONE, lean_name='MidiFile._save')
    u.pycls, u.keep_self = 'MidiFile', True
    U.append(u)
    u = Unit(MF, '_load', [('self', Rec({'type': INT, 'ticks_per_beat': INT, 'tracks': LIST(LIST(EXTMSG)), 'clip': BOOL}, out=True)),
                           ('infile', INFILE)], None, lean_name='MidiFile._load')
    u.pycls, u.keep_self, u.ext, u.attr_consts = 'MidiFile', True, True, {'debug': False}
    U.append(u)
    u = Unit(MF, 'save', [('self', mfrec()), ('file', FILE)], NONE, lean_name='MidiFile.save')
    u.pycls, u.keep_self = 'MidiFile', True
    U.append(u)
    u = Unit(MF, '__iter__', [('self', Rec({'merged_track': LIST(MSG), 'ticks_per_beat': INT}))], LIST(MSG), lean_name='MidiFile.iter')
    u.pycls, u.keep_self, u.group = 'MidiFile', True, 'Timing'
    u.fn_params = {'tick2second': 'Int → Int → Int → Int'}
    u.hoist = True
    U.append(u)

    u = Unit(MF, 'length', [('self', Rec({'type': INT, 'merged_track': LIST(MSG), 'ticks_per_beat': INT}))], INT, lean_name='MidiFile.length')
    u.pycls, u.keep_self, u.group, u.is_property = 'MidiFile', True, 'Timing', True
    u.fn_params = {'tick2second': 'Int → Int → Int → Int'}
    U.append(u)
    u = Unit(MF, 'merged_track', [('self', Rec({'type': INT, 'tracks': LIST(LIST(MSG))}))], LIST(MSG), lean_name='MidiFile.merged_track')
    u.pycls, u.keep_self, u.is_property = 'MidiFile', True, True
    U.append(u)

    def meta(cls, attrs, dec_extra=None, checks=True):
        rec_in = Rec({a: INT for a in attrs})
        U.append(Unit(M, 'encode', [('message', rec_in)], LINT, cls=None, lean_name=f'{cls}.encode'))
        U[-1].pycls = cls
        U.append(Unit(M, 'decode', [('message', Rec({a: INT for a in attrs}, out=True)), ('data', LINT)], None,
                      lean_name=f'{cls}.decode'))
        U[-1].pycls = cls
    meta('MetaSpec_sequence_number', ['number'])
    meta('MetaSpec_channel_prefix', ['channel'])
    meta('MetaSpec_midi_port', ['port'])
    meta('MetaSpec_set_tempo', ['tempo'])
    meta('MetaSpec_time_signature', ['numerator', 'denominator', 'clocks_per_click', 'notated_32nd_notes_per_beat'])
    for cls in ('MetaSpec_sequence_number', 'MetaSpec_channel_prefix', 'MetaSpec_midi_port', 'MetaSpec_set_tempo',
                'MetaSpec_time_signature'):
        u = Unit(M, 'check', [('name', STR), ('value', INT)], NONE, lean_name=f'{cls}.check')
        u.pycls = cls
        U.append(u)
    return U


def regenerate():
    import_mido()
    tr = Translator(units())
    for name, text in tr.run_groups().items():
        path = os.path.join(LEAN_DIR, 'MidoModel', 'Generated', name + '.lean')
        old = open(path).read() if os.path.exists(path) else None
        if old != text:
            with open(path, 'w') as f:
                f.write(text)
    return tr.failures


if __name__ == '__main__':
    for f in regenerate():
        print('NOT TRANSLATED', f)
