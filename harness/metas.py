"""Meta-message vocabulary of the harness, written from docs/meta_message_types.rst and the
SMF 1.0 specification (independent side of the oracles; protocol tokens for the driver)."""

# type -> (type byte, [(attr, domain)])   domain: ('int', lo, hi) | 'str' | 'rate' | 'pow2' | 'key' | 'bytes'
META = {
    'sequence_number': (0x00, [('number', ('int', 0, 65535))]),
    'text': (0x01, [('text', 'str')]),
    'copyright': (0x02, [('text', 'str')]),
    'track_name': (0x03, [('name', 'str')]),
    'instrument_name': (0x04, [('name', 'str')]),
    'lyrics': (0x05, [('text', 'str')]),
    'marker': (0x06, [('text', 'str')]),
    'cue_marker': (0x07, [('text', 'str')]),
    'device_name': (0x09, [('name', 'str')]),
    'channel_prefix': (0x20, [('channel', ('int', 0, 255))]),
    'midi_port': (0x21, [('port', ('int', 0, 255))]),
    'end_of_track': (0x2f, []),
    'set_tempo': (0x51, [('tempo', ('int', 0, 16777215))]),
    'smpte_offset': (0x54, [('frame_rate', 'rate'), ('hours', ('int', 0, 255)), ('minutes', ('int', 0, 59)),
                            ('seconds', ('int', 0, 59)), ('frames', ('int', 0, 255)), ('sub_frames', ('int', 0, 99))]),
    'time_signature': (0x58, [('numerator', ('int', 0, 255)), ('denominator', 'pow2'),
                              ('clocks_per_click', ('int', 0, 255)), ('notated_32nd_notes_per_beat', ('int', 0, 255))]),
    'key_signature': (0x59, [('key', 'key')]),
    'sequencer_specific': (0x7f, [('data', 'bytes')]),
}
META_NAMES = list(META)
TEXT_TYPES = [t for t, (_, a) in META.items() if a and a[0][1] == 'str']
KEYS = ('A A#m Ab Abm Am B Bb Bbm Bm C C# C#m Cb Cm D D#m Db Dm E Eb Ebm Em F F# F#m Fm G G#m Gb Gm').split()
RATES = (24, 25, 29.97, 30)
# SMF key signature: sharps(+)/flats(-), minor flag
KEY_SF = {'Cb': (-7, 0), 'Gb': (-6, 0), 'Db': (-5, 0), 'Ab': (-4, 0), 'Eb': (-3, 0), 'Bb': (-2, 0), 'F': (-1, 0),
          'C': (0, 0), 'G': (1, 0), 'D': (2, 0), 'A': (3, 0), 'E': (4, 0), 'B': (5, 0), 'F#': (6, 0), 'C#': (7, 0),
          'Abm': (-7, 1), 'Ebm': (-6, 1), 'Bbm': (-5, 1), 'Fm': (-4, 1), 'Cm': (-3, 1), 'Gm': (-2, 1), 'Dm': (-1, 1),
          'Am': (0, 1), 'Em': (1, 1), 'Bm': (2, 1), 'F#m': (3, 1), 'C#m': (4, 1), 'G#m': (5, 1), 'D#m': (6, 1),
          'A#m': (7, 1)}


def is_int(v):
    return isinstance(v, int)     # bool included: numbers.Integral


def in_domain(dom, v):
    """Is v a documented value of the domain?"""
    if dom == 'str':
        return isinstance(v, str)
    if dom == 'rate':
        try:
            return v in RATES and isinstance(v, (int, float))
        except TypeError:
            return False
    if dom == 'pow2':
        return is_int(v) and 1 <= v <= 2 ** 255 and v & (v - 1) == 0
    if dom == 'key':
        return isinstance(v, str) and v in KEYS
    if dom == 'bytes':
        try:
            return not isinstance(v, str) or v == '' if False else all(is_int(b) and 0 <= b <= 255 for b in v)
        except TypeError:
            return False
    _, lo, hi = dom
    return is_int(v) and lo <= v <= hi


def vlq(n):
    out = [n & 0x7f]
    n >>= 7
    while n:
        out.insert(0, (n & 0x7f) | 0x80)
        n >>= 7
    return out


def payload_ref(type_, d, charset='latin1'):
    """Reference payload from the SMF 1.0 specification."""
    if type_ == 'sequence_number':
        return list(divmod(d['number'], 256))
    if type_ in TEXT_TYPES:
        return list((d.get('text') if 'text' in d else d['name']).encode(charset))
    if type_ == 'channel_prefix':
        return [d['channel']]
    if type_ == 'midi_port':
        return [d['port']]
    if type_ == 'end_of_track':
        return []
    if type_ == 'set_tempo':
        t = d['tempo']
        return [t // 65536, t // 256 % 256, t % 256]
    if type_ == 'smpte_offset':
        code = {24: 0, 25: 1, 29.97: 2, 30: 3}[d['frame_rate']]
        return [code * 32 + d['hours'], d['minutes'], d['seconds'], d['frames'], d['sub_frames']]
    if type_ == 'time_signature':
        return [d['numerator'], d['denominator'].bit_length() - 1, d['clocks_per_click'], d['notated_32nd_notes_per_beat']]
    if type_ == 'key_signature':
        sf, mi = KEY_SF[d['key']]
        return [sf % 256, mi]
    if type_ == 'sequencer_specific':
        return [int(b) for b in d['data']]
    raise KeyError(type_)


# ---- protocol tokens -------------------------------------------------------

def item_tok(x):
    if isinstance(x, bool):
        return str(int(x))
    if isinstance(x, int):
        return str(x)
    if isinstance(x, float) and x == int(x):
        return 'f%d' % int(x)
    try:
        hash(x)
    except TypeError:
        return 'u'
    return 'h'


def val_tok(v):
    if isinstance(v, bool):
        return 'i%d' % int(v)
    if isinstance(v, int):
        return 'i%d' % v
    if isinstance(v, float):
        if v != v or v in (float('inf'), float('-inf')):
            return 'x' + repr(v)
        return 'f%d' % round(v * 100)
    if isinstance(v, str):
        return 's' + ','.join(str(ord(c)) for c in v)
    if v is None:
        return 'n'
    if isinstance(v, list):
        return 'l' + ','.join(item_tok(x) for x in v)
    if isinstance(v, tuple):
        return 't' + ','.join(item_tok(x) for x in v)
    if isinstance(v, (bytes, bytearray)):
        return 'b' + ','.join(str(x) for x in v)
    # any other kind of value (Fraction, complex, objects): an opaque token; the model has no such value, so a message
    # holding one can only show up as a disagreement, never crash the harness
    return 'x' + repr(v).replace(' ', '')


def canon_meta(m):
    """Canonical text of a MetaMessage / UnknownMetaMessage object (without time)."""
    if m.type == 'unknown_meta':
        return 'unknown %d' % m.type_byte + ''.join(' %d' % b for b in m.data)
    _, attrs = META[m.type]
    return 'known ' + ' '.join([m.type] + [val_tok(getattr(m, a)) for a, _ in attrs])
