"""Environment sensitivity probe: the same small battery of library calls in fresh interpreters under a plain and under
several hostile environments (every environment variable the library source mentions set to plausible values, debug logging
switched on, another hash seed, assertions stripped).  The results a property talks about must not differ."""
import glob
import json
import os
import re
import subprocess
import sys

from .common import REPO

BATTERY = r'''
import io, json, sys
PRE
import mido
out = {}
out['parse'] = [str(m) for m in mido.parse_all([0x90, 60, 64, 0xf8, 0xf0, 1, 0xf8, 2, 0xf7, 0xc5, 3, 0xfa, 0xfc, 0xf6])]
p = mido.Parser(); p.feed_byte(0x90); p.feed([60]); p.feed(b'\x40\xf8\xe0\x01')
out['parser'] = [str(m) for m in p] + [p.pending()]
out['codec'] = [mido.Message.from_bytes(mido.Message('pitchwheel', pitch=-1, channel=3).bytes()).pitch,
                mido.Message('songpos', pos=16383).hex(), len(mido.Message('quarter_frame', frame_type=7, frame_value=15))]
out['meta'] = [list(mido.MetaMessage('text', text='caf\xe9').bytes()), repr(mido.MetaMessage.from_bytes([0xff, 1, 2, 0xe9, 0x41])),
               list(mido.MetaMessage('key_signature', key='F#m').bytes())]
buf = io.BytesIO(); mf = mido.MidiFile(); tr = mf.add_track()
tr.append(mido.MetaMessage('track_name', name='\xfcber', time=0)); tr.append(mido.MetaMessage('set_tempo', tempo=250000, time=3))
tr.append(mido.Message('note_on', note=1, time=480)); mf.save(file=buf)
out['file'] = list(buf.getvalue())
back = mido.MidiFile(file=io.BytesIO(buf.getvalue()))
out['load'] = [repr(m) for m in back.tracks[0]]; out['length'] = back.length; out['iter'] = [m.time for m in back]
out['str'] = [str(mido.Message.from_str('note_on channel=2 note=5 time=0.5')), repr(mido.Message('sysex', data=[1, 2]))]
out['merge'] = [repr(m) for m in mido.merge_tracks([[mido.Message('note_on', time=2)], [mido.Message('note_off', time=1)]])]
from mido.frozen import freeze_message
out['frozen'] = [hash(freeze_message(mido.Message('clock'))) == hash(freeze_message(mido.Message('clock'))), repr(freeze_message(mido.Message('start')))]
print(json.dumps(out))
'''


def env_names():
    names = set()
    for f in glob.glob(os.path.join(REPO, 'mido', '**', '*.py'), recursive=True):
        try:
            src = open(f, encoding='utf-8', errors='replace').read()
        except OSError:
            continue
        for m in re.finditer(r"environ[^\n]{0,40}?['\"]([A-Z][A-Z0-9_]+)['\"]", src):
            names.add(m.group(1))
        for m in re.finditer(r"getenv\(\s*['\"]([A-Z][A-Z0-9_]+)['\"]", src):
            names.add(m.group(1))
    return sorted(names)


def variants():
    names = env_names()
    vs = [('plain', {}, '', [])]
    vs.append(('every environment variable the source mentions = utf-8; debug logging on', {n: 'utf-8' for n in names},
               'import logging; logging.basicConfig(level=logging.DEBUG, stream=sys.stderr)', []))
    vs.append(('every environment variable the source mentions = 1; another hash seed; python -O',
               dict({n: '1' for n in names}, PYTHONHASHSEED='4242'), '', ['-O']))
    vs.append(('debug logging on for every logger, warnings as errors off', {},
               'import logging; logging.basicConfig(level=1, stream=sys.stderr); logging.getLogger().setLevel(1)', []))
    return vs


def run_variant(v):
    name, env, pre, flags = v
    e = {k: val for k, val in os.environ.items() if not k.startswith('MIDO_')}
    e.update(env)
    e['PYTHONPATH'] = REPO
    e.setdefault('PYTHONHASHSEED', '0')
    p = subprocess.run([sys.executable] + flags + ['-c', BATTERY.replace('PRE', pre)], env=e, cwd='/', stdout=subprocess.PIPE,
                       stderr=subprocess.PIPE, text=True, timeout=120)
    if p.returncode != 0:
        return {'__error__': (p.stderr or '')[-400:]}
    return json.loads(p.stdout.strip().split('\n')[-1])


def compare(keys):
    """Returns a list of (variant name, failure text) for the given battery keys."""
    vs = variants()
    base = run_variant(vs[0])
    fails = []
    if '__error__' in base:
        return [('plain', 'the battery failed in a plain environment: ' + base['__error__'])]
    for v in vs[1:]:
        got = run_variant(v)
        if '__error__' in got:
            fails.append((v[0], f'under [{v[0]}] the library calls fail: {got["__error__"][-200:]}'))
            continue
        for k in keys:
            if got.get(k) != base.get(k):
                fails.append((v[0], f'under [{v[0]}] {k} = {str(got.get(k))[:160]} instead of {str(base.get(k))[:160]}'))
                break
    return fails


def check(ck, keys):
    ck.evaluations += len(variants())
    ck.count('environment_variants', len(variants()) - 1)
    for name, f in compare(keys):
        ck.oracle_fail({'environment': name, 'keys': list(keys)}, f)


def oracle(case):
    fs = [f for n, f in compare(case['keys']) if n == case['environment']]
    return fs[0] if fs else None
