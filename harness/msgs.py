"""Message vocabulary of the harness, written from the MIDI 1.0 tables and mido's
documentation (docs/message_types.rst), NOT imported from mido: it is the independent
side of oracles and the naming convention of the driver protocol."""

# type -> (status base, value names in documented order)
TYPES = {
    'note_off': (0x80, ('channel', 'note', 'velocity')),
    'note_on': (0x90, ('channel', 'note', 'velocity')),
    'polytouch': (0xa0, ('channel', 'note', 'value')),
    'control_change': (0xb0, ('channel', 'control', 'value')),
    'program_change': (0xc0, ('channel', 'program')),
    'aftertouch': (0xd0, ('channel', 'value')),
    'pitchwheel': (0xe0, ('channel', 'pitch')),
    'sysex': (0xf0, ('data',)),
    'quarter_frame': (0xf1, ('frame_type', 'frame_value')),
    'songpos': (0xf2, ('pos',)),
    'song_select': (0xf3, ('song',)),
    'tune_request': (0xf6, ()),
    'clock': (0xf8, ()),
    'start': (0xfa, ()),
    'continue': (0xfb, ()),
    'stop': (0xfc, ()),
    'active_sensing': (0xfe, ()),
    'reset': (0xff, ()),
}
TYPE_NAMES = list(TYPES)
REALTIME = ('clock', 'start', 'continue', 'stop', 'active_sensing', 'reset')
CHANNEL_TYPES = [t for t, (s, _) in TYPES.items() if s < 0xf0]

RANGES = {
    'channel': (0, 15), 'note': (0, 127), 'velocity': (0, 127), 'value': (0, 127),
    'control': (0, 127), 'program': (0, 127), 'pitch': (-8192, 8191),
    'frame_type': (0, 7), 'frame_value': (0, 15), 'pos': (0, 16383), 'song': (0, 127),
}
DEFAULTS = {n: 0 for n in RANGES}
DEFAULTS['velocity'] = 64

# length in bytes of the encoding (MIDI 1.0 specification), None for sysex
LENGTH = {
    'note_off': 3, 'note_on': 3, 'polytouch': 3, 'control_change': 3, 'program_change': 2,
    'aftertouch': 2, 'pitchwheel': 3, 'sysex': None, 'quarter_frame': 2, 'songpos': 3,
    'song_select': 2, 'tune_request': 1, 'clock': 1, 'start': 1, 'continue': 1, 'stop': 1,
    'active_sensing': 1, 'reset': 1,
}


def canon_vals(type_, d):
    """Canonical protocol text of a message given as type + attribute dict."""
    _, names = TYPES[type_]
    if type_ == 'sysex':
        data = list(d['data'])
        return 'sysex' + ''.join(' %d' % int(b) for b in data)
    return type_ + ''.join(' %d' % int(d[n]) for n in names)


def canon_msg(msg):
    """Canonical protocol text of a mido Message object (bools become ints)."""
    return canon_vals(msg.type, vars(msg))


def all_messages(type_, grid=None):
    """Yield attribute dicts: the full range of every attribute, or the values in `grid`
    (a function name -> iterable) where given."""
    _, names = TYPES[type_]
    if type_ == 'sysex':
        return

    def rng(n):
        if grid is not None:
            g = grid(n)
            if g is not None:
                return g
        lo, hi = RANGES[n]
        return range(lo, hi + 1)

    def rec(i, acc):
        if i == len(names):
            yield dict(acc)
            return
        for v in rng(names[i]):
            acc[names[i]] = v
            yield from rec(i + 1, acc)
    yield from rec(0, {})


def random_message(rng, types=None, max_sysex=12, boundary_bias=0.4):
    t = rng.choice(types or TYPE_NAMES)
    _, names = TYPES[t]
    d = {}
    for n in names:
        if n == 'data':
            ln = rng.choice([0, 1, 2, 3, rng.randint(0, max_sysex)])
            d[n] = tuple(rng.choice([0, 1, 0x40, 0x7e, 0x7f, rng.randint(0, 127)]) for _ in range(ln))
        else:
            lo, hi = RANGES[n]
            if rng.random() < boundary_bias:
                d[n] = rng.choice([lo, hi, lo + 1, hi - 1, (lo + hi) // 2])
            else:
                d[n] = rng.randint(lo, hi)
    return t, d


def encode_ref(type_, d):
    """Reference encoder written from the MIDI 1.0 specification with divmod arithmetic."""
    base, names = TYPES[type_]
    if type_ == 'sysex':
        return [0xf0] + list(d['data']) + [0xf7]
    st = base + d['channel'] if base < 0xf0 else base
    if type_ == 'pitchwheel':
        msb, lsb = divmod(d['pitch'] + 8192, 128)
        return [st, lsb, msb]
    if type_ == 'songpos':
        msb, lsb = divmod(d['pos'], 128)
        return [st, lsb, msb]
    if type_ == 'quarter_frame':
        return [st, 16 * d['frame_type'] + d['frame_value']]
    return [st] + [d[n] for n in names if n != 'channel']


def decode_ref(bs):
    """Reference decoder for ONE complete message given as list of ints; returns
    (type, dict) or None if bs is not exactly one well-formed message."""
    if not bs:
        return None
    st = bs[0]
    if not isinstance(st, int) or not 0x80 <= st <= 0xff:
        return None
    data = bs[1:]
    if st == 0xf0:
        if not data or data[-1] != 0xf7:
            return None
        body = data[:-1]
        if any((not isinstance(b, int)) or not 0 <= b <= 127 for b in body):
            return None
        return 'sysex', {'data': tuple(body)}
    if any((not isinstance(b, int)) or not 0 <= b <= 127 for b in data):
        return None
    for t, (base, names) in TYPES.items():
        if t == 'sysex':
            continue
        if base < 0xf0:
            if st & 0xf0 != base:
                continue
        elif st != base:
            continue
        if len(bs) != LENGTH[t]:
            return None
        d = {}
        if base < 0xf0:
            d['channel'] = st & 0x0f
        if t == 'pitchwheel':
            d['pitch'] = data[0] + 128 * data[1] - 8192
        elif t == 'songpos':
            d['pos'] = data[0] + 128 * data[1]
        elif t == 'quarter_frame':
            d['frame_type'], d['frame_value'] = divmod(data[0], 16)
        else:
            for n, v in zip([n for n in names if n != 'channel'], data):
                d[n] = v
        return t, d
    return None
