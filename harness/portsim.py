"""Device doubles and helpers for the port properties (C10, C11, C18)."""


class Hang(Exception):
    pass


def msg_of(k):
    import mido
    return mido.Message('note_on', note=k % 128, velocity=(k // 128) % 128, channel=(k // 16384) % 16)


def rt_msg_of(k):
    """a real-time message carrying identity k in its only attribute, `time`"""
    import mido
    return mido.Message(['clock', 'start', 'continue', 'stop', 'active_sensing', 'reset'][k % 6], time=k)


def sx_msg_of(k):
    """a sysex message carrying identity k"""
    import mido
    return mido.Message('sysex', data=(k % 128, (k // 128) % 128, 1, 2, 3))


def ident(m):
    if m.type == 'sysex' and len(m.data) == 5 and tuple(m.data[2:]) == (1, 2, 3):
        return m.data[0] + 128 * m.data[1]
    if m.type in ('clock', 'start', 'continue', 'stop', 'active_sensing', 'reset'):
        return int(m.time) if isinstance(m.time, int) and m.time >= 0 else -1
    if m.type == 'note_on':
        return m.note + 128 * m.velocity + 16384 * m.channel
    if m.type == 'control_change' and m.control in (123, 121) and m.value == 0:
        return 1000 + 2 * m.channel + (0 if m.control == 123 else 1)
    return -1


def make_dev_class():
    from mido.ports import BaseIOPort

    class Dev(BaseIOPort):
        """Device double: `_receive` consumes one step of a script (arrivals, closes itself)."""

        def _open(self, script=None, budget=None, **kwargs):
            self.script = [(list(a), c) for a, c in (script or [])]
            self.log = []
            self.budget = budget        # device fault: number of _send calls that still succeed (None: healthy)

        def _send(self, msg):
            if self.budget is not None:
                if self.budget <= 0:
                    raise OSError('device unplugged')
                self.budget -= 1
            self.log.append('s%d' % ident(msg))

        def close(self):
            # transparent marker: where an effective close() begins (the harness strips it before comparing logs)
            if not self.closed:
                self.log.append('<')
            return BaseIOPort.close(self)

        def _close(self):
            self.log.append('C')

        def _receive(self, block=True):
            if self.script:
                arr, closes = self.script.pop(0)
                self._messages.extend(msg_of(k) for k in arr)
                if closes:
                    self.close()
    return Dev


class SleepCounter:
    """Replacement for mido.ports.sleep: counts, and reports a hang instead of waiting for ever."""

    def __init__(self, limit=60):
        self.n = 0
        self.limit = limit

    def __call__(self):
        self.n += 1
        if self.n > self.limit:
            raise Hang()


class patched_sleep:
    def __init__(self, limit=60):
        self.counter = SleepCounter(limit)

    def __enter__(self):
        import mido.ports as P
        self.P = P
        self.old = P.sleep
        P.sleep = self.counter
        return self.counter

    def __exit__(self, *a):
        self.P.sleep = self.old
        return False
