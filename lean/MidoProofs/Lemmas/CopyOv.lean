import MidoProofs.Props.C14
/-! `msg.copy(**overrides)` equals a fresh construction with the merged values (C15). -/
namespace Mido
open List

theorem applyKw_append (t : MType) (a b : List (String × PyVal)) : ∀ (v : List PyVal) (tm : PyVal) (u : List String),
    applyKw t (a ++ b) v tm u =
      applyKw t b (applyKw t a v tm u).1 (applyKw t a v tm u).2.1 (applyKw t a v tm u).2.2 := by
  induction a with
  | nil => intro v tm u; rfl
  | cons x r ih =>
    intro v tm u
    obtain ⟨n, val⟩ := x
    simp only [cons_append, applyKw]
    split
    · exact ih _ _ _
    · split <;> exact ih _ _ _

/-- `tuple(value)` where it is defined -/
def toTuple (v : PyVal) : PyVal := match iterItems v with | .ok xs => .tuple xs | .error _ => v

def toT (nv : String × PyVal) : String × PyVal := if nv.1 == "data" then (nv.1, toTuple nv.2) else nv

/-- the first step of `copy`: `overrides['data'] = tuple(overrides['data'])` -/
def tupleData (nv : String × PyVal) : Except Err (String × PyVal) :=
  if nv.1 == "data" then (iterItems nv.2).map (fun xs => (nv.1, PyVal.tuple xs)) else pure nv

theorem mapM_tupleData_ok (kw : List (String × PyVal))
    (h : ∀ nv ∈ kw, nv.1 = "data" → ∃ xs, iterItems nv.2 = .ok xs) : kw.mapM tupleData = .ok (kw.map toT) := by
  induction kw with
  | nil => rfl
  | cons x r ih =>
    have hr := ih (fun nv hnv => h nv (by simp [hnv]))
    simp only [mapM_cons, hr, map_cons, bind, Except.bind, pure, Except.pure]
    by_cases hd : (x.1 == "data") = true
    · obtain ⟨xs, hxs⟩ := h x (by simp) (beq_iff_eq.mp hd)
      simp [tupleData, toT, hd, hxs, toTuple, Except.map]
    · simp [tupleData, toT, hd, pure, Except.pure]

theorem mapM_tupleData_err (kw : List (String × PyVal))
    (h : ∃ nv ∈ kw, nv.1 = "data" ∧ ∃ e, iterItems nv.2 = .error e) : ∃ e, kw.mapM tupleData = .error e := by
  induction kw with
  | nil => obtain ⟨nv, hm, _⟩ := h; cases hm
  | cons x r ih =>
    simp only [mapM_cons, bind, Except.bind]
    cases hx : tupleData x with
    | error e => exact ⟨e, rfl⟩
    | ok y =>
      simp only []
      obtain ⟨nv, hm, hd, e, he⟩ := h
      rcases mem_cons.mp hm with rfl | hm'
      · simp [tupleData, hd, he, Except.map] at hx
      · obtain ⟨e', he'⟩ := ih ⟨nv, hm', hd, e, he⟩
        rw [he']; exact ⟨e', rfl⟩

/-- overriding with a value that only differs on names the type does not have changes nothing
    but the (identical) list of unknown names -/
theorem applyKw_toT_nodata (t : MType) (hnd : indexOfName t.valueNames "data" = none) (kw : List (String × PyVal)) :
    ∀ (v : List PyVal) (tm : PyVal) (u : List String), applyKw t (kw.map toT) v tm u = applyKw t kw v tm u := by
  induction kw with
  | nil => intro v tm u; rfl
  | cons x r ih =>
    intro v tm u
    obtain ⟨n, val⟩ := x
    by_cases hd : (n == "data") = true
    · have hn : n = "data" := beq_iff_eq.mp hd
      subst hn
      simp only [map_cons, toT, beq_self_eq_true, if_true, applyKw, hnd]
      have : ("data" == "time") = false := by decide
      simp only [this, Bool.false_eq_true, if_false]
      exact ih _ _ _
    · simp only [map_cons, toT, hd, Bool.false_eq_true, if_false, applyKw]
      split
      · exact ih _ _ _
      · split <;> exact ih _ _ _

/-- for sysex (one slot, `data`) the pre-normalised overrides give the same result with the slot
    tuple-ised -/
theorem applyKw_toT_sysex (kw : List (String × PyVal)) : ∀ (v : List PyVal) (tm : PyVal) (u : List String),
    applyKw .sysex (kw.map toT) (v.map toTuple) tm u =
      (((applyKw .sysex kw v tm u).1).map toTuple, (applyKw .sysex kw v tm u).2.1, (applyKw .sysex kw v tm u).2.2) := by
  induction kw with
  | nil => intro v tm u; rfl
  | cons x r ih =>
    intro v tm u
    obtain ⟨n, val⟩ := x
    by_cases hd : (n == "data") = true
    · have hn : n = "data" := beq_iff_eq.mp hd
      subst hn
      have h1 : ("data" == "time") = false := by decide
      have h2 : indexOfName MType.sysex.valueNames "data" = some 0 := by decide
      simp only [map_cons, toT, beq_self_eq_true, if_true, applyKw, h1, Bool.false_eq_true, if_false, h2]
      have : (v.map toTuple).set 0 (toTuple val) = (v.set 0 val).map toTuple := by
        cases v <;> simp
      rw [this]; exact ih _ _ _
    · simp only [map_cons, toT, hd, Bool.false_eq_true, if_false, applyKw]
      split
      · exact ih _ _ _
      · have hidx : indexOfName MType.sysex.valueNames n = none := by
          simp only [MType.valueNames, indexOfName, indexOfName.go]
          have : ("data" == n) = false := by
            cases h : ("data" == n) with
            | false => rfl
            | true => exact absurd (by rw [← beq_iff_eq.mp h]; rfl) hd
          simp [this]
        simp only [hidx]; exact ih _ _ _

theorem unk_nonempty (t : MType) (hnd : indexOfName t.valueNames "data" = none) (kw : List (String × PyVal)) :
    ∀ (v : List PyVal) (tm : PyVal) (u : List String), (u ≠ [] ∨ ∃ nv ∈ kw, nv.1 = "data") →
    (applyKw t kw v tm u).2.2 ≠ [] := by
  induction kw with
  | nil =>
    intro v tm u h
    rcases h with h | ⟨nv, hm, _⟩
    · exact h
    · cases hm
  | cons x r ih =>
    intro v tm u h
    obtain ⟨n, val⟩ := x
    simp only [applyKw]
    have hrest : ∀ (u' : List String), (u' ≠ [] ∨ ∃ nv ∈ r, nv.1 = "data") ∨ n = "data" →
        (u ≠ [] → u' ≠ []) → True := fun _ _ _ => trivial
    by_cases hd : n = "data"
    · subst hd
      have h1 : ("data" == "time") = false := by decide
      simp only [h1, Bool.false_eq_true, if_false, hnd]
      exact ih _ _ _ (Or.inl (by simp))
    · have hr : u ≠ [] ∨ ∃ nv ∈ r, nv.1 = "data" := by
        rcases h with h | ⟨nv, hm, hnv⟩
        · exact Or.inl h
        · rcases mem_cons.mp hm with rfl | hm'
          · exact absurd hnv hd
          · exact Or.inr ⟨nv, hm', hnv⟩
      split
      · exact ih _ _ _ hr
      · split
        · exact ih _ _ _ hr
        · apply ih
          rcases hr with hr | hr
          · exact Or.inl (by simp [hr])
          · exact Or.inr hr

theorem sysex_slot (kw : List (String × PyVal)) : ∀ (d tm : PyVal) (u : List String),
    ∃ w, (applyKw .sysex kw [d] tm u).1 = [w] ∧ (w = d ∨ ∃ nv ∈ kw, nv.1 = "data" ∧ nv.2 = w) := by
  induction kw with
  | nil => intro d tm u; exact ⟨d, rfl, Or.inl rfl⟩
  | cons x r ih =>
    intro d tm u
    obtain ⟨n, val⟩ := x
    simp only [applyKw]
    split
    · obtain ⟨w, h1, h2⟩ := ih d val u
      refine ⟨w, h1, ?_⟩
      rcases h2 with h2 | ⟨nv, hm, hh⟩
      · exact Or.inl h2
      · exact Or.inr ⟨nv, by simp [hm], hh⟩
    · by_cases hd : n = "data"
      · subst hd
        have h2 : indexOfName MType.sysex.valueNames "data" = some 0 := by decide
        simp only [h2, set_cons_zero]
        obtain ⟨w, h1, h3⟩ := ih val tm u
        refine ⟨w, h1, ?_⟩
        rcases h3 with h3 | ⟨nv, hm, hh⟩
        · exact Or.inr ⟨("data", val), by simp, rfl, h3.symm⟩
        · exact Or.inr ⟨nv, by simp [hm], hh⟩
      · have hidx : indexOfName MType.sysex.valueNames n = none := by
          simp only [MType.valueNames, indexOfName, indexOfName.go]
          have : ("data" == n) = false := by
            cases h : ("data" == n) with
            | false => rfl
            | true => exact absurd (beq_iff_eq.mp h).symm hd
          simp [this]
        simp only [hidx]
        obtain ⟨w, h1, h3⟩ := ih d tm (u ++ [n])
        refine ⟨w, h1, ?_⟩
        rcases h3 with h3 | ⟨nv, hm, hh⟩
        · exact Or.inl h3
        · exact Or.inr ⟨nv, by simp [hm], hh⟩

theorem sysex_slot_nodup (kw : List (String × PyVal)) (hnd : (kw.map (·.1)).Nodup) (val : PyVal)
    (hm : ("data", val) ∈ kw) : ∀ (d tm : PyVal) (u : List String), (applyKw .sysex kw [d] tm u).1 = [val] := by
  induction kw with
  | nil => cases hm
  | cons x r ih =>
    intro d tm u
    obtain ⟨n, v0⟩ := x
    simp only [map_cons, nodup_cons] at hnd
    rcases mem_cons.mp hm with he | hm'
    · cases he
      have h1 : ("data" == "time") = false := by decide
      have h2 : indexOfName MType.sysex.valueNames "data" = some 0 := by decide
      simp only [applyKw, h1, Bool.false_eq_true, if_false, h2, set_cons_zero]
      obtain ⟨w, hw, hor⟩ := sysex_slot r val tm u
      rw [hw]
      rcases hor with rfl | ⟨nv, hnv, hname, _⟩
      · rfl
      · exact absurd (by rw [← hname]; exact mem_map_of_mem (f := (·.1)) hnv) hnd.1
    · have hn : n ≠ "data" := by
        intro e; subst e
        exact hnd.1 (mem_map_of_mem (f := (·.1)) hm')
      simp only [applyKw]
      split
      · exact ih hnd.2 hm' _ _ _
      · have hidx : indexOfName MType.sysex.valueNames n = none := by
          simp only [MType.valueNames, indexOfName, indexOfName.go]
          have : ("data" == n) = false := by
            cases h : ("data" == n) with
            | false => rfl
            | true => exact absurd (beq_iff_eq.mp h).symm hn
          simp [this]
        simp only [hidx]
        exact ih hnd.2 hm' _ _ _

end Mido
