import MidoProofs.Lemmas.StrRt
import MidoProofs.Props.C14
/-! `from_str (str m) = m` (C14): the keyword parser on what `msg2str` printed. -/
namespace Mido
open List

def allNames : List String :=
  ["channel", "note", "velocity", "value", "control", "program", "pitch", "data", "frame_type", "frame_value", "pos", "song"]

theorem valueNames_sub (t : MType) : ∀ n ∈ t.valueNames, n ∈ allNames := by cases t <;> decide

theorem name_facts : ∀ n ∈ allNames,
    (∀ c ∈ strOf n, c ≠ '=' ∧ isSpaceChar c = false) ∧ n ≠ "time" ∧ n ≠ "type" ∧ strOf n ≠ [] := by decide +kernel

theorem typeName_facts (t : MType) : (∀ c ∈ strOf t.name, isSpaceChar c = false) ∧ strOf t.name ≠ [] := by
  cases t <;> decide +kernel

theorem time_facts : (∀ c ∈ strOf "time", c ≠ '=' ∧ isSpaceChar c = false) ∧ strOf "time" ≠ [] := by decide +kernel

/-- printable attribute value: an int, or for `data` a tuple of ints -/
def PV (n : String) (v : PyVal) : Prop :=
  (n ≠ "data" ∧ ∃ k, v = .int k) ∨ (n = "data" ∧ ∃ ns : List Int, v = .tuple (ns.map Item.int))

/-- what the text parser hands to the constructor for a printed value -/
def parsedVal (n : String) (v : PyVal) : PyVal :=
  if n == "data" then (match v with | .tuple xs => .list xs | x => x) else v

def tokOf (nv : String × PyVal) : List Char := strOf nv.1 ++ '=' :: showValText nv.1 nv.2

theorem showItemInt_map (ns : List Int) : (ns.map Item.int).map showItemInt = ns.map showInt := by
  induction ns with
  | nil => rfl
  | cons a r ih => simp [showItemInt, ih]

theorem intercalate_ne_nil (sep : Char) (toks : List (List Char)) (hne : toks ≠ []) (h : ∀ t ∈ toks, t ≠ []) :
    intercalateC sep toks ≠ [] := by
  cases toks with
  | nil => exact absurd rfl hne
  | cons x r =>
    have hx := h x (by simp)
    cases r with
    | nil => simpa [intercalateC] using hx
    | cons y r' => simp [intercalateC, hx]

theorem mapM_parsePyInt (ns : List Int) : (ns.map showInt).mapM parsePyInt = some ns := by
  induction ns with
  | nil => rfl
  | cons a r ih => simp [parsePyInt_showInt, ih]

theorem parseData_show (ns : List Int) :
    parseData ('(' :: intercalateC ',' (ns.map showInt) ++ [')']) = some (ns.map Item.int) := by
  unfold parseData
  simp only [cons_append, getLast?_append, getLast?_singleton, Option.some_or, ne_eq, not_true_eq_false, if_false, dropLast_concat]
  cases ns with
  | nil => simp [intercalateC]
  | cons a r =>
    have hne : intercalateC ',' ((a :: r).map showInt) ≠ [] :=
      intercalate_ne_nil ',' _ (by simp) (by intro t ht; obtain ⟨i, _, rfl⟩ := mem_map.mp ht; exact showInt_ne_nil i)
    have hemp : (intercalateC ',' ((a :: r).map showInt)).isEmpty = false := by
      cases h : intercalateC ',' ((a :: r).map showInt) with
      | nil => exact absurd h hne
      | cons _ _ => rfl
    rw [hemp]
    simp only [Bool.false_eq_true, if_false]
    rw [splitChar_intercalate ',' _ (by simp) (by
      intro t ht; obtain ⟨i, _, rfl⟩ := mem_map.mp ht
      exact numCh_noCh _ (showInt_chars i) ',' (by decide) (by decide))]
    rw [mapM_parsePyInt]; rfl

theorem filter_ne_id (acc : List (String × PyVal)) (n : String) (h : n ∉ acc.map (·.1)) :
    acc.filter (fun x => x.1 != n) = acc := by
  apply filter_eq_self.mpr
  intro x hx
  simp only [bne_iff_ne, ne_eq]
  intro e
  exact h (by rw [← e]; exact mem_map_of_mem hx)

/-- one printed attribute through the keyword loop -/
theorem go_attr_step (t : MType) (n : String) (v : PyVal) (r : List (List Char)) (acc : List (String × PyVal))
    (hn : n ∈ t.valueNames) (hv : PV n v) (hacc : n ∉ acc.map (·.1)) :
    str2kw.go t (tokOf (n, v) :: r) acc = str2kw.go t r (acc ++ [(n, parsedVal n v)]) := by
  obtain ⟨hch, hnt, hnty, _⟩ := name_facts n (valueNames_sub t n hn)
  rw [str2kw.go]
  simp only [tokOf]
  rw [splitFirstEq_append _ _ (fun c hc => (hch c hc).1)]
  simp only [strOf, String.ofList_toList]
  have h1 : (n == "type") = false := by simpa using hnty
  have h2 : (n == "time") = false := by simpa using hnt
  have h3 : t.valueNames.contains n = true := by simpa using hn
  simp only [h1, h2, h3, Bool.or_true, Bool.not_true, Bool.or_self, Bool.false_eq_true, if_false, Bool.false_or]
  rw [filter_ne_id acc n hacc]
  rcases hv with ⟨hnd, k, rfl⟩ | ⟨rfl, ns, rfl⟩
  · have h4 : (n == "data") = false := by simpa using hnd
    simp only [h4, Bool.false_eq_true, if_false, showValText, parsePyInt_showInt, parsedVal]
  · simp only [beq_self_eq_true, if_true, showValText, showItemInt_map, parsedVal]
    have := parseData_show ns
    simp only [cons_append] at this ⊢
    rw [this]

/-- all printed attributes through the keyword loop -/
theorem go_attrs (t : MType) : ∀ (nvs : List (String × PyVal)) (r : List (List Char)) (acc : List (String × PyVal)),
    (∀ nv ∈ nvs, nv.1 ∈ t.valueNames ∧ PV nv.1 nv.2) → (nvs.map (·.1)).Nodup →
    (∀ nv ∈ nvs, nv.1 ∉ acc.map (·.1)) →
    str2kw.go t (nvs.map tokOf ++ r) acc = str2kw.go t r (acc ++ nvs.map (fun nv => (nv.1, parsedVal nv.1 nv.2))) := by
  intro nvs
  induction nvs with
  | nil => intro r acc _ _ _; simp
  | cons nv rest ih =>
    intro r acc hall hnd hacc
    obtain ⟨n, v⟩ := nv
    simp only [map_cons, cons_append]
    rw [go_attr_step t n v _ acc (hall (n, v) (by simp)).1 (hall (n, v) (by simp)).2 (hacc (n, v) (by simp))]
    simp only [map_cons, nodup_cons] at hnd
    rw [ih r _ (fun x hx => hall x (by simp [hx])) hnd.2 (by
      intro x hx
      simp only [map_append, map_cons, map_nil, mem_append, mem_singleton, not_or]
      refine ⟨hacc x (by simp [hx]), ?_⟩
      intro e
      exact hnd.1 (by rw [← e]; exact mem_map_of_mem hx))]
    simp

/-- the time token -/
theorem go_time (t : MType) (tv : PyVal) (acc : List (String × PyVal)) (ht : (∃ n, tv = .int n) ∨ (∃ h, tv = .flt h))
    (hacc : "time" ∉ acc.map (·.1)) :
    str2kw.go t [strOf "time" ++ '=' :: showTimeVal tv] acc = .ok (acc ++ [("time", tv)]) := by
  rw [str2kw.go]
  rw [splitFirstEq_append _ _ (fun c hc => (time_facts.1 c hc).1)]
  simp only [strOf, String.ofList_toList]
  have h1 : ("time" == "type") = false := by decide
  simp only [h1, beq_self_eq_true, Bool.true_or, Bool.not_true, Bool.or_self, Bool.false_eq_true, if_false, if_true,
    parseTime_showTimeVal tv ht, filter_ne_id acc "time" hacc, str2kw.go]

end Mido
