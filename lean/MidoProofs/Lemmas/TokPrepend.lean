import MidoModel.Tokenizer
/-! The emitted-token list is append-only and never read: feeding commutes with prepending
    tokens to `out`.  (C05/C06) -/
namespace Mido

def Tok.prepend (o : List (List Nat)) (st : Tok) : Tok := { st with out := o ++ st.out }

@[simp] theorem Tok.prepend_status (o) (st : Tok) : (st.prepend o).status = st.status := rfl
@[simp] theorem Tok.prepend_bytes (o) (st : Tok) : (st.prepend o).bytes = st.bytes := rfl
@[simp] theorem Tok.prepend_len (o) (st : Tok) : (st.prepend o).len = st.len := rfl
@[simp] theorem Tok.prepend_out (o) (st : Tok) : (st.prepend o).out = o ++ st.out := rfl

theorem Tok.ext' {a b : Tok} (h1 : a.status = b.status) (h2 : a.bytes = b.bytes) (h3 : a.len = b.len)
    (h4 : a.out = b.out) : a = b := by
  cases a; cases b; simp_all

theorem Tok.feedData_prepend (o) (st : Tok) (b : Nat) :
    (st.prepend o).feedData b = (st.feedData b).prepend o := by
  cases st with
  | mk status bytes len out =>
    by_cases h : status = 0 <;> by_cases h2 : bytes.length + 1 = len <;>
      simp [Tok.prepend, Tok.feedData, h, h2]

theorem Tok.feedStatus_prepend (o) (st : Tok) (s : Nat) :
    (st.prepend o).feedStatus s = (st.feedStatus s).prepend o := by
  cases st with
  | mk status bytes len out =>
    by_cases c1 : s = 0xF7
    · by_cases c2 : status = 0xF0 <;> simp [Tok.prepend, Tok.feedStatus, c1, c2]
    by_cases c3 : 0xF8 ≤ s
    · by_cases c : status = 0xF0 <;> by_cases c4 : definedStatus s = true <;>
        simp [Tok.prepend, Tok.feedStatus, c1, c3, c, c4]
    by_cases c5 : s = 0xF0
    · simp [Tok.prepend, Tok.feedStatus, c5]
    cases hsl : specLen s with
    | none => simp [Tok.prepend, Tok.feedStatus, c1, c3, c5, hsl]
    | some n =>
      match n with
      | 1 => simp [Tok.prepend, Tok.feedStatus, c1, c3, c5, hsl]
      | 0 => simp [Tok.prepend, Tok.feedStatus, c1, c3, c5, hsl]
      | (k+2) => simp [Tok.prepend, Tok.feedStatus, c1, c3, c5, hsl]

theorem Tok.feedByte_prepend (o) (st : Tok) (b : Nat) :
    (st.prepend o).feedByte b = (st.feedByte b).prepend o := by
  unfold Tok.feedByte
  by_cases h : b < 128
  · rw [if_pos h, if_pos h]; exact Tok.feedData_prepend o st b
  · rw [if_neg h, if_neg h]; exact Tok.feedStatus_prepend o st b

theorem Tok.feed_prepend (o) (st : Tok) (bs : List Nat) :
    (st.prepend o).feed bs = (st.feed bs).prepend o := by
  induction bs generalizing st with
  | nil => rfl
  | cons b r ih =>
    simp only [Tok.feed, List.foldl_cons] at ih ⊢
    rw [Tok.feedByte_prepend]; exact ih _

/-- state with the emitted tokens taken away (what `Parser._decode` leaves behind) -/
def Tok.clear (st : Tok) : Tok := { st with out := [] }

theorem Tok.prepend_clear (st : Tok) : st.clear.prepend st.out = st := by
  apply Tok.ext' <;> simp [Tok.clear, Tok.prepend]

/-- feeding after the queue was drained yields exactly the new tokens -/
theorem Tok.feed_clear (st : Tok) (bs : List Nat) :
    (st.feed bs).out = st.out ++ (st.clear.feed bs).out ∧ (st.feed bs).clear = (st.clear.feed bs).clear := by
  have := Tok.feed_prepend st.out st.clear bs
  rw [Tok.prepend_clear] at this
  rw [this]
  exact ⟨rfl, rfl⟩

theorem Tok.feed_append (st : Tok) (a b : List Nat) : (st.feed a).feed b = st.feed (a ++ b) := by
  simp [Tok.feed, List.foldl_append]

end Mido
