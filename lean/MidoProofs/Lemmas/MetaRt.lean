import MidoModel.Meta
import MidoProofs.Lemmas.Bits
import MidoProofs.Lemmas.Vlq
/-! Per-type payload round trips of the meta codec (C09). -/
namespace Mido

theorem checkInt_ok {v : PyVal} {lo hi : Int} (h : checkInt v lo hi = .ok ()) :
    ∃ n, v = .int n ∧ lo ≤ n ∧ n ≤ hi := by
  cases v <;> simp [checkInt] at h
  rename_i n
  exact ⟨n, rfl, h⟩

theorem log2Nat_pow (k : Nat) : log2Nat (2 ^ k) = k := by
  induction k with
  | zero => simp [log2Nat]
  | succ k ih =>
    have h2 : 2 ^ (k + 1) = (2 ^ (k+1) - 2) + 2 := by
      have : 2 ≤ 2 ^ (k+1) := by
        have := Nat.one_le_two_pow (n := k); rw [Nat.pow_succ]; omega
      omega
    rw [h2, log2Nat, ← h2]
    have : 2 ^ (k + 1) / 2 = 2 ^ k := by rw [Nat.pow_succ]; omega
    rw [this, ih]; omega

theorem isPow2_pow (k : Nat) : isPow2 (2 ^ k) = true := by
  have : 2 ^ k ≠ 0 := by have := Nat.one_le_two_pow (n := k); omega
  simp [isPow2, log2Nat_pow, this]

theorem isPow2_spec {n : Nat} (h : isPow2 n = true) : 2 ^ log2Nat n = n := by
  simp [isPow2] at h; exact h.2

theorem or_bytes2 (a b : Nat) (hb : b < 256) : (a <<< 8) ||| b = a * 256 + b := by
  rw [shl8]; exact or_disjoint a b 8 hb

theorem rt_seq (n : Nat) (h : n ≤ 65535) :
    ((n >>> 8) <<< 8) ||| (n &&& 0xff) = n := by
  rw [and255, shr8, or_bytes2 _ _ (Nat.mod_lt _ (by decide))]; omega

theorem or256 (a b : Nat) (h : b < 256) : (a * 256) ||| b = a * 256 + b := by
  have := or_disjoint a b 8 (by simpa using h); simpa using this
theorem or65536 (a b : Nat) (h : b < 65536) : (a * 65536) ||| b = a * 65536 + b := by
  have := or_disjoint a b 16 (by simpa using h); simpa using this

set_option maxRecDepth 8192 in
theorem rt_tempo (n : Nat) (h : n ≤ 0xffffff) :
    ((n >>> 16) <<< 16) ||| ((n >>> 8 &&& 0xff) <<< 8) ||| (n &&& 0xff) = n := by
  rw [and255, and255, shr8, shr16, shl16, shl8]
  have h1 : n / 256 % 256 * 256 < 65536 := by
    have := Nat.mod_lt (n / 256) (show 0 < 256 by decide); omega
  rw [or65536 (n / 65536) _ h1]
  have e : n / 65536 * 65536 + n / 256 % 256 * 256 = (n / 65536 * 256 + n / 256 % 256) * 256 := by omega
  rw [e, or256 _ (n % 256) (Nat.mod_lt _ (by decide))]
  omega

theorem rt_smpte (c h : Nat) (hc : c < 4) (hh : h < 32) :
    ((c <<< 5) ||| h) >>> 5 = c ∧ ((c <<< 5) ||| h) &&& 0x1f = h := by
  have e1 : c <<< 5 = c * 2 ^ 5 := by simp [Nat.shiftLeft_eq]
  rw [e1, or_disjoint c h 5 (by omega)]
  constructor
  · simp [Nat.shiftRight_eq_div_pow]; omega
  · rw [show (0x1f : Nat) = 2 ^ 5 - 1 by rfl, Nat.and_two_pow_sub_one_eq_mod]; omega

theorem key_table_rt : ∀ e ∈ keyTable,
    keyEncode (strCodes e.2) = some e.1 ∧
    keyDecode (signedByte (unsignedByte e.1.1)) e.1.2 = some (strCodes e.2) ∧
    unsignedByte e.1.1 < 256 ∧ e.1.2 < 256 := by decide +kernel

theorem keyEncode_sound {s : List Nat} {k : Int} {mode : Nat} (h : keyEncode s = some (k, mode)) :
    keyDecode (signedByte (unsignedByte k)) mode = some s ∧ unsignedByte k < 256 ∧ mode < 256 := by
  unfold keyEncode at h
  cases hf : keyTable.find? (fun e => strCodes e.2 == s) with
  | none => rw [hf] at h; cases h
  | some e =>
    rw [hf] at h
    simp only [Option.map_some, Option.some.injEq] at h
    have hm := List.mem_of_find?_eq_some hf
    have hp := List.find?_some hf
    have hs : strCodes e.2 = s := by simpa using hp
    have := key_table_rt e hm
    rw [h] at this
    rw [← hs]; exact ⟨this.2.1, this.2.2.1, this.2.2.2⟩

theorem frameRate_rt : ∀ v ∈ [PyVal.int 24, .int 25, .flt 2997, .int 30], ∀ c, frameRateCode v = some c →
    c < 4 ∧ (frameRates.find? (fun r => r.1 == c)).map
      (fun r => if r.2 % 100 = 0 then PyVal.nat (r.2 / 100) else PyVal.flt (Int.ofNat r.2)) = some v := by
  decide +kernel

theorem map_natItem_itemNat (xs : List Item) (h : checkByteItems xs = .ok ()) :
    (xs.map itemNat).map natItem = xs ∧ ∀ b ∈ xs.map itemNat, b < 256 := by
  induction xs with
  | nil => simp
  | cons x r ih =>
    simp only [checkByteItems, bind, Except.bind] at h
    cases hx : checkByteItem x with
    | error e => rw [hx] at h; cases h
    | ok u =>
      rw [hx] at h
      have := ih h
      cases x with
      | int n =>
        simp only [checkByteItem] at hx
        split at hx
        · rename_i hn
          simp only [List.map_cons, this.1, itemNat, natItem]
          refine ⟨?_, ?_⟩
          · congr 1; congr 1; simp; omega
          · intro b hb
            rcases List.mem_cons.mp hb with rfl | hb
            · omega
            · exact this.2 b hb
        · cases hx
      | flt n => simp [checkByteItem] at hx
      | hobj => simp [checkByteItem] at hx
      | uobj => simp [checkByteItem] at hx

end Mido
