import MidoProofs.Lemmas.TokInv
/-! Subsequence and real-time invariants of the tokenizer fold (C04). -/
namespace Mido
open List

def isRtByte (b : Nat) : Bool := decide (0xF8 ≤ b)
/-- a defined real-time status byte -/
def definedRt (b : Nat) : Bool := decide (0xF8 ≤ b) && definedStatus b
def isRtTok (t : List Nat) : Bool := match t with | [s] => decide (0xF8 ≤ s) | _ => false

def Tok.pending (st : Tok) : List Nat := if st.status ≠ 0 then st.bytes else []
def nonRtFlat (out : List (List Nat)) : List Nat := (out.filter (fun t => !isRtTok t)).flatten
def rtToks (out : List (List Nat)) : List (List Nat) := out.filter isRtTok
def NR (C : List Nat) : List Nat := C.filter (fun b => !isRtByte b)
def RT (C : List Nat) : List (List Nat) := (C.filter definedRt).map (fun b => [b])

theorem NR_snoc_data (C : List Nat) (b : Nat) (h : b < 0xF8) : NR (C ++ [b]) = NR C ++ [b] := by
  have : isRtByte b = false := by simp [isRtByte]; omega
  simp [NR, filter_append, this]
theorem NR_snoc_rt (C : List Nat) (b : Nat) (h : 0xF8 ≤ b) : NR (C ++ [b]) = NR C := by
  have : isRtByte b = true := by simp [isRtByte]; omega
  simp [NR, filter_append, this]
theorem RT_snoc_no (C : List Nat) (b : Nat) (h : definedRt b = false) : RT (C ++ [b]) = RT C := by
  simp [RT, filter_append, h]
theorem RT_snoc_yes (C : List Nat) (b : Nat) (h : definedRt b = true) : RT (C ++ [b]) = RT C ++ [[b]] := by
  simp [RT, filter_append, h]

theorem nonRtFlat_snoc_nonrt (out : List (List Nat)) (t : List Nat) (h : isRtTok t = false) :
    nonRtFlat (out ++ [t]) = nonRtFlat out ++ t := by
  simp [nonRtFlat, filter_append, h]
theorem nonRtFlat_snoc_rt (out : List (List Nat)) (t : List Nat) (h : isRtTok t = true) :
    nonRtFlat (out ++ [t]) = nonRtFlat out := by
  simp [nonRtFlat, filter_append, h]
theorem rtToks_snoc_nonrt (out : List (List Nat)) (t : List Nat) (h : isRtTok t = false) :
    rtToks (out ++ [t]) = rtToks out := by
  simp [rtToks, filter_append, h]
theorem rtToks_snoc_rt (out : List (List Nat)) (t : List Nat) (h : isRtTok t = true) :
    rtToks (out ++ [t]) = rtToks out ++ [t] := by
  simp [rtToks, filter_append, h]

theorem isRtTok_long (t : List Nat) (h : 2 ≤ t.length) : isRtTok t = false := by
  match t, h with
  | _ :: _ :: _, _ => rfl

theorem sub_snoc {X P C : List Nat} (h : X ++ P <+ C) (b : Nat) : X ++ (P ++ [b]) <+ C ++ [b] := by
  rw [← append_assoc]; exact h.append (Sublist.refl _)
theorem sub_drop {X P C : List Nat} (h : X ++ P <+ C) : X <+ C :=
  (sublist_append_left X P).trans h
theorem sub_weak {X C : List Nat} (h : X <+ C) (b : Nat) : X <+ C ++ [b] :=
  h.trans (sublist_append_left C [b])

structure FullInv (st : Tok) (C : List Nat) : Prop where
  tok : TokInv st
  sub : nonRtFlat st.out ++ st.pending <+ NR C
  rt : rtToks st.out = RT C

theorem FullInv.init : FullInv {} [] := ⟨TokInv.init, by simp [nonRtFlat, Tok.pending, NR], rfl⟩

theorem FullInv.feedData {st : Tok} {C : List Nat} (h : FullInv st C) (b : Nat) (hb : b < 128) :
    FullInv (st.feedData b) (C ++ [b]) := by
  have hdr : definedRt b = false := by simp [definedRt]; intro; omega
  refine ⟨h.tok.feedData b hb, ?_, ?_⟩
  · rw [NR_snoc_data C b (by omega)]
    unfold Tok.feedData
    by_cases hs : st.status ≠ 0
    · obtain ⟨d, hbytes, _, _⟩ := h.tok.pend hs
      have hsub := h.sub
      simp only [Tok.pending, if_pos hs] at hsub
      rw [if_pos hs]
      by_cases hl : (st.bytes ++ [b]).length = st.len
      · simp only [hl, if_true]
        rw [nonRtFlat_snoc_nonrt _ _ (isRtTok_long _ (by simp [hbytes]))]
        simp only [Tok.pending, ne_eq, not_true_eq_false, if_false, append_nil]
        exact sub_snoc hsub b
      · simp only [hl, if_false]
        simp only [Tok.pending, if_pos hs]
        exact sub_snoc hsub b
    · rw [if_neg hs]; exact sub_weak h.sub b
  · rw [RT_snoc_no C b hdr, ← h.rt]
    unfold Tok.feedData
    by_cases hs : st.status ≠ 0
    · obtain ⟨d, hbytes, _, _⟩ := h.tok.pend hs
      rw [if_pos hs]
      by_cases hl : (st.bytes ++ [b]).length = st.len
      · simp only [hl, if_true]
        exact rtToks_snoc_nonrt _ _ (isRtTok_long _ (by simp [hbytes]))
      · simp only [hl, if_false]
    · rw [if_neg hs]

theorem FullInv.feedStatus {st : Tok} {C : List Nat} (h : FullInv st C) (s : Nat)
    (hs1 : 128 ≤ s) (hs2 : s < 256) : FullInv (st.feedStatus s) (C ++ [s]) := by
  refine ⟨h.tok.feedStatus s hs1 hs2, ?_, ?_⟩
  · -- subsequence
    unfold Tok.feedStatus
    by_cases c1 : s = 0xF7
    · rw [if_pos c1, NR_snoc_data C s (by omega)]
      by_cases c2 : st.status = 0xF0
      · rw [if_pos c2]
        have hne : st.status ≠ 0 := by rw [c2]; decide
        obtain ⟨d, hbytes, _, _⟩ := h.tok.pend hne
        have hsub := h.sub
        simp only [Tok.pending, if_pos hne] at hsub
        simp only []
        rw [nonRtFlat_snoc_nonrt _ _ (isRtTok_long _ (by simp [hbytes]))]
        simp only [Tok.pending, ne_eq, not_true_eq_false, if_false, append_nil]
        subst c1; exact sub_snoc hsub _
      · rw [if_neg c2]
        simp only [Tok.pending, ne_eq, not_true_eq_false, if_false, append_nil]
        exact sub_weak (sub_drop h.sub) s
    rw [if_neg c1]
    by_cases c3 : 0xF8 ≤ s
    · rw [if_pos c3, NR_snoc_rt C s c3]
      have hst1 : nonRtFlat (if st.status ≠ 0xF0 then { st with status := 0 } else st).out ++
          (if st.status ≠ 0xF0 then { st with status := 0 } else st).pending <+ NR C := by
        by_cases c : st.status ≠ 0xF0
        · rw [if_pos c]
          simp only [Tok.pending, ne_eq, not_true_eq_false, if_false, append_nil]
          exact sub_drop h.sub
        · rw [if_neg c]; exact h.sub
      generalize (if st.status ≠ 0xF0 then { st with status := 0 } else st) = st1 at hst1
      simp only []
      by_cases c4 : definedStatus s = true
      · rw [if_pos c4]
        have : isRtTok [s] = true := by simp [isRtTok]; omega
        simp only [Tok.pending] at hst1 ⊢
        rw [nonRtFlat_snoc_rt _ _ this]; exact hst1
      · rw [if_neg c4]; exact hst1
    rw [if_neg c3, NR_snoc_data C s (by omega)]
    by_cases c5 : s = 0xF0
    · rw [if_pos c5]
      simp only [Tok.pending]
      have : s ≠ 0 := by omega
      rw [if_pos this]
      exact sub_snoc (P := []) (by simpa using sub_drop h.sub) s
    rw [if_neg c5]
    cases hsl : specLen s with
    | none => exact sub_weak h.sub s
    | some n =>
      rcases specLen_range s n hsl with rfl | rfl | rfl
      · show nonRtFlat (st.out ++ [[s]]) ++ Tok.pending { st with out := st.out ++ [[s]], status := 0 } <+ _
        have : isRtTok [s] = false := by simp [isRtTok]; omega
        rw [nonRtFlat_snoc_nonrt _ _ this]
        simp only [Tok.pending, ne_eq, not_true_eq_false, if_false, append_nil]
        exact sub_snoc (P := []) (by simpa using sub_drop h.sub) s
      · show nonRtFlat st.out ++ Tok.pending { st with status := s, bytes := [s], len := 2 } <+ _
        simp only [Tok.pending]
        have : s ≠ 0 := by omega
        rw [if_pos this]
        exact sub_snoc (P := []) (by simpa using sub_drop h.sub) s
      · show nonRtFlat st.out ++ Tok.pending { st with status := s, bytes := [s], len := 3 } <+ _
        simp only [Tok.pending]
        have : s ≠ 0 := by omega
        rw [if_pos this]
        exact sub_snoc (P := []) (by simpa using sub_drop h.sub) s
  · -- real-time tokens
    unfold Tok.feedStatus
    by_cases c1 : s = 0xF7
    · have hdr : definedRt s = false := by simp [definedRt]; intro; omega
      rw [if_pos c1, RT_snoc_no C s hdr, ← h.rt]
      by_cases c2 : st.status = 0xF0
      · rw [if_pos c2]
        have hne : st.status ≠ 0 := by rw [c2]; decide
        obtain ⟨d, hbytes, _, _⟩ := h.tok.pend hne
        exact rtToks_snoc_nonrt _ _ (isRtTok_long _ (by simp [hbytes]))
      · rw [if_neg c2]
    rw [if_neg c1]
    by_cases c3 : 0xF8 ≤ s
    · rw [if_pos c3]
      have hst1 : rtToks (if st.status ≠ 0xF0 then { st with status := 0 } else st).out = RT C := by
        by_cases c : st.status ≠ 0xF0
        · rw [if_pos c]; exact h.rt
        · rw [if_neg c]; exact h.rt
      generalize (if st.status ≠ 0xF0 then { st with status := 0 } else st) = st1 at hst1
      simp only []
      by_cases c4 : definedStatus s = true
      · rw [if_pos c4]
        have hd : definedRt s = true := by simp [definedRt, c4]; omega
        have : isRtTok [s] = true := by simp [isRtTok]; omega
        rw [RT_snoc_yes C s hd, ← hst1]
        exact rtToks_snoc_rt _ _ this
      · rw [if_neg c4]
        have hd : definedRt s = false := by simp [definedRt]; intro; simpa using c4
        rw [RT_snoc_no C s hd]; exact hst1
    have hdr : definedRt s = false := by simp [definedRt]; intro; omega
    rw [if_neg c3, RT_snoc_no C s hdr, ← h.rt]
    by_cases c5 : s = 0xF0
    · rw [if_pos c5]
    rw [if_neg c5]
    cases hsl : specLen s with
    | none => rfl
    | some n =>
      rcases specLen_range s n hsl with rfl | rfl | rfl
      · show rtToks (st.out ++ [[s]]) = _
        have : isRtTok [s] = false := by simp [isRtTok]; omega
        exact rtToks_snoc_nonrt _ _ this
      · rfl
      · rfl

theorem FullInv.feedByte {st : Tok} {C : List Nat} (h : FullInv st C) (b : Nat) (hb : b < 256) :
    FullInv (st.feedByte b) (C ++ [b]) := by
  unfold Tok.feedByte
  by_cases c : b < 128
  · rw [if_pos c]; exact h.feedData b c
  · rw [if_neg c]; exact h.feedStatus b (by omega) hb

theorem FullInv.feed {st : Tok} {C : List Nat} (h : FullInv st C) (bs : List Nat)
    (hb : ∀ b ∈ bs, b < 256) : FullInv (st.feed bs) (C ++ bs) := by
  induction bs generalizing st C with
  | nil => simpa [Tok.feed] using h
  | cons b r ih =>
    simp only [Tok.feed, foldl_cons]
    have := ih (h.feedByte b (hb b (by simp))) (fun x hx => hb x (by simp [hx]))
    simpa [Tok.feed] using this

end Mido
