import MidoModel.Vlq
namespace Mido

theorem readVlq_encAux : ∀ (n hi : Nat), hi ≤ n → ∀ (tail rest : List Nat)
    (f : Nat → Except Err (Nat × List Nat)),
    (∀ acc, readVlqAcc acc (tail ++ rest) = f acc) →
    readVlqAcc 0 (encVlqAux hi tail ++ rest) = f hi := by
  intro n
  induction n with
  | zero =>
    intro hi h tail rest f hf
    have : hi = 0 := by omega
    subst this
    simp [encVlqAux, hf]
  | succ n ih =>
    intro hi h tail rest f hf
    match hi, h with
    | 0, _ => simp [encVlqAux, hf]
    | (m+1), h =>
      rw [encVlqAux]
      have := ih ((m+1)/128) (by omega) (((m+1) % 128 + 128) :: tail) rest
        (fun a => f (a * 128 + (m+1) % 128)) (by
          intro acc
          simp only [List.cons_append, readVlqAcc]
          have : ¬ ((m + 1) % 128 + 128 < 128) := by omega
          simp only [this, if_false]
          have e : ((m + 1) % 128 + 128) % 128 = (m+1) % 128 := by omega
          rw [e, hf])
      rw [this]
      congr 1; omega

/-- reading back an encoded variable-length quantity, whatever follows it -/
theorem readVlq_encVlq (v : Nat) (rest : List Nat) : readVlq (encVlq v ++ rest) = .ok (v, rest) := by
  unfold encVlq readVlq
  rw [readVlq_encAux (v/128) (v/128) (Nat.le_refl _) [v % 128] rest
     (fun a => .ok (a * 128 + v % 128, rest)) (by
       intro acc; simp only [List.cons_append, List.nil_append, readVlqAcc]
       have : v % 128 < 128 := by omega
       simp [this])]
  simp; omega

/-- shape of an encoded quantity: continuation bytes ≥ 0x80 then one byte < 0x80; all bytes < 256 -/
def VlqShape : List Nat → Prop
  | [] => False
  | [b] => b < 128
  | b :: r => 128 ≤ b ∧ b < 256 ∧ VlqShape r

theorem encVlqAux_shape : ∀ (n hi : Nat), hi ≤ n → ∀ tail, VlqShape tail → VlqShape (encVlqAux hi tail) := by
  intro n
  induction n with
  | zero => intro hi h tail ht; have : hi = 0 := by omega
            subst this; simpa [encVlqAux] using ht
  | succ n ih =>
    intro hi h tail ht
    match hi, h with
    | 0, _ => simpa [encVlqAux] using ht
    | (m+1), h =>
      rw [encVlqAux]
      apply ih _ (by omega)
      cases tail with
      | nil => exact absurd ht (by simp [VlqShape])
      | cons t r => exact ⟨by omega, by omega, ht⟩

theorem encVlq_shape (v : Nat) : VlqShape (encVlq v) := by
  unfold encVlq
  exact encVlqAux_shape _ _ (Nat.le_refl _) _ (by simp [VlqShape]; omega)

/-- minimality: the first byte of an encoding with more than one byte is not the padding 0x80 -/
theorem encVlqAux_head : ∀ (n hi : Nat), hi ≤ n → 0 < hi → ∀ tail,
    ∃ b r, encVlqAux hi tail = b :: r ∧ b ≠ 0x80 := by
  intro n
  induction n with
  | zero => intro hi h h0; omega
  | succ n ih =>
    intro hi h h0 tail
    match hi, h, h0 with
    | (m+1), h, _ =>
      rw [encVlqAux]
      by_cases hz : (m+1)/128 = 0
      · rw [hz, encVlqAux]
        refine ⟨_, _, rfl, ?_⟩
        have : (m+1) % 128 = m+1 := by omega
        omega
      · exact ih _ (by omega) (by omega) _

theorem encVlq_minimal (v : Nat) : ∃ b r, encVlq v = b :: r ∧ (r ≠ [] → b ≠ 0x80) := by
  unfold encVlq
  by_cases h : v / 128 = 0
  · rw [h, encVlqAux]; exact ⟨_, _, rfl, by simp⟩
  · obtain ⟨b, r, e, hb⟩ := encVlqAux_head _ _ (Nat.le_refl _) (Nat.pos_of_ne_zero h) [v % 128]
    exact ⟨b, r, e, fun _ => hb⟩

end Mido
