import MidoProofs.Lemmas.Bits
namespace Mido

theorem checkData_ok (d : List Nat) (h : d.all (· ≤ 127) = true) :
    checkData (d.map (fun x => Item.int (Int.ofNat x))) = .ok d := by
  induction d with
  | nil => rfl
  | cons x xs ih =>
    simp only [List.all_cons, Bool.and_eq_true, decide_eq_true_eq] at h
    simp only [List.map_cons, checkData]
    have : (0:Int) ≤ Int.ofNat x ∧ Int.ofNat x ≤ 127 := by constructor <;> simp <;> omega
    rw [if_pos this, ih h.2]; rfl

/-- decoding a status byte (not sysex) followed by the right number of valid data bytes -/
theorem decode_fixed (s : Nat) (d : List Nat) (hs : s ≠ 0xF0)
    (hd : d.all (· ≤ 127) = true) (hl : specLen s = some (d.length + 1)) :
    decodeNats (s :: d) = buildMsg s true d := by
  have hdef : definedStatus s = true := by simp [definedStatus, hl]
  have hn : ¬ ((s : Int) < 0) := by omega
  simp only [decodeNats, List.map_cons, decode, Int.ofNat_eq_natCast, hn, if_false, Int.toNat_natCast,
    hdef, Bool.not_true, Bool.false_eq_true, hs]
  have := checkData_ok d hd
  simp only [Int.ofNat_eq_natCast] at this
  rw [this]
  simp [bind, Except.bind, hl]

theorem decode_sysex (d : List Nat) (hd : d.all (· ≤ 127) = true) :
    decodeNats ([0xf0] ++ d ++ [0xf7]) = .ok (.sysex d) := by
  have hdef : definedStatus 0xF0 = true := by decide
  simp only [decodeNats, List.cons_append, List.nil_append, List.map_cons, List.map_append,
    List.map_nil, decode]
  have hn : ¬ (Int.ofNat 240 < 0) := by decide
  rw [if_neg hn]
  have e1 : (Int.ofNat 240).toNat = 0xF0 := rfl
  rw [e1, hdef]
  simp only [Bool.not_true, Bool.false_eq_true, if_false, if_true]
  simp only [List.getLast?_concat, List.dropLast_concat]
  have e2 : (Item.int (Int.ofNat 247) = Item.int 247 ∨ Item.int (Int.ofNat 247) = Item.flt 247) :=
    Or.inl rfl
  rw [if_pos e2, checkData_ok d hd]; rfl

end Mido
