import MidoProofs.Lemmas.DecodeInts
namespace Mido

theorem len2 {α} (d : List α) (h : d.length = 2) : ∃ a b, d = [a, b] := by
  match d, h with
  | [a, b], _ => exact ⟨a, b, rfl⟩
theorem len1 {α} (d : List α) (h : d.length = 1) : ∃ a, d = [a] := by
  match d, h with
  | [a], _ => exact ⟨a, rfl⟩

local macro "ifs_omega" : tactic =>
  `(tactic| ((try simp only [Bool.not_true, Bool.false_eq_true, if_false]); (repeat' split) <;>
      first | rfl | (exfalso; omega) | omega))

/-- channel status bytes decompose into base + channel -/
theorem chan_split (b s : Nat) (hb : b ∈ [0x80, 0x90, 0xa0, 0xb0, 0xc0, 0xd0, 0xe0])
    (h1 : b ≤ s) (h2 : s < b + 16) : s &&& 0x0f = s - b ∧ b ||| (s - b) = s := by
  have := chan_or b hb (s - b) (by omega)
  constructor
  · have e : s = b + (s - b) := by omega
    rw [e, ← this.1, this.2]; omega
  · rw [this.1]; omega

/-- On a defined non-sysex status byte with the right number of valid data bytes,
    `buildMsg` yields a valid message that encodes to exactly those bytes. -/
theorem buildMsg_sound (s : Nat) (d : List Nat) (hd : d.all (· ≤ 127) = true)
    (hl : specLen s = some (d.length + 1)) :
    ∃ m, buildMsg s true d = .ok m ∧ m.valid = true ∧ encode m = s :: d := by
  unfold specLen at hl
  split at hl
  · -- 0x80..0xBF, three bytes
    rename_i hr
    obtain ⟨d1, d2, rfl⟩ := len2 d (by simpa using hl.symm)
    simp only [List.all_cons, List.all_nil, Bool.and_true, Bool.and_eq_true, decide_eq_true_eq] at hd
    by_cases c1 : s < 0x90
    · have k := chan_split 0x80 s (by simp) (by omega) (by omega)
      refine ⟨.chan3 .note_off (s - 0x80) d1 d2, ?_, ?_, ?_⟩
      · simp only [buildMsg, k.1]; ifs_omega
      · simp [Msg.valid]; omega
      · simp [encode, C3.base, k.2]
    by_cases c2 : s < 0xa0
    · have k := chan_split 0x90 s (by simp) (by omega) (by omega)
      refine ⟨.chan3 .note_on (s - 0x90) d1 d2, ?_, ?_, ?_⟩
      · simp only [buildMsg, k.1]; ifs_omega
      · simp [Msg.valid]; omega
      · simp [encode, C3.base, k.2]
    by_cases c3 : s < 0xb0
    · have k := chan_split 0xa0 s (by simp) (by omega) (by omega)
      refine ⟨.chan3 .polytouch (s - 0xa0) d1 d2, ?_, ?_, ?_⟩
      · simp only [buildMsg, k.1]; ifs_omega
      · simp [Msg.valid]; omega
      · simp [encode, C3.base, k.2]
    · have k := chan_split 0xb0 s (by simp) (by omega) (by omega)
      refine ⟨.chan3 .control_change (s - 0xb0) d1 d2, ?_, ?_, ?_⟩
      · simp only [buildMsg, k.1]; ifs_omega
      · simp [Msg.valid]; omega
      · simp [encode, C3.base, k.2]
  split at hl
  · rename_i hr0 hr
    obtain ⟨d1, rfl⟩ := len1 d (by simpa using hl.symm)
    simp only [List.all_cons, List.all_nil, Bool.and_true, decide_eq_true_eq] at hd
    by_cases c1 : s < 0xd0
    · have k := chan_split 0xc0 s (by simp) (by omega) (by omega)
      refine ⟨.chan2 .program_change (s - 0xc0) d1, ?_, ?_, ?_⟩
      · simp only [buildMsg, k.1]; ifs_omega
      · simp [Msg.valid]; omega
      · simp [encode, C2.base, k.2]
    · have k := chan_split 0xd0 s (by simp) (by omega) (by omega)
      refine ⟨.chan2 .aftertouch (s - 0xd0) d1, ?_, ?_, ?_⟩
      · simp only [buildMsg, k.1]; ifs_omega
      · simp [Msg.valid]; omega
      · simp [encode, C2.base, k.2]
  split at hl
  · rename_i hr0 hr1 hr
    obtain ⟨d1, d2, rfl⟩ := len2 d (by simpa using hl.symm)
    simp only [List.all_cons, List.all_nil, Bool.and_true, Bool.and_eq_true, decide_eq_true_eq] at hd
    have k := chan_split 0xe0 s (by simp) (by omega) (by omega)
    refine ⟨.pitchwheel (s - 0xe0) ((d1 : Int) + 128 * (d2 : Int) - 8192), ?_, ?_, ?_⟩
    · simp only [buildMsg, k.1]
      rw [pitch_lor d1 d2 (by omega) (by omega)]
      ifs_omega
    · simp [Msg.valid]; omega
    · simp only [encode, k.2, and127, shr7]
      have e : ((d1 : Int) + 128 * (d2 : Int) - 8192 - (-8192)).toNat = d1 + 128 * d2 := by omega
      rw [e]
      congr 2
      · omega
      · congr 1; omega
  split at hl
  · rename_i hr0 hr1 hr2 hr
    obtain ⟨d1, rfl⟩ := len1 d (by simpa using hl.symm)
    simp only [List.all_cons, List.all_nil, Bool.and_true, decide_eq_true_eq] at hd
    rcases hr with rfl | rfl
    · refine ⟨.quarter_frame (d1 >>> 4) (d1 &&& 15), by simp [buildMsg], ?_, ?_⟩
      · simp [Msg.valid, shr4, and15]; omega
      · simp only [encode, shr4, and15, shl4]
        rw [or16 _ _ (Nat.mod_lt _ (by decide))]
        congr 2; omega
    · refine ⟨.song_select d1, by simp [buildMsg], ?_, rfl⟩
      simp [Msg.valid]; omega
  split at hl
  · rename_i hr0 hr1 hr2 hr3 hr
    subst hr
    obtain ⟨d1, d2, rfl⟩ := len2 d (by simpa using hl.symm)
    simp only [List.all_cons, List.all_nil, Bool.and_true, Bool.and_eq_true, decide_eq_true_eq] at hd
    refine ⟨.songpos (d1 ||| (d2 <<< 7)), by simp [buildMsg], ?_, ?_⟩
    · simp only [Msg.valid, shl7, or128' d2 d1 (by omega)]; simp; omega
    · simp only [encode, shl7, or128' d2 d1 (by omega), and127, shr7]
      congr 2
      · omega
      · congr 1; omega
  split at hl
  · rename_i hr0 hr1 hr2 hr3 hr4 hr
    have : d = [] := by
      have : d.length = 0 := by simpa using hl.symm
      exact List.eq_nil_of_length_eq_zero this
    subst this
    rcases hr with rfl | rfl | rfl | rfl | rfl | rfl | rfl
    · exact ⟨.sys1 .tune_request, rfl, rfl, rfl⟩
    · exact ⟨.sys1 .clock, rfl, rfl, rfl⟩
    · exact ⟨.sys1 .start, rfl, rfl, rfl⟩
    · exact ⟨.sys1 .continue_, rfl, rfl, rfl⟩
    · exact ⟨.sys1 .stop, rfl, rfl, rfl⟩
    · exact ⟨.sys1 .active_sensing, rfl, rfl, rfl⟩
    · exact ⟨.sys1 .reset, rfl, rfl, rfl⟩
  · simp at hl

end Mido
