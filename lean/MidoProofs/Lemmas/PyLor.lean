import MidoModel.Basic
/-! The one use of Python's `|` on a negative int, on its whole domain. -/
namespace Mido

/-- Python's `d0 | ((d1 << 7) - 8192)` on the whole data-byte domain. -/
theorem pitch_lor_table : ∀ d0 : Fin 128, ∀ d1 : Fin 128,
    pyLor (d0.val : Int) ((((d1.val : Nat) : Int) <<< 7) + (-8192))
      = (d0.val : Int) + 128 * (d1.val : Int) - 8192 := by decide +kernel

theorem pitch_lor (d0 d1 : Nat) (h0 : d0 < 128) (h1 : d1 < 128) :
    pyLor (d0 : Int) (((d1 : Int) <<< 7) + (-8192)) = (d0 : Int) + 128 * (d1 : Int) - 8192 :=
  pitch_lor_table ⟨d0, h0⟩ ⟨d1, h1⟩

end Mido
