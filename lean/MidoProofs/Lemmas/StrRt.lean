import MidoModel.Strings
import MidoProofs.Lemmas.Numeral
/-! Lemmas for `from_str (str m) = m` (C14): splitting what `join` put together, numerals. -/
namespace Mido
open List

def NoSp (t : List Char) : Prop := ∀ c ∈ t, isSpaceChar c = false
def NoCh (sep : Char) (t : List Char) : Prop := ∀ c ∈ t, c ≠ sep

theorem splitWsAux_token (t : List Char) (hns : NoSp t) : ∀ (cur rest : List Char),
    splitWsAux cur (t ++ rest) = splitWsAux (t.reverse ++ cur) rest := by
  induction t with
  | nil => intro cur rest; rfl
  | cons c r ih =>
    intro cur rest
    have hc : isSpaceChar c = false := hns c (by simp)
    simp only [cons_append, splitWsAux, hc, Bool.false_eq_true, if_false]
    rw [ih (fun x hx => hns x (by simp [hx]))]
    simp

theorem splitWsAux_intercalate (toks : List (List Char)) (h : ∀ t ∈ toks, t ≠ [] ∧ NoSp t) :
    splitWsAux [] (intercalateC ' ' toks) = toks := by
  induction toks with
  | nil => rfl
  | cons x r ih =>
    obtain ⟨hx, hsx⟩ := h x (by simp)
    have hr := ih (fun t ht => h t (by simp [ht]))
    cases r with
    | nil =>
      simp only [intercalateC]
      have := splitWsAux_token x hsx [] []
      simp only [append_nil] at this
      rw [this]
      have hne : x.reverse.isEmpty = false := by
        cases hrev : x.reverse with
        | nil => simp at hrev; exact absurd hrev hx
        | cons a b => rfl
      simp only [splitWsAux, hne, Bool.false_eq_true, if_false, reverse_reverse]
    | cons y r' =>
      simp only [intercalateC]
      rw [splitWsAux_token x hsx]
      simp only [append_nil]
      have hsp : isSpaceChar ' ' = true := by decide
      have hne : x.reverse.isEmpty = false := by
        cases hrev : x.reverse with
        | nil => simp at hrev; exact absurd hrev hx
        | cons a b => rfl
      simp only [splitWsAux, hsp, if_true, hne, Bool.false_eq_true, if_false, reverse_reverse]
      rw [hr]

theorem splitWs_intercalate (toks : List (List Char)) (h : ∀ t ∈ toks, t ≠ [] ∧ NoSp t) :
    splitWs (intercalateC ' ' toks) = toks := splitWsAux_intercalate toks h

theorem splitCharAux_token (sep : Char) (t : List Char) (hns : NoCh sep t) : ∀ (cur rest : List Char),
    splitCharAux sep cur (t ++ rest) = splitCharAux sep (t.reverse ++ cur) rest := by
  induction t with
  | nil => intro cur rest; rfl
  | cons c r ih =>
    intro cur rest
    have hc : c ≠ sep := hns c (by simp)
    simp only [cons_append, splitCharAux, hc, if_false]
    rw [ih (fun x hx => hns x (by simp [hx]))]
    simp

theorem splitChar_intercalate (sep : Char) (toks : List (List Char)) (hne : toks ≠ [])
    (h : ∀ t ∈ toks, NoCh sep t) : splitChar sep (intercalateC sep toks) = toks := by
  unfold splitChar
  induction toks with
  | nil => exact absurd rfl hne
  | cons x r ih =>
    have hsx := h x (by simp)
    cases r with
    | nil =>
      simp only [intercalateC]
      have := splitCharAux_token sep x hsx [] []
      simp only [append_nil] at this
      rw [this]; simp [splitCharAux]
    | cons y r' =>
      simp only [intercalateC]
      rw [splitCharAux_token sep x hsx]
      simp only [append_nil, splitCharAux, if_true, reverse_reverse]
      rw [ih (by simp) (fun t ht => h t (by simp [ht]))]

theorem splitFirstEq_append (n v : List Char) (h : NoCh '=' n) :
    splitFirstEq (n ++ '=' :: v) = some (n, v) := by
  induction n with
  | nil => simp [splitFirstEq]
  | cons c r ih =>
    have hc : c ≠ '=' := h c (by simp)
    simp only [cons_append, splitFirstEq, hc, if_false, ih (fun x hx => h x (by simp [hx])), Option.map_some]

/-! ### numerals -/

theorem digit_range (c : Char) (h : isDigit c = true) : 48 ≤ c.toNat ∧ c.toNat ≤ 57 := by
  simp only [isDigit, Bool.and_eq_true, decide_eq_true_eq] at h
  exact ⟨h.1, h.2⟩

theorem digit_not_space (c : Char) (h : isDigit c = true) : isSpaceChar c = false := by
  obtain ⟨h1, h2⟩ := digit_range c h
  unfold isSpaceChar
  generalize c.toNat = n at h1 h2
  have : n = 48 ∨ n = 49 ∨ n = 50 ∨ n = 51 ∨ n = 52 ∨ n = 53 ∨ n = 54 ∨ n = 55 ∨ n = 56 ∨ n = 57 := by omega
  rcases this with rfl | rfl | rfl | rfl | rfl | rfl | rfl | rfl | rfl | rfl <;> decide

theorem digit_ne (c : Char) (h : isDigit c = true) (d : Char) (hd : d.toNat < 48 ∨ 57 < d.toNat) : c ≠ d := by
  intro e; subst e
  have := digit_range c h
  omega

/-- characters of a printed integer: digits or the minus sign -/
def NumCh (c : Char) : Prop := isDigit c = true ∨ c = '-'

theorem showInt_chars (i : Int) : ∀ c ∈ showInt i, NumCh c := by
  cases i with
  | ofNat n => intro c hc; exact Or.inl (showNat_digits n c hc)
  | negSucc n =>
    intro c hc
    simp only [showInt, mem_cons] at hc
    rcases hc with rfl | hc
    · exact Or.inr rfl
    · exact Or.inl (showNat_digits _ c hc)

theorem numCh_noSp (t : List Char) (h : ∀ c ∈ t, NumCh c) : NoSp t := by
  intro c hc
  rcases h c hc with hd | rfl
  · exact digit_not_space c hd
  · decide

theorem numCh_noCh (t : List Char) (h : ∀ c ∈ t, NumCh c) (sep : Char) (hs : sep ≠ '-')
    (hd : sep.toNat < 48 ∨ 57 < sep.toNat) : NoCh sep t := by
  intro c hc
  rcases h c hc with hdg | rfl
  · exact digit_ne c hdg sep hd
  · exact fun e => hs e.symm

theorem showInt_ne_nil (i : Int) : showInt i ≠ [] := by
  cases i with
  | ofNat n => exact showNat_ne_nil n
  | negSucc n => simp [showInt]

/-- on a list of digits the underscore-aware digit reader is the plain one -/
theorem parseDigitsUs_digits (ds : List Char) (h : ∀ c ∈ ds, isDigit c = true) : ∀ (acc : Nat) (prev : Bool),
    (ds ≠ [] ∨ prev = true) → parseDigitsUs acc prev ds = parseNatAcc acc ds := by
  induction ds with
  | nil =>
    intro acc prev hp
    rcases hp with hp | hp
    · exact absurd rfl hp
    · simp [parseDigitsUs, parseNatAcc, hp]
  | cons c r ih =>
    intro acc prev _
    have hc := h c (by simp)
    simp only [parseDigitsUs, parseNatAcc, hc, if_true]
    exact ih (fun x hx => h x (by simp [hx])) _ true (Or.inr rfl)

theorem parsePyInt_showNat (n : Nat) : parsePyInt (showNat n) = some (n : Int) := by
  have hd := showNat_digits n
  have hne := showNat_ne_nil n
  have hp := parseNat_showNat n
  cases hs : showNat n with
  | nil => exact absurd hs hne
  | cons c r =>
    rw [hs] at hd hp
    have hc := hd c (by simp)
    have c1 : c ≠ '-' := digit_ne c hc '-' (by decide)
    have c2 : c ≠ '+' := digit_ne c hc '+' (by decide)
    have : parsePyInt (c :: r) = (parseDigitsUs 0 false (c :: r)).map (fun n => (n : Int)) := by
      unfold parsePyInt
      split
      · rename_i heq; simp only [cons.injEq] at heq; exact absurd heq.1 c1
      · rename_i heq; simp only [cons.injEq] at heq; exact absurd heq.1 c2
      · rfl
    rw [this, parseDigitsUs_digits _ hd 0 false (Or.inl (by simp))]
    simp only [parseNat, isEmpty_cons, Bool.false_eq_true, if_false] at hp
    rw [hp]; rfl

/-- `int(str(i)) = i` through the full `int()` fragment of the model -/
theorem parsePyInt_showInt (i : Int) : parsePyInt (showInt i) = some i := by
  cases i with
  | ofNat n => exact parsePyInt_showNat n
  | negSucc n =>
    have hd := showNat_digits (n + 1)
    have hp := parseNat_showNat (n + 1)
    have hne := showNat_ne_nil (n + 1)
    simp only [showInt, parsePyInt]
    rw [parseDigitsUs_digits _ hd 0 false (Or.inl hne)]
    simp only [parseNat] at hp
    cases hs : showNat (n + 1) with
    | nil => exact absurd hs hne
    | cons c r =>
      rw [hs] at hp
      simp only [isEmpty_cons, Bool.false_eq_true, if_false] at hp
      rw [hp]; rfl

theorem parseDigitsUs_dot (ds rest : List Char) (h : ∀ c ∈ ds, isDigit c = true) : ∀ (acc : Nat) (prev : Bool),
    parseDigitsUs acc prev (ds ++ '.' :: rest) = none := by
  induction ds with
  | nil => intro acc prev; simp [parseDigitsUs, isDigit]
  | cons c r ih =>
    intro acc prev
    have hc := h c (by simp)
    simp only [cons_append, parseDigitsUs, hc, if_true]
    exact ih (fun x hx => h x (by simp [hx])) _ true

theorem parsePyInt_dot (ds rest : List Char) (h : ∀ c ∈ ds, isDigit c = true) (hne : ds ≠ []) :
    parsePyInt (ds ++ '.' :: rest) = none ∧ parsePyInt ('-' :: (ds ++ '.' :: rest)) = none := by
  constructor
  · cases ds with
    | nil => exact absurd rfl hne
    | cons c r =>
      have hc := h c (by simp)
      have c1 : c ≠ '-' := digit_ne c hc '-' (by decide)
      have c2 : c ≠ '+' := digit_ne c hc '+' (by decide)
      have : parsePyInt (c :: r ++ '.' :: rest) = (parseDigitsUs 0 false (c :: r ++ '.' :: rest)).map (fun n => (n : Int)) := by
        unfold parsePyInt
        split
        · rename_i heq; simp only [cons_append, cons.injEq] at heq; exact absurd heq.1 c1
        · rename_i heq; simp only [cons_append, cons.injEq] at heq; exact absurd heq.1 c2
        · rfl
      rw [this, parseDigitsUs_dot _ _ h]; rfl
  · simp only [parsePyInt, parseDigitsUs_dot _ _ h]; rfl

def fracDigits (fp : Nat) : List Char :=
  if fp % 10 = 0 then [digitChar (fp / 10)] else [digitChar (fp / 10), digitChar (fp % 10)]

theorem showFlt_eq (h : Int) : showFlt h =
    (if h < 0 then ['-'] else []) ++ (showNat (h.natAbs / 100) ++ '.' :: fracDigits (h.natAbs % 100)) := by
  simp [showFlt, fracDigits]

theorem fracDigits_digits (fp : Nat) (hfp : fp < 100) : ∀ c ∈ fracDigits fp, isDigit c = true := by
  intro c hc
  have d1 := (digitChar_spec ⟨fp / 10, by omega⟩).1
  have d2 := (digitChar_spec ⟨fp % 10, by omega⟩).1
  unfold fracDigits at hc
  split at hc <;> simp at hc
  · subst hc; exact d1
  · rcases hc with rfl | rfl
    · exact d1
    · exact d2

theorem floatBody_show (ip fp : Nat) (hfp : fp < 100) (neg : Bool) :
    floatBody neg (showNat ip ++ '.' :: fracDigits fp) = some ((if neg then -1 else 1) * ((ip * 100 + fp : Nat) : Int)) := by
  have hsplit : splitChar '.' (showNat ip ++ '.' :: fracDigits fp) = [showNat ip, fracDigits fp] := by
    have := splitChar_intercalate '.' [showNat ip, fracDigits fp] (by simp) (by
      intro t ht
      simp only [mem_cons, not_mem_nil, or_false] at ht
      rcases ht with rfl | rfl
      · intro c hc; exact digit_ne c (showNat_digits ip c hc) '.' (by decide)
      · intro c hc; exact digit_ne c (fracDigits_digits fp hfp c hc) '.' (by decide))
    simpa [intercalateC] using this
  unfold floatBody
  rw [hsplit]
  simp only [parseNat_showNat]
  have d1 := digitChar_spec ⟨fp / 10, by omega⟩
  have d2 := digitChar_spec ⟨fp % 10, by omega⟩
  simp only at d1 d2
  unfold fracDigits
  by_cases h0 : fp % 10 = 0
  · simp only [h0, if_true, d1.1, d1.2.1]
    congr 3; omega
  · simp only [h0, if_false, d1.1, d2.1, and_self, if_true, d1.2.1, d2.2.1]
    congr 3; omega

theorem parseFloat2_showFlt (h : Int) : parseFloat2 (showFlt h) = some h := by
  rw [showFlt_eq]
  have hfp : h.natAbs % 100 < 100 := Nat.mod_lt _ (by decide)
  have hval : h.natAbs / 100 * 100 + h.natAbs % 100 = h.natAbs := by omega
  by_cases hn : h < 0
  · simp only [hn, if_true, singleton_append, parseFloat2, signSplit]
    rw [floatBody_show _ _ hfp true, hval]
    simp only [if_true]; congr 1; omega
  · simp only [hn, if_false, nil_append]
    have hd := showNat_digits (h.natAbs / 100)
    have hne := showNat_ne_nil (h.natAbs / 100)
    cases hs : showNat (h.natAbs / 100) with
    | nil => exact absurd hs hne
    | cons c r =>
      have hc := hd c (by rw [hs]; simp)
      have c1 : c ≠ '-' := digit_ne c hc '-' (by decide)
      have c2 : c ≠ '+' := digit_ne c hc '+' (by decide)
      have hm : signSplit (c :: r ++ '.' :: fracDigits (h.natAbs % 100)) = (false, c :: r ++ '.' :: fracDigits (h.natAbs % 100)) := by
        unfold signSplit
        split
        · rename_i heq; simp only [cons_append, cons.injEq] at heq; exact absurd heq.1 c1
        · rename_i heq; simp only [cons_append, cons.injEq] at heq; exact absurd heq.1 c2
        · rfl
      simp only [parseFloat2, hm]
      rw [← hs, floatBody_show _ _ hfp false, hval]
      simp only [Bool.false_eq_true, if_false]; congr 1; omega

theorem parseTime_showTimeVal (t : PyVal) (ht : (∃ n, t = .int n) ∨ (∃ h, t = .flt h)) :
    parseTime (showTimeVal t) = some t := by
  rcases ht with ⟨n, rfl⟩ | ⟨h, rfl⟩
  · simp [parseTime, showTimeVal, parsePyInt_showInt]
  · have hd := showNat_digits (h.natAbs / 100)
    have hne := showNat_ne_nil (h.natAbs / 100)
    have hnone : parsePyInt (showFlt h) = none := by
      rw [showFlt_eq]
      by_cases hn : h < 0
      · simp only [hn, if_true, singleton_append]; exact (parsePyInt_dot _ _ hd hne).2
      · simp only [hn, if_false, nil_append]; exact (parsePyInt_dot _ _ hd hne).1
    simp [parseTime, showTimeVal, hnone, parseFloat2_showFlt]

end Mido
