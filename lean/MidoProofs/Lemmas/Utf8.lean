import MidoModel.Meta
/-! The UTF-8 codec of the model: encoding and strict decoding are inverse to each other
    (used by C07/C08/C09 to cover `charset='utf-8'`). -/
namespace Mido
open List

/-- one code point, decoded from the front of a byte string -/
theorem utf8Decode_cp (c : Nat) (bs rest : List Nat) (h : utf8EncodeCp c = some bs) :
    utf8Decode (bs ++ rest) = (utf8Decode rest).map (c :: ·) := by
  unfold utf8EncodeCp at h
  split at h
  · cases h; rename_i h1
    simp only [cons_append, nil_append]
    conv => lhs; unfold utf8Decode
    simp only [h1, if_true]
  split at h
  · cases h; rename_i h0 h1
    simp only [cons_append, nil_append]
    conv => lhs; unfold utf8Decode
    have a1 : ¬ (0xC0 + c / 64 < 0x80) := by omega
    have a2 : ¬ (0xC0 + c / 64 < 0xC2) := by omega
    have a3 : 0xC0 + c / 64 < 0xE0 := by omega
    have a4 : isCont (0x80 + c % 64) = true := by simp [isCont]; omega
    have a5 : (0xC0 + c / 64 - 0xC0) * 64 + (0x80 + c % 64 - 0x80) = c := by omega
    simp only [a1, a2, a3, a4, a5, if_false, if_true]
  split at h
  · cases h
  split at h
  · cases h; rename_i h0 h1 h2 h3
    simp only [cons_append, nil_append]
    conv => lhs; unfold utf8Decode
    have a1 : ¬ (0xE0 + c / 4096 < 0x80) := by omega
    have a2 : ¬ (0xE0 + c / 4096 < 0xC2) := by omega
    have a3 : ¬ (0xE0 + c / 4096 < 0xE0) := by omega
    have a3' : 0xE0 + c / 4096 < 0xF0 := by omega
    have a4 : isCont (0x80 + c / 64 % 64) = true := by simp [isCont]; omega
    have a4' : isCont (0x80 + c % 64) = true := by simp [isCont]; omega
    have a5 : (0xE0 + c / 4096 - 0xE0) * 4096 + (0x80 + c / 64 % 64 - 0x80) * 64 + (0x80 + c % 64 - 0x80) = c := by omega
    have a6 : (0x800 ≤ c) = True := by simp; omega
    have a7 : ¬ (0xD800 ≤ c ∧ c ≤ 0xDFFF) := h2
    simp only [a1, a2, a3, a3', a4, a4', a5, if_false, if_true, Bool.true_and, Bool.and_true]
    have : (decide (0x800 ≤ c) && !(decide (0xD800 ≤ c) && decide (c ≤ 0xDFFF))) = true := by
      simp only [Bool.and_eq_true, decide_eq_true_eq, Bool.not_eq_true', Bool.and_eq_false_iff, decide_eq_false_iff_not]
      omega
    simp only [this, if_true]
  split at h
  · cases h; rename_i h0 h1 h2 h3 h4
    simp only [cons_append, nil_append]
    conv => lhs; unfold utf8Decode
    have a1 : ¬ (0xF0 + c / 262144 < 0x80) := by omega
    have a2 : ¬ (0xF0 + c / 262144 < 0xC2) := by omega
    have a3 : ¬ (0xF0 + c / 262144 < 0xE0) := by omega
    have a3' : ¬ (0xF0 + c / 262144 < 0xF0) := by omega
    have a3'' : 0xF0 + c / 262144 < 0xF5 := by omega
    have a4 : isCont (0x80 + c / 4096 % 64) = true := by simp [isCont]; omega
    have a4' : isCont (0x80 + c / 64 % 64) = true := by simp [isCont]; omega
    have a4'' : isCont (0x80 + c % 64) = true := by simp [isCont]; omega
    have a5 : (0xF0 + c / 262144 - 0xF0) * 262144 + (0x80 + c / 4096 % 64 - 0x80) * 4096 + (0x80 + c / 64 % 64 - 0x80) * 64
        + (0x80 + c % 64 - 0x80) = c := by omega
    simp only [a1, a2, a3, a3', a3'', a4, a4', a4'', a5, if_false, if_true, Bool.true_and]
    have : (decide (0x10000 ≤ c) && decide (c < 0x110000)) = true := by
      simp only [Bool.and_eq_true, decide_eq_true_eq]; omega
    simp only [this, if_true]
  · cases h

/-- every byte of an encoded code point is a byte -/
theorem utf8EncodeCp_bytes (c : Nat) (bs : List Nat) (h : utf8EncodeCp c = some bs) : ∀ b ∈ bs, b < 256 := by
  unfold utf8EncodeCp at h
  split at h
  · cases h; intro b hb; simp at hb; omega
  split at h
  · cases h; intro b hb; simp at hb; omega
  split at h
  · cases h
  split at h
  · cases h; intro b hb; simp at hb; omega
  split at h
  · cases h; intro b hb; simp at hb; omega
  · cases h

theorem mapM_cons_some {α β} (f : α → Option β) (a : α) (l : List α) (r : List β) (h : (a :: l).mapM f = some r) :
    ∃ b bs, f a = some b ∧ l.mapM f = some bs ∧ r = b :: bs := by
  rw [List.mapM_cons] at h
  cases hf : f a with
  | none => simp [hf] at h
  | some b =>
    cases hl : l.mapM f with
    | none => simp [hf, hl] at h
    | some bs => simp [hf, hl] at h; exact ⟨b, bs, rfl, rfl, h.symm⟩

/-- **encode, then decode** -/
theorem utf8_enc_dec (s : List Nat) : ∀ (bss : List (List Nat)), s.mapM utf8EncodeCp = some bss →
    utf8Decode bss.flatten = some s ∧ ∀ b ∈ bss.flatten, b < 256 := by
  induction s with
  | nil => intro bss h; simp at h; subst h; exact ⟨by simp [utf8Decode], by simp⟩
  | cons c s ih =>
    intro bss h
    obtain ⟨b, bs, hb, hl, rfl⟩ := mapM_cons_some _ _ _ _ h
    obtain ⟨ih1, ih2⟩ := ih bs hl
    refine ⟨?_, ?_⟩
    · rw [flatten_cons, utf8Decode_cp c b _ hb, ih1]; rfl
    · intro x hx; rw [flatten_cons, mem_append] at hx
      cases hx with
      | inl hx => exact utf8EncodeCp_bytes c b hb x hx
      | inr hx => exact ih2 x hx

theorem encCp1 (b : Nat) (h : b < 128) : utf8EncodeCp b = some [b] := by simp [utf8EncodeCp, h]

theorem encCp2 (b c1 : Nat) (h1 : ¬ b < 194) (h2 : b < 224) (hc : isCont c1 = true) :
    utf8EncodeCp ((b - 0xC0) * 64 + (c1 - 0x80)) = some [b, c1] := by
  simp only [isCont, Bool.and_eq_true, decide_eq_true_eq] at hc
  unfold utf8EncodeCp
  rw [if_neg (by omega), if_pos (by omega)]
  have e1 : 0xC0 + ((b - 0xC0) * 64 + (c1 - 0x80)) / 64 = b := by omega
  have e2 : 0x80 + ((b - 0xC0) * 64 + (c1 - 0x80)) % 64 = c1 := by omega
  rw [e1, e2]

theorem encCp3 (b c1 c2 : Nat) (h1 : ¬ b < 224) (h2 : b < 240)
    (hc : (isCont c1 && isCont c2 && decide (2048 ≤ (b - 224) * 4096 + (c1 - 128) * 64 + (c2 - 128)) &&
      !(decide (55296 ≤ (b - 224) * 4096 + (c1 - 128) * 64 + (c2 - 128)) &&
        decide ((b - 224) * 4096 + (c1 - 128) * 64 + (c2 - 128) ≤ 57343))) = true) :
    utf8EncodeCp ((b - 224) * 4096 + (c1 - 128) * 64 + (c2 - 128)) = some [b, c1, c2] := by
  simp only [isCont, Bool.and_eq_true, decide_eq_true_eq, Bool.not_eq_true', Bool.and_eq_false_iff,
    decide_eq_false_iff_not] at hc
  obtain ⟨⟨⟨⟨a1, a2⟩, a3, a4⟩, a5⟩, a6⟩ := hc
  unfold utf8EncodeCp
  rw [if_neg (by omega), if_neg (by omega), if_neg (by omega), if_pos (by omega)]
  have e1 : 0xE0 + ((b - 224) * 4096 + (c1 - 128) * 64 + (c2 - 128)) / 4096 = b := by omega
  have e2 : 0x80 + ((b - 224) * 4096 + (c1 - 128) * 64 + (c2 - 128)) / 64 % 64 = c1 := by omega
  have e3 : 0x80 + ((b - 224) * 4096 + (c1 - 128) * 64 + (c2 - 128)) % 64 = c2 := by omega
  rw [e1, e2, e3]

theorem encCp4 (b c1 c2 c3 : Nat) (h1 : ¬ b < 240) (h2 : b < 245)
    (hc : (isCont c1 && isCont c2 && isCont c3 &&
      decide (65536 ≤ (b - 240) * 262144 + (c1 - 128) * 4096 + (c2 - 128) * 64 + (c3 - 128)) &&
      decide ((b - 240) * 262144 + (c1 - 128) * 4096 + (c2 - 128) * 64 + (c3 - 128) < 1114112)) = true) :
    utf8EncodeCp ((b - 240) * 262144 + (c1 - 128) * 4096 + (c2 - 128) * 64 + (c3 - 128)) = some [b, c1, c2, c3] := by
  simp only [isCont, Bool.and_eq_true, decide_eq_true_eq] at hc
  obtain ⟨⟨⟨⟨⟨a1, a2⟩, a3, a4⟩, a5, a6⟩, a7⟩, a8⟩ := hc
  unfold utf8EncodeCp
  rw [if_neg (by omega), if_neg (by omega), if_neg (by omega), if_neg (by omega), if_pos (by omega)]
  have e1 : 0xF0 + ((b - 240) * 262144 + (c1 - 128) * 4096 + (c2 - 128) * 64 + (c3 - 128)) / 262144 = b := by omega
  have e2 : 0x80 + ((b - 240) * 262144 + (c1 - 128) * 4096 + (c2 - 128) * 64 + (c3 - 128)) / 4096 % 64 = c1 := by omega
  have e3 : 0x80 + ((b - 240) * 262144 + (c1 - 128) * 4096 + (c2 - 128) * 64 + (c3 - 128)) / 64 % 64 = c2 := by omega
  have e4 : 0x80 + ((b - 240) * 262144 + (c1 - 128) * 4096 + (c2 - 128) * 64 + (c3 - 128)) % 64 = c3 := by omega
  rw [e1, e2, e3, e4]

theorem map_some_inv {α} (x : Option (List α)) (c : α) (s : List α) (h : x.map (c :: ·) = some s) :
    ∃ t, x = some t ∧ s = c :: t := by
  cases x with
  | none => simp at h
  | some t => simp at h; exact ⟨t, rfl, h.symm⟩

theorem mapM_cons_of {α β} (f : α → Option β) (a : α) (l : List α) (b : β) (bs : List β)
    (ha : f a = some b) (hl : l.mapM f = some bs) : (a :: l).mapM f = some (b :: bs) := by
  rw [List.mapM_cons, ha, hl]; rfl

/-- **decode, then encode**: strict decoding accepts only the canonical encoding of what it returns -/
theorem utf8_dec_enc (bs : List Nat) : ∀ (s : List Nat), utf8Decode bs = some s →
    ∃ bss, s.mapM utf8EncodeCp = some bss ∧ bss.flatten = bs := by
  fun_induction utf8Decode bs with
  | case1 => intro s h; cases h; exact ⟨[], by simp, rfl⟩
  | case2 b rest hb ih =>
    intro s h
    obtain ⟨t, ht, rfl⟩ := map_some_inv _ _ _ h
    obtain ⟨bss, h1, h2⟩ := ih t ht
    exact ⟨[b] :: bss, mapM_cons_of _ _ _ _ _ (encCp1 b hb) h1, by simp [h2]⟩
  | case3 => intro s h; cases h
  | case4 b h0 h1 h2 c1 r hc ih =>
    intro s h
    obtain ⟨t, ht, rfl⟩ := map_some_inv _ _ _ h
    obtain ⟨bss, e1, e2⟩ := ih t ht
    exact ⟨[b, c1] :: bss, mapM_cons_of _ _ _ _ _ (encCp2 b c1 h1 h2 hc) e1, by simp [e2]⟩
  | case5 => intro s h; cases h
  | case6 => intro s h; cases h
  | case7 b h0 h1 h2 h3 c1 c2 r cp hc ih =>
    intro s h
    obtain ⟨t, ht, rfl⟩ := map_some_inv _ _ _ h
    obtain ⟨bss, e1, e2⟩ := ih t ht
    exact ⟨[b, c1, c2] :: bss, mapM_cons_of _ _ _ _ _ (encCp3 b c1 c2 h2 h3 hc) e1, by simp [e2]⟩
  | case8 => intro s h; cases h
  | case9 => intro s h; cases h
  | case10 b h0 h1 h2 h3 h4 c1 c2 c3 r cp hc ih =>
    intro s h
    obtain ⟨t, ht, rfl⟩ := map_some_inv _ _ _ h
    obtain ⟨bss, e1, e2⟩ := ih t ht
    exact ⟨[b, c1, c2, c3] :: bss, mapM_cons_of _ _ _ _ _ (encCp4 b c1 c2 c3 h3 h4 hc) e1, by simp [e2]⟩
  | case11 => intro s h; cases h
  | case12 => intro s h; cases h
  | case13 => intro s h; cases h

/-- the text codec of the model for `utf-8`, both directions -/
theorem encodeText_utf8_rt (s p : List Nat) (h : encodeText .utf8 s = .ok p) :
    (∀ b ∈ p, b < 256) ∧ decodeText .utf8 p = .ok s := by
  simp only [encodeText] at h
  split at h
  · rename_i bss hb; cases h
    obtain ⟨h1, h2⟩ := utf8_enc_dec s bss hb
    exact ⟨h2, by simp [decodeText, h1]⟩
  · cases h

theorem decodeText_utf8_rt (bs s : List Nat) (h : decodeText .utf8 bs = .ok s) : encodeText .utf8 s = .ok bs := by
  simp only [decodeText] at h
  split at h
  · rename_i t ht; cases h
    obtain ⟨bss, h1, h2⟩ := utf8_dec_enc bs s ht
    simp [encodeText, h1, h2]
  · cases h

end Mido
