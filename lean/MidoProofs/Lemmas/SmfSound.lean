import MidoProofs.Lemmas.SmfEnc
import MidoProofs.Lemmas.Utf8
/-! Reader soundness: whatever `load` returns is storable again (C07, fixed point for arbitrary loadable bytes). -/
namespace Mido
open List

/-- a list of bytes -/
def Bytes (l : List Nat) : Prop := ∀ b ∈ l, b < 256

theorem Bytes.drop {l : List Nat} (h : Bytes l) (n : Nat) : Bytes (l.drop n) := fun b hb => h b (mem_of_mem_drop hb)
theorem Bytes.take {l : List Nat} (h : Bytes l) (n : Nat) : Bytes (l.take n) := fun b hb => h b (mem_of_mem_take hb)
theorem Bytes.tail {a : Nat} {l : List Nat} (h : Bytes (a :: l)) : Bytes l := fun b hb => h b (mem_cons_of_mem _ hb)

theorem decodeNats_valid (xs : List Nat) (m : Msg) (h : decodeNats xs = .ok m) : m.Valid := by
  have : decodeInts (xs.map Int.ofNat) = .ok m := by
    rw [← h]; simp only [decodeInts, decodeNats, map_map]; rfl
  exact (C02_sound _ m this).1

theorem checkByteItems_bytes (d : List Nat) (h : Bytes d) : checkByteItems (d.map natItem) = .ok () := by
  induction d with
  | nil => rfl
  | cons a r ih =>
    have ha := h a (by simp)
    simp only [map_cons, checkByteItems, natItem, checkByteItem, bind, Except.bind]
    have : (0 : Int) ≤ Int.ofNat a ∧ Int.ofNat a ≤ 255 := by
      simp only [Int.ofNat_eq_natCast]; constructor <;> omega
    simp only [this, and_self, if_true]
    exact ih (fun b hb => h b (by simp [hb]))

theorem key_entries_encode : ∀ e ∈ keyTable, (keyEncode (strCodes e.2)).isSome = true := by decide +kernel

theorem keyDecode_encodes (k : Int) (mode : Nat) (s : List Nat) (h : keyDecode k mode = some s) :
    (keyEncode s).isSome = true := by
  unfold keyDecode at h
  cases hf : keyTable.find? (fun e => e.1 == (k, mode)) with
  | none => rw [hf] at h; cases h
  | some e =>
    rw [hf] at h
    simp only [Option.map_some, Option.some.injEq] at h
    rw [← h]
    exact key_entries_encode e (mem_of_find?_eq_some hf)

theorem rate_entries : ∀ fr ∈ frameRates,
    (frameRateCode (if fr.2 % 100 = 0 then PyVal.nat (fr.2 / 100) else PyVal.flt (Int.ofNat fr.2))).isSome = true ∧
    ((if fr.2 % 100 = 0 then PyVal.nat (fr.2 / 100) else PyVal.flt (Int.ofNat fr.2)) == PyVal.int 24 ||
     (if fr.2 % 100 = 0 then PyVal.nat (fr.2 / 100) else PyVal.flt (Int.ofNat fr.2)) == PyVal.int 25 ||
     (if fr.2 % 100 = 0 then PyVal.nat (fr.2 / 100) else PyVal.flt (Int.ofNat fr.2)) == PyVal.flt 2997 ||
     (if fr.2 % 100 = 0 then PyVal.nat (fr.2 / 100) else PyVal.flt (Int.ofNat fr.2)) == PyVal.int 30) = true := by
  decide +kernel

theorem tempo_bound (a b c : Nat) (ha : a < 256) (hb : b < 256) (hc : c < 256) :
    (a <<< 16) ||| (b <<< 8) ||| c ≤ 0xffffff := by
  have h1 : a <<< 16 < 2 ^ 24 := by rw [Nat.shiftLeft_eq]; omega
  have h2 : b <<< 8 < 2 ^ 24 := by rw [Nat.shiftLeft_eq]; omega
  have h3 : c < 2 ^ 24 := by omega
  have := Nat.or_lt_two_pow (Nat.or_lt_two_pow h1 h2) h3
  omega

theorem seq_bound (a b : Nat) (ha : a < 256) (hb : b < 256) : (a <<< 8) ||| b ≤ 0xffff := by
  have h1 : a <<< 8 < 2 ^ 16 := by rw [Nat.shiftLeft_eq]; omega
  have h2 : b < 2 ^ 16 := by omega
  have := Nat.or_lt_two_pow h1 h2
  omega

/-- what a decoded meta message satisfies -/
def SoundMeta (cs : Charset) (m : MetaMsg) : Prop :=
  m.check = .ok () ∧ m.normal = true ∧ ∀ p, metaPayload cs m = .ok p → p.length ≤ maxMessageLength

theorem text_sound (cs : Charset) (t : MetaType) (ht : t.isText = true) (data s : List Nat) (hb : Bytes data)
    (hlen : data.length ≤ maxMessageLength) (h : decodeText cs data = .ok s) : SoundMeta cs ⟨t, [.str s]⟩ := by
  have henc : encodeText cs s = .ok data := by
    cases cs with
    | latin1 =>
      simp [decodeText] at h; subst h
      have : (data.all (· < 256)) = true := all_eq_true.mpr (fun b hm => by simpa using hb b hm)
      simp [encodeText, this]
    | ascii =>
      simp only [decodeText] at h
      split at h
      · rename_i ha; cases h; simp [encodeText, ha]
      · cases h
    | utf8 => exact decodeText_utf8_rt data s h
  refine ⟨?_, ?_, ?_⟩
  · cases t <;> simp [MetaType.isText] at ht <;> rfl
  · cases t <;> simp [MetaType.isText] at ht <;> rfl
  · intro p hp
    have : metaPayload cs ⟨t, [.str s]⟩ = encodeText cs s := by
      cases t <;> simp [MetaType.isText] at ht <;> simp [metaPayload, MetaType.isText]
    rw [this, henc] at hp
    cases hp; exact hlen

theorem natInt_range (a : Nat) (hi : Int) (h : (a : Int) ≤ hi) : (0 : Int) ≤ (a : Int) ∧ (a : Int) ≤ hi := by
  constructor <;> omega

/-- **Decoder soundness**: every meta message the reader builds from bytes passes its own checks,
    is in normal form, and encodes to a payload within the reader's limit. -/
theorem decode_sound (cs : Charset) (t : MetaType) (data : List Nat) (hb : Bytes data)
    (hlen : data.length ≤ maxMessageLength) (vs : List PyVal) (h : metaDecodePayload cs t data = .ok vs) :
    SoundMeta cs ⟨t, vs⟩ := by
  have hmax : (5 : Nat) ≤ maxMessageLength := by decide
  cases t with
  | text | copyright | track_name | instrument_name | lyrics | marker | cue_marker | device_name =>
    simp only [metaDecodePayload] at h
    cases hd : decodeText cs data with
    | error e => rw [hd] at h; cases h
    | ok s =>
      rw [hd] at h; simp only [Except.map, Except.ok.injEq] at h; subst h
      exact text_sound cs _ rfl data s hb hlen hd
  | sequence_number =>
    simp only [metaDecodePayload] at h
    match data, hb, h with
    | [], _, h => cases h; exact ⟨by decide, by decide, by intro p hp; cases hp; decide⟩
    | [_], _, h => cases h
    | a :: b :: r, hb, h =>
      cases h
      have ha := hb a (by simp); have hb' := hb b (by simp)
      have hr := natInt_range ((a <<< 8) ||| b) 0xffff (by have := seq_bound a b ha hb'; omega)
      refine ⟨?_, rfl, by intro p hp; simp [metaPayload] at hp; rw [← hp]; simp [maxMessageLength]⟩
      simp only [MetaMsg.check, MetaType.attrs, length_cons, length_nil, ne_eq, not_true_eq_false, if_false,
        checkAttrsFrom, metaCheckAttr, PyVal.nat, checkInt, bind, Except.bind]
      simp [hr.1, hr.2]
  | channel_prefix =>
    simp only [metaDecodePayload] at h
    match data, hb, h with
    | [], _, h => cases h
    | a :: r, hb, h =>
      cases h
      have ha := hb a (by simp)
      have hr := natInt_range a 255 (by omega)
      refine ⟨?_, rfl, by intro p hp; simp [metaPayload] at hp; rw [← hp]; simp [maxMessageLength]⟩
      simp only [MetaMsg.check, MetaType.attrs, length_cons, length_nil, ne_eq, not_true_eq_false, if_false,
        checkAttrsFrom, metaCheckAttr, PyVal.nat, checkInt, bind, Except.bind]
      simp [hr.1, hr.2]
  | midi_port =>
    simp only [metaDecodePayload] at h
    match data, hb, h with
    | [], _, h => cases h; exact ⟨by decide, by decide, by intro p hp; cases hp; decide⟩
    | a :: r, hb, h =>
      cases h
      have ha := hb a (by simp)
      have hr := natInt_range a 255 (by omega)
      refine ⟨?_, rfl, by intro p hp; simp [metaPayload] at hp; rw [← hp]; simp [maxMessageLength]⟩
      simp only [MetaMsg.check, MetaType.attrs, length_cons, length_nil, ne_eq, not_true_eq_false, if_false,
        checkAttrsFrom, metaCheckAttr, PyVal.nat, checkInt, bind, Except.bind]
      simp [hr.1, hr.2]
  | end_of_track =>
    simp only [metaDecodePayload, Except.ok.injEq] at h; subst h
    exact ⟨by decide, by decide, by intro p hp; cases hp; decide⟩
  | set_tempo =>
    simp only [metaDecodePayload] at h
    match data, hb, h with
    | [], _, h => cases h
    | [_], _, h => cases h
    | [_, _], _, h => cases h
    | a :: b :: c :: r, hb, h =>
      cases h
      have ha := hb a (by simp); have hb' := hb b (by simp); have hc := hb c (by simp)
      have hr := natInt_range ((a <<< 16) ||| (b <<< 8) ||| c) 0xffffff (by have := tempo_bound a b c ha hb' hc; omega)
      refine ⟨?_, rfl, by intro p hp; simp [metaPayload] at hp; rw [← hp]; simp [maxMessageLength]⟩
      simp only [MetaMsg.check, MetaType.attrs, length_cons, length_nil, ne_eq, not_true_eq_false, if_false,
        checkAttrsFrom, metaCheckAttr, PyVal.nat, checkInt, bind, Except.bind]
      simp [hr.1, hr.2]
  | time_signature =>
    simp only [metaDecodePayload] at h
    match data, hb, h with
    | [], _, h => cases h
    | [_], _, h => cases h
    | [_, _], _, h => cases h
    | [_, _, _], _, h => cases h
    | a :: b :: c :: d :: r, hb, h =>
      cases h
      have ha := hb a (by simp); have hb' := hb b (by simp); have hc := hb c (by simp); have hd := hb d (by simp)
      have r1 := natInt_range a 255 (by omega)
      have r3 := natInt_range c 255 (by omega)
      have r4 := natInt_range d 255 (by omega)
      have hden := C09_accepts_denominator b (by omega)
      refine ⟨?_, rfl, by intro p hp; simp [metaPayload] at hp; rw [← hp]; simp [maxMessageLength]⟩
      have c0 : metaCheckAttr .time_signature 0 (PyVal.nat a) = .ok () := by
        simp [metaCheckAttr, PyVal.nat, checkInt, r1.1, r1.2]
      have c2 : metaCheckAttr .time_signature 2 (PyVal.nat c) = .ok () := by
        simp [metaCheckAttr, PyVal.nat, checkInt, r3.1, r3.2]
      have c3 : metaCheckAttr .time_signature 3 (PyVal.nat d) = .ok () := by
        simp [metaCheckAttr, PyVal.nat, checkInt, r4.1, r4.2]
      have c1 : metaCheckAttr .time_signature 1 (PyVal.nat (2 ^ b)) = .ok () := by
        simpa [PyVal.nat] using hden
      simp only [MetaMsg.check, MetaType.attrs, length_cons, length_nil, ne_eq, not_true_eq_false, if_false,
        checkAttrsFrom, bind, Except.bind, c0, c1, c2, c3]
  | key_signature =>
    simp only [metaDecodePayload] at h
    match data, hb, h with
    | [], _, h => cases h
    | [_], _, h => cases h
    | a :: b :: r, hb, h =>
      simp only [] at h
      cases hk : keyDecode (signedByte a) b with
      | none => rw [hk] at h; cases h
      | some k =>
        rw [hk] at h; cases h
        have henc := keyDecode_encodes _ _ k hk
        refine ⟨?_, rfl, ?_⟩
        · simp [MetaMsg.check, MetaType.attrs, checkAttrsFrom, metaCheckAttr, hashable, henc, bind, Except.bind]
        · intro p hp
          simp only [metaPayload] at hp
          cases he : keyEncode k with
          | none => rw [he] at hp; cases hp
          | some km => rw [he] at hp; simp at hp; rw [← hp]; simp [maxMessageLength]
  | sequencer_specific =>
    simp only [metaDecodePayload, Except.ok.injEq] at h; subst h
    refine ⟨?_, rfl, ?_⟩
    · simp [MetaMsg.check, MetaType.attrs, checkAttrsFrom, metaCheckAttr, checkByteItems_bytes data hb, bind, Except.bind]
    · intro p hp
      simp only [metaPayload, itemsOf, Except.ok.injEq] at hp
      rw [← hp]; simpa using hlen
  | smpte_offset =>
    simp only [metaDecodePayload] at h
    match data, hb, h with
    | [], _, h => cases h
    | a :: r1, hb, h =>
      simp only [] at h
      cases hf : frameRates.find? (fun r => r.1 == a >>> 5) with
      | none => rw [hf] at h; cases h
      | some fr =>
        rw [hf] at h
        simp only [] at h
        have hfr := rate_entries fr (mem_of_find?_eq_some hf)
        match r1, hb, h with
        | [], _, h => cases h
        | b :: r2, hb, h =>
          simp only [] at h
          split at h
          · cases h
          · rename_i hb59
            match r2, hb, h with
            | [], _, h => cases h
            | c :: r3, hb, h =>
              simp only [] at h
              split at h
              · cases h
              · rename_i hc59
                match r3, hb, h with
                | [], _, h => cases h
                | d :: r4, hb, h =>
                  simp only [] at h
                  match r4, hb, h with
                  | [], _, h => cases h
                  | e :: r5, hb, h =>
                    simp only [] at h
                    split at h
                    · cases h
                    · rename_i he99
                      cases h
                      have hd := hb d (by simp)
                      have hh : a &&& 0x1f ≤ 31 := Nat.and_le_right
                      have rh := natInt_range (a &&& 0x1f) 255 (by omega)
                      have rb := natInt_range b 59 (by omega)
                      have rc := natInt_range c 59 (by omega)
                      have rd := natInt_range d 255 (by omega)
                      have re := natInt_range e 99 (by omega)
                      refine ⟨?_, ?_, ?_⟩
                      · simp only [MetaMsg.check, MetaType.attrs, length_cons, length_nil, ne_eq, not_true_eq_false,
                          if_false, checkAttrsFrom, bind, Except.bind]
                        have c0gen : ∀ v, metaCheckAttr .smpte_offset 0 v =
                            if (frameRateCode v).isSome then .ok () else .error .TypeError := by
                          intro v; simp [metaCheckAttr]
                        have c0 : metaCheckAttr .smpte_offset 0
                            (if fr.2 % 100 = 0 then PyVal.nat (fr.2 / 100) else PyVal.flt (Int.ofNat fr.2)) = .ok () := by
                          rw [c0gen, hfr.1]; rfl
                        have c1 : metaCheckAttr .smpte_offset 1 (PyVal.nat (a &&& 0x1f)) = .ok () := by
                          simp [metaCheckAttr, PyVal.nat, checkInt, rh.1, rh.2]
                        have c2 : metaCheckAttr .smpte_offset 2 (PyVal.nat b) = .ok () := by
                          simp [metaCheckAttr, PyVal.nat, checkInt, rb.1, rb.2]
                        have c3 : metaCheckAttr .smpte_offset 3 (PyVal.nat c) = .ok () := by
                          simp [metaCheckAttr, PyVal.nat, checkInt, rc.1, rc.2]
                        have c4 : metaCheckAttr .smpte_offset 4 (PyVal.nat d) = .ok () := by
                          simp [metaCheckAttr, PyVal.nat, checkInt, rd.1, rd.2]
                        have c5 : metaCheckAttr .smpte_offset 5 (PyVal.nat e) = .ok () := by
                          simp [metaCheckAttr, PyVal.nat, checkInt, re.1, re.2]
                        simp only [c0, c1, c2, c3, c4, c5]
                      · have hlt : (Int.ofNat (a &&& 0x1f)) < 32 := by simp only [Int.ofNat_eq_natCast]; omega
                        simp only [MetaMsg.normal, PyVal.nat, Bool.and_eq_true, decide_eq_true_eq]
                        exact ⟨hfr.2, hlt⟩
                      · intro p hp
                        simp only [metaPayload] at hp
                        split at hp
                        · simp at hp; rw [← hp]; simp [maxMessageLength]
                        · cases hp

/-- what every loaded event satisfies -/
def SoundEv (cs : Charset) : FEv → Prop
  | .msg m => m.Valid ∧ (∀ d, m = .sysex d → d.length ≤ maxMessageLength)
  | .metaEv mm => SoundMeta cs mm
  | .unknownMeta tb data => MetaType.ofByte tb = none ∧ tb < 256 ∧ data.all (· < 256) = true ∧
      data.length ≤ maxMessageLength

theorem readVlqAcc_bytes (bs : List Nat) : ∀ (acc n : Nat) (rest : List Nat), Bytes bs →
    readVlqAcc acc bs = .ok (n, rest) → Bytes rest := by
  induction bs with
  | nil => intro acc n rest _ h; simp [readVlqAcc] at h
  | cons b r ih =>
    intro acc n rest hb h
    simp only [readVlqAcc] at h
    split at h
    · simp only [Except.ok.injEq, Prod.mk.injEq] at h; rw [← h.2]; exact hb.tail
    · exact ih _ n rest hb.tail h

theorem readBytes_spec (size : Nat) (bs d r : List Nat) (h : readBytes size bs = .ok (d, r)) :
    d = bs.take size ∧ r = bs.drop size ∧ d.length ≤ maxMessageLength := by
  unfold readBytes at h
  split at h
  · cases h
  · split at h
    · cases h
    · rename_i h1 h2
      simp only [Except.ok.injEq, Prod.mk.injEq] at h
      refine ⟨h.1.symm, h.2.symm, ?_⟩
      rw [← h.1, length_take]; omega

theorem stripF0_length (d : List Nat) : (stripF0 d).length ≤ d.length := by
  unfold stripF0; split <;> simp

theorem sysex_strip_len (data : List Nat) :
    (if (stripF0 data).getLast? = some 0xf7 then (stripF0 data).dropLast else stripF0 data).length ≤ data.length := by
  have h1 := stripF0_length data
  split
  · simp only [length_dropLast]; omega
  · exact h1

theorem readSysex_sound (cs : Charset) (bs : List Nat) (hb : Bytes bs) (ev : FEv) (rest : List Nat)
    (h : readSysex false bs = .ok (ev, rest)) : SoundEv cs ev ∧ Bytes rest := by
  unfold readSysex at h
  simp only [bind, Except.bind] at h
  cases hv : readVlq bs with
  | error e => rw [hv] at h; cases h
  | ok p =>
    obtain ⟨len, r1⟩ := p
    rw [hv] at h; simp only at h
    have hb1 := readVlqAcc_bytes bs 0 len r1 hb hv
    cases hr : readBytes len r1 with
    | error e => rw [hr] at h; cases h
    | ok q =>
      obtain ⟨data, r2⟩ := q
      rw [hr] at h; simp only [Bool.false_eq_true, if_false] at h
      obtain ⟨hd, hr2, hlen⟩ := readBytes_spec len r1 data r2 hr
      have hsl := sysex_strip_len data
      generalize (if (stripF0 data).getLast? = some 0xf7 then (stripF0 data).dropLast else stripF0 data) = d2 at h hsl
      by_cases hall : d2.all (· ≤ 127) = true
      · rw [if_pos hall] at h
        simp only [pure, Except.pure, Except.ok.injEq, Prod.mk.injEq] at h
        obtain ⟨rfl, rfl⟩ := h
        refine ⟨⟨hall, ?_⟩, by rw [hr2]; exact hb1.drop _⟩
        intro d hd'
        cases hd'
        omega
      · rw [if_neg hall] at h
        simp [throw, throwThe, MonadExceptOf.throw] at h

theorem buildMeta_sound (cs : Charset) (ty : Nat) (hty : ty < 256) (data : List Nat) (hbd : Bytes data)
    (hlen : data.length ≤ maxMessageLength) (me : MetaEvent) (h : buildMeta cs ty data = .ok me) :
    match me with
    | .known m => SoundEv cs (.metaEv m)
    | .unknown tb d => SoundEv cs (.unknownMeta tb d) := by
  unfold buildMeta at h
  cases ho : MetaType.ofByte ty with
  | none =>
    rw [ho] at h
    simp only [Except.ok.injEq] at h; subst h
    exact ⟨ho, hty, by apply all_eq_true.mpr; intro x hx; simpa using hbd x hx, hlen⟩
  | some t =>
    rw [ho] at h
    simp only [] at h
    cases hdp : metaDecodePayload cs t data with
    | error e => rw [hdp] at h; cases h
    | ok vs =>
      rw [hdp] at h
      simp only [Except.map, Except.ok.injEq] at h; subst h
      exact decode_sound cs t data hbd hlen vs hdp

theorem readMeta_sound (cs : Charset) (bs : List Nat) (hb : Bytes bs) (ev : FEv) (rest : List Nat)
    (h : readMeta cs bs = .ok (ev, rest)) : SoundEv cs ev ∧ Bytes rest := by
  unfold readMeta at h
  match bs, hb, h with
  | [], _, h => cases h
  | ty :: r0, hb, h =>
    simp only [bind, Except.bind] at h
    have hty := hb ty (by simp)
    cases hv : readVlq r0 with
    | error e => rw [hv] at h; cases h
    | ok p =>
      obtain ⟨len, r1⟩ := p
      rw [hv] at h; simp only at h
      have hb1 := readVlqAcc_bytes r0 0 len r1 hb.tail hv
      cases hr : readBytes len r1 with
      | error e => rw [hr] at h; cases h
      | ok q =>
        obtain ⟨data, r2⟩ := q
        rw [hr] at h; simp only at h
        obtain ⟨hd, hr2, hlen⟩ := readBytes_spec len r1 data r2 hr
        have hbd : Bytes data := by rw [hd]; exact hb1.take _
        have hbr : Bytes r2 := by rw [hr2]; exact hb1.drop _
        cases hbm : buildMeta cs ty data with
        | error e => rw [hbm] at h; cases h
        | ok me =>
          rw [hbm] at h
          have hs := buildMeta_sound cs ty hty data hbd hlen me hbm
          cases me with
          | known m =>
            simp only [pure, Except.pure, Except.ok.injEq, Prod.mk.injEq] at h
            obtain ⟨rfl, rfl⟩ := h
            exact ⟨hs, hbr⟩
          | unknown tb d =>
            simp only [pure, Except.pure, Except.ok.injEq, Prod.mk.injEq] at h
            obtain ⟨rfl, rfl⟩ := h
            exact ⟨hs, hbr⟩

theorem readChannelish_sound (cs : Charset) (st : Nat) (hst : st ≠ 0xf0) (peek bs : List Nat) (hb : Bytes bs) (ev : FEv)
    (rest : List Nat) (h : readChannelish false st peek bs = .ok (ev, rest)) : SoundEv cs ev ∧ Bytes rest := by
  unfold readChannelish at h
  by_cases hdef : definedStatus st = true
  · simp only [hdef, Bool.not_true, Bool.false_eq_true, if_false, Bool.not_false, Bool.true_and] at h
    generalize hsz : (match specLen st with | some n => n | none => 0) - 1 - peek.length = size at h
    by_cases hl : bs.length < size
    · rw [if_pos hl] at h; cases h
    · rw [if_neg hl] at h
      by_cases hany : (peek ++ take size bs).any (· > 127) = true
      · rw [if_pos hany] at h; cases h
      · rw [if_neg hany] at h
        cases hm : decodeNats (st :: (peek ++ take size bs)) with
        | error e => rw [hm] at h; cases h
        | ok m =>
          rw [hm] at h
          simp only [Except.ok.injEq, Prod.mk.injEq] at h
          obtain ⟨rfl, rfl⟩ := h
          have hv := decodeNats_valid _ m hm
          refine ⟨⟨hv, ?_⟩, hb.drop _⟩
          intro d hd
          subst hd
          exfalso
          have hdi : decodeInts ((st :: (peek ++ take size bs)).map Int.ofNat) = .ok (.sysex d) := by
            rw [← hm]; simp only [decodeInts, decodeNats, map_map]; rfl
          have hs := (C02_sound _ _ hdi).2
          simp only [encode, map_cons, cons_append, nil_append, cons.injEq] at hs
          exact hst (Int.ofNat.inj hs.1).symm
  · simp only [hdef, Bool.not_false, if_true] at h; cases h

/-- the common tail of the six branches of `readEvent` -/
theorem branch_sound (cs : Charset) (x : Except Err (FEv × List Nat)) (delta : Nat) (l : Option Nat)
    (e : LEvent) (rest : List Nat) (last' : Option Nat)
    (h : (do let (ev, r) ← x; pure ((⟨ev, delta⟩ : LEvent), r, l) : Except Err (LEvent × List Nat × Option Nat)) = .ok (e, rest, last'))
    (hs : ∀ ev r, x = .ok (ev, r) → SoundEv cs ev ∧ Bytes r) : SoundEv cs e.ev ∧ Bytes rest := by
  cases x with
  | error er => cases h
  | ok v =>
    obtain ⟨ev, r⟩ := v
    simp only [bind, Except.bind, pure, Except.pure, Except.ok.injEq, Prod.mk.injEq] at h
    obtain ⟨rfl, rfl, _⟩ := h
    exact hs ev r rfl

theorem readEvent_sound (cs : Charset) (last : Option Nat) (bs : List Nat) (hb : Bytes bs)
    (e : LEvent) (rest : List Nat) (last' : Option Nat)
    (h : readEvent cs false last bs = .ok (e, rest, last')) : SoundEv cs e.ev ∧ Bytes rest := by
  unfold readEvent at h
  cases hv : readVlq bs with
  | error er => rw [hv] at h; cases h
  | ok p =>
    obtain ⟨delta, r1⟩ := p
    rw [hv] at h
    have hb1 := readVlqAcc_bytes bs 0 delta r1 hb hv
    match r1, hb1, h with
    | [], _, h => cases h
    | sb :: r2, hb1, h =>
      have hb2 : Bytes r2 := hb1.tail
      simp only [bind, Except.bind] at h
      by_cases hsb : sb < 0x80
      · simp only [hsb, if_true] at h
        cases last with
        | none => cases h
        | some st =>
          simp only [] at h
          by_cases h1 : st = 0xff
          · simp only [h1, if_true] at h
            exact branch_sound cs (readMeta cs r2) delta _ e rest last' h (fun ev r hx => readMeta_sound cs r2 hb2 ev r hx)
          · simp only [h1, if_false] at h
            by_cases h2 : st = 0xf0 ∨ st = 0xf7
            · simp only [h2, if_true] at h
              exact branch_sound cs (readSysex false r2) delta _ e rest last' h (fun ev r hx => readSysex_sound cs r2 hb2 ev r hx)
            · simp only [h2, if_false] at h
              exact branch_sound cs (readChannelish false st [sb] r2) delta _ e rest last' h
                (fun ev r hx => readChannelish_sound cs st (fun e0 => h2 (Or.inl e0)) [sb] r2 hb2 ev r hx)
      · simp only [hsb, if_false] at h
        by_cases h1 : sb = 0xff
        · simp only [h1, if_true] at h
          exact branch_sound cs (readMeta cs r2) delta _ e rest last' h (fun ev r hx => readMeta_sound cs r2 hb2 ev r hx)
        · simp only [h1, if_false] at h
          by_cases h2 : sb = 0xf0 ∨ sb = 0xf7
          · simp only [h2, if_true] at h
            exact branch_sound cs (readSysex false r2) delta _ e rest last' h (fun ev r hx => readSysex_sound cs r2 hb2 ev r hx)
          · simp only [h2, if_false] at h
            exact branch_sound cs (readChannelish false sb [] r2) delta _ e rest last' h
              (fun ev r hx => readChannelish_sound cs sb (fun e0 => h2 (Or.inl e0)) [] r2 hb2 ev r hx)

theorem readEvents_sound (cs : Charset) (size : Nat) (fuel : Nat) : ∀ (consumed : Nat) (last : Option Nat)
    (bs : List Nat) (evs : List LEvent) (rest : List Nat), Bytes bs →
    readEvents cs false size fuel consumed last bs = .ok (evs, rest) →
    (∀ e ∈ evs, SoundEv cs e.ev) ∧ Bytes rest := by
  induction fuel with
  | zero => intro _ _ _ _ _ _ h; simp [readEvents] at h
  | succ f ih =>
    intro consumed last bs evs rest hb h
    rw [readEvents] at h
    split at h
    · simp only [Except.ok.injEq, Prod.mk.injEq] at h
      obtain ⟨rfl, rfl⟩ := h
      exact ⟨(fun e he => by cases he), hb⟩
    · simp only [bind, Except.bind] at h
      cases he : readEvent cs false last bs with
      | error er => rw [he] at h; cases h
      | ok p =>
        obtain ⟨e, r, l'⟩ := p
        rw [he] at h; simp only at h
        obtain ⟨hse, hbr⟩ := readEvent_sound cs last bs hb e r l' he
        cases hr : readEvents cs false size f (consumed + (bs.length - r.length)) l' r with
        | error er => rw [hr] at h; cases h
        | ok q =>
          obtain ⟨es, r'⟩ := q
          rw [hr] at h
          simp only [pure, Except.pure, Except.ok.injEq, Prod.mk.injEq] at h
          obtain ⟨rfl, rfl⟩ := h
          obtain ⟨hes, hbr'⟩ := ih _ l' r es r' hbr hr
          refine ⟨?_, hbr'⟩
          intro x hx
          rcases mem_cons.mp hx with rfl | hx
          · exact hse
          · exact hes x hx

theorem readTracks_sound (cs : Charset) (n : Nat) : ∀ (bs : List Nat) (ts : List (List LEvent)),
    Bytes bs → readTracks cs false n bs = .ok ts → ∀ t ∈ ts, ∀ e ∈ t, SoundEv cs e.ev := by
  induction n with
  | zero => intro bs ts _ h; simp only [readTracks, Except.ok.injEq] at h; subst h; intro t ht; cases ht
  | succ k ih =>
    intro bs ts hb h
    simp only [readTracks, bind, Except.bind] at h
    cases ht : readTrack cs false bs with
    | error er => rw [ht] at h; cases h
    | ok p =>
      obtain ⟨t, rest⟩ := p
      rw [ht] at h; simp only at h
      have hts : (∀ e ∈ t, SoundEv cs e.ev) ∧ Bytes rest := by
        unfold readTrack at ht
        split at ht
        · cases ht
        · split at ht
          · cases ht
          · exact readEvents_sound cs _ _ 0 none _ t rest (hb.drop 8) ht
      cases hr : readTracks cs false k rest with
      | error er => rw [hr] at h; cases h
      | ok ts' =>
        rw [hr] at h
        simp only [pure, Except.pure, Except.ok.injEq] at h; subst h
        intro t' ht' e he
        rcases mem_cons.mp ht' with rfl | ht'
        · exact hts.1 e he
        · exact ih rest ts' hts.2 hr t' ht' e he

/-- **Reader soundness**: every event of every track of a loaded file is sound -/
theorem readFile_sound (cs : Charset) (bs : List Nat) (hb : Bytes bs) (L : LFile)
    (h : readFile cs false bs = .ok L) : ∀ t ∈ L.tracks, ∀ e ∈ t, SoundEv cs e.ev := by
  unfold readFile at h
  split at h
  · cases h
  · split at h
    · cases h
    · simp only [] at h
      split at h
      · simp only [bind, Except.bind] at h
        rename_i a b c d e f _ _
        cases hr : readTracks cs false (s16 c d).toNat (drop (be32 (take 4 (drop 4 bs))) (drop 8 bs)) with
        | error er => rw [hr] at h; cases h
        | ok ts =>
          rw [hr] at h
          simp only [pure, Except.pure, Except.ok.injEq] at h; subst h
          exact readTracks_sound cs _ _ ts ((hb.drop 8).drop _) hr
      · cases h

/-- the two notions of "real-time message" agree on valid messages -/
theorem msg_rt_iff (m : Msg) (hv : m.Valid) : (FEv.msg m).isRealtime = m.isRealtime := by
  cases m with
  | chan3 k ch d1 d2 =>
    simp only [Msg.Valid, Msg.valid, Bool.and_eq_true, decide_eq_true_eq] at hv
    have hb := (chan_or k.base (by cases k <;> simp [C3.base]) ch (by omega)).1
    have : k.base + ch < 0xF8 := by cases k <;> simp only [C3.base] <;> omega
    simp [FEv.isRealtime, Msg.isRealtime, Msg.status, hb]; omega
  | chan2 k ch d1 =>
    simp only [Msg.Valid, Msg.valid, Bool.and_eq_true, decide_eq_true_eq] at hv
    have hb := (chan_or k.base (by cases k <;> simp [C2.base]) ch (by omega)).1
    have : k.base + ch < 0xF8 := by cases k <;> simp only [C2.base] <;> omega
    simp [FEv.isRealtime, Msg.isRealtime, Msg.status, hb]; omega
  | pitchwheel ch p =>
    simp only [Msg.Valid, Msg.valid, Bool.and_eq_true, decide_eq_true_eq] at hv
    have hb := (chan_or 0xe0 (by simp) ch (by omega)).1
    simp [FEv.isRealtime, Msg.isRealtime, Msg.status, hb]; omega
  | sysex d => simp [FEv.isRealtime, Msg.isRealtime, Msg.status]
  | quarter_frame a b => simp [FEv.isRealtime, Msg.isRealtime, Msg.status]
  | songpos p => simp [FEv.isRealtime, Msg.isRealtime, Msg.status]
  | song_select p => simp [FEv.isRealtime, Msg.isRealtime, Msg.status]
  | sys1 k => cases k <;> simp [FEv.isRealtime, Msg.isRealtime, Msg.status, S1.status]

/-- a sound event that is not a real-time message and whose sysex payload is below the limit is storable -/
theorem sound_storable (cs : Charset) (ev : FEv) (hs : SoundEv cs ev) (hnr : ev.isRealtime = false)
    (hsx : ∀ d, ev = .msg (.sysex d) → d.length + 1 ≤ maxMessageLength) : StorableEv cs ev := by
  cases ev with
  | msg m =>
    refine ⟨hs.1, ?_, ?_⟩
    · rw [← msg_rt_iff m hs.1]; exact hnr
    · intro d hd; exact hsx d (by rw [hd])
  | metaEv mm => exact ⟨hs.1, hs.2.1, hs.2.2⟩
  | unknownMeta tb data => exact hs

theorem writeTracks_mem (cs : Charset) (trs : List (List TEvent)) : ∀ (b : List Nat), writeTracks cs trs = .ok b →
    ∀ tr ∈ trs, ∃ bt, writeTrack cs tr = .ok bt := by
  induction trs with
  | nil => intro _ _ tr h; cases h
  | cons t ts ih =>
    intro b hw tr htr
    simp only [writeTracks, bind, Except.bind] at hw
    cases ha : writeTrack cs t with
    | error e => rw [ha] at hw; cases hw
    | ok a =>
      rw [ha] at hw; simp only at hw
      cases hb : writeTracks cs ts with
      | error e => rw [hb] at hw; cases hw
      | ok b' =>
        rcases mem_cons.mp htr with rfl | h
        · exact ⟨a, ha⟩
        · exact ih b' hb tr h

end Mido
