import MidoProofs.Props.C11
/-! Iteration over a device port whose device closes itself at any point (C11). -/
namespace Mido
open List

/-- everything the port holds or its device will still deliver -/
def Port.pendingAll (p : Port) : List Nat := p.queue ++ p.script.flatMap (·.1)

theorem close_queue_script (p : Port) (hk : p.kind = .dev) : p.close.queue = p.queue ∧ p.close.script = p.script ∧
    p.close.kind = .dev := by
  have := close_fields p hk
  exact ⟨this.1, this.2.2.1, by rw [this.2.2.2, hk]⟩

theorem close_closed (p : Port) : p.close.closed = true := by
  unfold Port.close
  by_cases h : p.closed = true <;> simp [h]

/-- one environment step conserves the messages, keeps the kind and never re-opens the port -/
theorem envStep_conserve (p : Port) (hk : p.kind = .dev) :
    p.envStep.pendingAll = p.pendingAll ∧ p.envStep.kind = .dev ∧ (p.closed = true → p.envStep.closed = true) := by
  obtain ⟨k, c, q, a, sc, l, sl, b⟩ := p
  simp only at hk; subst hk
  unfold Port.envStep
  cases sc with
  | nil => exact ⟨rfl, rfl, id⟩
  | cons st rest =>
    obtain ⟨arr, cl⟩ := st
    simp only []
    by_cases hc : cl = true
    · subst hc
      simp only [if_true]
      have hf := close_queue_script (⟨.dev, c, q ++ arr, a, rest, l, sl, b⟩ : Port) rfl
      refine ⟨?_, hf.2.2, fun _ => close_closed _⟩
      simp only [Port.pendingAll, hf.1, hf.2.1, flatMap_cons, append_assoc]
    · rw [if_neg hc]
      exact ⟨by simp [Port.pendingAll, flatMap_cons], rfl, id⟩

/-- the polling loop of a blocking receive: outcome and conservation -/
theorem recvLoop_true_spec (fuel : Nat) (p : Port) : p.kind = .dev →
    (Port.recvLoop true fuel p).1.kind = .dev ∧
    (match (Port.recvLoop true fuel p).2 with
      | .msg m => m :: (Port.recvLoop true fuel p).1.pendingAll = p.pendingAll
      | .raised e => e = .OSError ∧ (Port.recvLoop true fuel p).1.closed = true ∧
          (Port.recvLoop true fuel p).1.queue = [] ∧ (Port.recvLoop true fuel p).1.pendingAll = p.pendingAll
      | .hang => (Port.recvLoop true fuel p).1.pendingAll = p.pendingAll
      | .none => False) := by
  fun_induction Port.recvLoop true fuel p with
  | case1 p => intro hk; simp [hk]
  | case2 f p p1 m q hq =>
    intro hk
    obtain ⟨hcons, hk1, _⟩ := envStep_conserve p hk
    refine ⟨hk1, ?_⟩
    simp only []
    rw [← hcons]
    simp [Port.pendingAll, p1, hq]
  | case3 f p p1 hq hb => simp at hb
  | case4 f p p1 hq hb hc =>
    intro hk
    obtain ⟨hcons, hk1, _⟩ := envStep_conserve p hk
    exact ⟨hk1, rfl, hc, hq, hcons⟩
  | case5 f p p1 hq hb hc ih =>
    intro hk
    obtain ⟨hcons, hk1, _⟩ := envStep_conserve p hk
    have hp : ({ p1 with sleeps := p1.sleeps + 1 } : Port).pendingAll = p.pendingAll := by
      rw [← hcons]; rfl
    have := ih hk1
    rw [hp] at this
    exact this

/-- a blocking `receive()` on a device port: a message, or an exception on a closed drained port -/
theorem receive_true_spec (p : Port) (hk : p.kind = .dev) :
    (p.receive true).1.kind = .dev ∧
    (match (p.receive true).2 with
      | .msg m => m :: (p.receive true).1.pendingAll = p.pendingAll ∧ (p.closed = true → (p.receive true).1.closed = true)
      | .raised e => (e = .OSError ∨ e = .ValueError) ∧ (p.receive true).1.closed = true ∧
          (p.receive true).1.queue = [] ∧ (p.receive true).1.pendingAll = p.pendingAll
      | .hang => (p.receive true).1.pendingAll = p.pendingAll
      | .none => False) := by
  unfold Port.receive
  cases hq : p.queue with
  | cons m q => simp [hk, Port.pendingAll, hq]
  | nil =>
    simp only []
    by_cases hc : p.closed = true
    · simp [hc, hk, hq]
    · rw [if_neg hc]
      have := recvLoop_true_spec p.fuel p hk
      refine ⟨this.1, ?_⟩
      have h2 := this.2
      cases hr : (Port.recvLoop true p.fuel p).2 with
      | msg m => rw [hr] at h2; simp only at h2 ⊢; exact ⟨h2, fun h => absurd h hc⟩
      | raised e => rw [hr] at h2; simp only at h2 ⊢; exact ⟨Or.inl h2.1, h2.2⟩
      | hang => rw [hr] at h2; exact h2
      | none => rw [hr] at h2; exact h2

/-- **`for msg in port` on a device port**, whatever the device does and wherever it closes
    itself: the loop never ends with an exception; the messages handed out, followed by what the
    port still holds and what its device had not delivered yet, are exactly the messages that were
    there, in order; and when the loop ends normally the port is closed and drained. -/
theorem iterAll_spec (fuel : Nat) : ∀ (p : Port) (acc : List Nat), p.kind = .dev →
    (∀ e, (Port.iterAll fuel p acc).2.2 ≠ .raised e) ∧
    (Port.iterAll fuel p acc).2.1 ++ (Port.iterAll fuel p acc).1.pendingAll = acc ++ p.pendingAll ∧
    ((Port.iterAll fuel p acc).2.2 = .normal →
      (Port.iterAll fuel p acc).1.closed = true ∧ (Port.iterAll fuel p acc).1.queue = []) := by
  induction fuel with
  | zero => intro p acc _; simp [Port.iterAll]
  | succ n ih =>
    intro p acc hk
    obtain ⟨hk', hspec⟩ := receive_true_spec p hk
    rw [Port.iterAll]
    cases hr : p.receive true with
    | mk p' out =>
      rw [hr] at hk' hspec
      simp only at hk' hspec
      cases out with
      | msg m =>
        simp only at hspec ⊢
        have := ih p' (acc ++ [m]) hk'
        refine ⟨this.1, ?_, this.2.2⟩
        rw [this.2.1, ← hspec.1]; simp
      | raised e =>
        simp only at hspec ⊢
        obtain ⟨he, hcl, hq, hpa⟩ := hspec
        rw [if_pos ⟨he, hcl⟩]
        refine ⟨fun e h => ?_, ?_, fun _ => ⟨hcl, hq⟩⟩
        · cases h
        · rw [hpa]
      | hang =>
        simp only at hspec ⊢
        refine ⟨fun e h => ?_, ?_, fun h => ?_⟩
        · cases h
        · rw [hspec]
        · cases h
      | none => exact hspec.elim

/-! ### termination: a hang is only ever a silent, open device -/

/-- the device is closed or one of the steps it will still take closes it -/
def Port.willClose (p : Port) : Prop := p.closed = true ∨ ∃ st ∈ p.script, st.2 = true

theorem envStep_willClose (p : Port) (hk : p.kind = .dev) (h : p.willClose) : p.envStep.willClose := by
  rcases h with h | ⟨st, hst, hc⟩
  · exact Or.inl ((envStep_conserve p hk).2.2 h)
  · obtain ⟨k, c, q, a, sc, l, sl, b⟩ := p
    simp only at hk hst; subst hk
    unfold Port.envStep
    cases sc with
    | nil => simp at hst
    | cons s0 rest =>
      obtain ⟨arr, cl⟩ := s0
      simp only []
      by_cases hcl : cl = true
      · subst hcl; simp only [if_true]; exact Or.inl (close_closed _)
      · rw [if_neg hcl]
        rcases mem_cons.mp hst with rfl | hm
        · exact absurd hc hcl
        · exact Or.inr ⟨st, hm, hc⟩

theorem envStep_script_len (p : Port) (hk : p.kind = .dev) : p.envStep.script.length = p.script.length - 1 := by
  obtain ⟨k, c, q, a, sc, l, sl, b⟩ := p
  simp only at hk; subst hk
  unfold Port.envStep
  cases sc with
  | nil => rfl
  | cons s0 rest =>
    obtain ⟨arr, cl⟩ := s0
    simp only []
    by_cases hcl : cl = true
    · subst hcl; simp only [if_true]
      rw [(close_queue_script (⟨.dev, c, q ++ arr, a, rest, l, sl, b⟩ : Port) rfl).2.1]; simp
    · rw [if_neg hcl]; simp

theorem recvLoop_hang (fuel : Nat) (p : Port) : p.kind = .dev → p.closed = false → p.script.length < fuel →
    (Port.recvLoop true fuel p).2 = .hang →
    (Port.recvLoop true fuel p).1.closed = false ∧ (Port.recvLoop true fuel p).1.script = [] := by
  fun_induction Port.recvLoop true fuel p with
  | case1 p => intro _ _ hf; simp at hf
  | case2 f p p1 m q hq => intro _ _ _ h; simp at h
  | case3 f p p1 hq hb => simp at hb
  | case4 f p p1 hq hb hc => intro _ _ _ h; simp at h
  | case5 f p p1 hq hb hc ih =>
    intro hk ho hf hh
    have hk1 := (envStep_conserve p hk).2.1
    have hlen := envStep_script_len p hk
    have ho1 : p1.closed = false := by simpa using hc
    cases f with
    | zero =>
      have : p.script.length = 0 := by omega
      have hs1 : p1.script = [] := by
        have : p1.script.length = 0 := by simp only [p1]; omega
        exact length_eq_zero_iff.mp this
      simp [Port.recvLoop, ho1, hs1]
    | succ f' =>
      exact ih hk1 ho1 (by simp only [p1] at hlen ⊢; omega) hh

theorem recvLoop_willClose (fuel : Nat) (p : Port) : p.kind = .dev → p.willClose →
    (Port.recvLoop true fuel p).1.willClose := by
  fun_induction Port.recvLoop true fuel p with
  | case1 p => intro _ h; exact h
  | case2 f p p1 m q hq =>
    intro hk h
    have := envStep_willClose p hk h
    rcases this with h1 | h1
    · exact Or.inl h1
    · exact Or.inr h1
  | case3 f p p1 hq hb => simp at hb
  | case4 f p p1 hq hb hc => intro hk h; exact envStep_willClose p hk h
  | case5 f p p1 hq hb hc ih =>
    intro hk h
    have hk1 := (envStep_conserve p hk).2.1
    have h1 := envStep_willClose p hk h
    apply ih hk1
    rcases h1 with h1 | h1
    · exact Or.inl h1
    · exact Or.inr h1

theorem receive_hang_willClose (p : Port) (hk : p.kind = .dev) :
    ((p.receive true).2 = .hang → (p.receive true).1.closed = false ∧ (p.receive true).1.script = []) ∧
    (p.willClose → (p.receive true).1.willClose) := by
  unfold Port.receive
  cases hq : p.queue with
  | cons m q =>
    refine ⟨fun h => by simp at h, fun h => ?_⟩
    rcases h with h | h
    · exact Or.inl h
    · exact Or.inr h
  | nil =>
    simp only []
    by_cases hc : p.closed = true
    · rw [if_pos hc]
      exact ⟨fun h => by simp at h, fun h => h⟩
    · rw [if_neg hc]
      exact ⟨recvLoop_hang p.fuel p hk (by simpa using hc) (by simp [Port.fuel]),
        recvLoop_willClose p.fuel p hk⟩

/-- a hang of the whole iteration is a hang of one of its receives, or the loop's own fuel -/
theorem iterAll_hang (fuel : Nat) : ∀ (p : Port) (acc : List Nat), p.kind = .dev → p.pendingAll.length < fuel →
    ((Port.iterAll fuel p acc).2.2 = .hang →
      (Port.iterAll fuel p acc).1.closed = false ∧ (Port.iterAll fuel p acc).1.script = []) ∧
    (p.willClose → (Port.iterAll fuel p acc).1.willClose) := by
  induction fuel with
  | zero => intro p acc _ hf; simp at hf
  | succ n ih =>
    intro p acc hk hf
    obtain ⟨hk', hspec⟩ := receive_true_spec p hk
    obtain ⟨hhang, hwc⟩ := receive_hang_willClose p hk
    rw [Port.iterAll]
    cases hr : p.receive true with
    | mk p' out =>
      rw [hr] at hk' hspec hhang hwc
      simp only at hk' hspec hhang hwc
      cases out with
      | msg m =>
        simp only at hspec ⊢
        have hlen : p'.pendingAll.length < n := by
          have := congrArg length hspec.1
          simp only [length_cons] at this; omega
        have := ih p' (acc ++ [m]) hk' hlen
        exact ⟨this.1, fun h => this.2 (hwc h)⟩
      | raised e =>
        simp only at hspec ⊢
        obtain ⟨he, hcl, hq, hpa⟩ := hspec
        rw [if_pos ⟨he, hcl⟩]
        refine ⟨fun h => ?_, hwc⟩
        cases h
      | hang => exact ⟨fun _ => hhang rfl, hwc⟩
      | none => exact hspec.elim

end Mido
