import MidoProofs.Lemmas.StrRt2
/-! `from_str (str m) = m` (C14): from validity to printable values, and the final construction. -/
namespace Mido
open List

theorem checkVals_mem : ∀ (names : List String) (vals : List PyVal), checkVals names vals = .ok () →
    ∀ nv ∈ names.zip vals, checkAttr nv.1 nv.2 = .ok () := by
  intro names
  induction names with
  | nil => intro vals _ nv h; simp at h
  | cons n ns ih =>
    intro vals h nv hm
    cases vals with
    | nil => simp at hm
    | cons v vs =>
      simp only [checkVals, bind, Except.bind] at h
      cases hc : checkAttr n v with
      | error e => rw [hc] at h; cases h
      | ok u =>
        rw [hc] at h
        simp only [zip_cons_cons, mem_cons] at hm
        rcases hm with rfl | hm
        · exact hc
        · exact ih vs h nv hm

theorem checkRange_ok_int (v : PyVal) (lo hi : Int) (h : checkRange v lo hi = .ok ()) : ∃ k, v = .int k := by
  cases v <;> simp [checkRange] at h
  exact ⟨_, rfl⟩

theorem checkAttr_ok_int (n : String) (v : PyVal) (hn : n ∈ allNames) (hnd : n ≠ "data")
    (h : checkAttr n v = .ok ()) : ∃ k, v = .int k := by
  have hnt := (name_facts n hn).2.1
  have h1 : (n == "data") = false := by simpa using hnd
  have h2 : (n == "time") = false := by simpa using hnt
  simp only [checkAttr, h1, h2, Bool.false_eq_true, if_false] at h
  repeat' split at h
  all_goals exact checkRange_ok_int _ _ _ h

theorem checkDataItems_ok (xs : List Item) (h : checkDataItems xs = .ok ()) : ∃ ns : List Int, xs = ns.map Item.int := by
  induction xs with
  | nil => exact ⟨[], rfl⟩
  | cons x r ih =>
    simp only [checkDataItems, bind, Except.bind] at h
    cases hx : checkDataItem x with
    | error e => rw [hx] at h; cases h
    | ok u =>
      rw [hx] at h
      obtain ⟨ns, rfl⟩ := ih h
      cases x with
      | int k => exact ⟨k :: ns, rfl⟩
      | _ => simp [checkDataItem] at hx

theorem data_only_sysex (t : MType) (h : "data" ∈ t.valueNames) : t = .sysex := by
  cases t <;> simp [MType.valueNames] at h <;> rfl

theorem valueNames_nodup (t : MType) : t.valueNames.Nodup := by cases t <;> decide

theorem zip_map_fst {α β} : ∀ (a : List α) (b : List β), a.length = b.length → (a.zip b).map (·.1) = a := by
  intro a
  induction a with
  | nil => intro b _; rfl
  | cons x xs ih =>
    intro b h
    cases b with
    | nil => simp at h
    | cons y ys => simp only [zip_cons_cons, map_cons, ih ys (by simpa using h)]

/-! ### no whitespace inside the printed tokens -/

theorem noSp_append (a b : List Char) (ha : NoSp a) (hb : NoSp b) : NoSp (a ++ b) := by
  intro c hc; rcases mem_append.mp hc with h | h
  · exact ha c h
  · exact hb c h

theorem noSp_cons (c : Char) (b : List Char) (hc : isSpaceChar c = false) (hb : NoSp b) : NoSp (c :: b) := by
  intro x hx; rcases mem_cons.mp hx with rfl | h
  · exact hc
  · exact hb x h

theorem noSp_intercalate (sep : Char) (hs : isSpaceChar sep = false) (toks : List (List Char))
    (h : ∀ t ∈ toks, NoSp t) : NoSp (intercalateC sep toks) := by
  induction toks with
  | nil => intro c hc; simp [intercalateC] at hc
  | cons x r ih =>
    cases r with
    | nil => simpa [intercalateC] using h x (by simp)
    | cons y r' =>
      simp only [intercalateC]
      exact noSp_append _ _ (h x (by simp)) (noSp_cons _ _ hs (ih (fun t ht => h t (by simp [ht]))))

theorem noSp_showValText (n : String) (v : PyVal) (hv : PV n v) : NoSp (showValText n v) := by
  rcases hv with ⟨hnd, k, rfl⟩ | ⟨rfl, ns, rfl⟩
  · have h4 : (n == "data") = false := by simpa using hnd
    simp only [showValText, h4, Bool.false_eq_true, if_false]
    exact numCh_noSp _ (showInt_chars k)
  · simp only [showValText, beq_self_eq_true, if_true, showItemInt_map, cons_append]
    refine noSp_cons _ _ (by decide) (noSp_append _ _ ?_ (noSp_cons _ _ (by decide) (fun c hc => by cases hc)))
    exact noSp_intercalate ',' (by decide) _ (by
      intro t ht; obtain ⟨i, _, rfl⟩ := mem_map.mp ht; exact numCh_noSp _ (showInt_chars i))

theorem noSp_showFlt (h : Int) : NoSp (showFlt h) := by
  rw [showFlt_eq]
  have hfp : h.natAbs % 100 < 100 := Nat.mod_lt _ (by decide)
  have hbody : NoSp (showNat (h.natAbs / 100) ++ '.' :: fracDigits (h.natAbs % 100)) :=
    noSp_append _ _ (fun c hc => digit_not_space c (showNat_digits _ c hc))
      (noSp_cons _ _ (by decide) (fun c hc => digit_not_space c (fracDigits_digits _ hfp c hc)))
  by_cases hn : h < 0
  · simp only [hn, if_true, singleton_append]; exact noSp_cons _ _ (by decide) hbody
  · simp only [hn, if_false, nil_append]; exact hbody

theorem noSp_showTimeVal (tv : PyVal) (ht : (∃ n, tv = .int n) ∨ (∃ h, tv = .flt h)) : NoSp (showTimeVal tv) := by
  rcases ht with ⟨n, rfl⟩ | ⟨h, rfl⟩
  · exact numCh_noSp _ (showInt_chars n)
  · exact noSp_showFlt h

theorem time_shape (tv : PyVal) (h : checkAttr "time" tv = .ok ()) : (∃ n, tv = .int n) ∨ (∃ h, tv = .flt h) := by
  cases tv <;> simp [checkAttr] at h
  · exact Or.inl ⟨_, rfl⟩
  · exact Or.inr ⟨_, rfl⟩

end Mido
