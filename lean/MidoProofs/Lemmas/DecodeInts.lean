import MidoProofs.Lemmas.Decode
namespace Mido

theorem checkData_ints (ds : List Int) :
    checkData (ds.map .int) =
      if ds.all inByteRange then .ok (ds.map Int.toNat) else .error .ValueError := by
  induction ds with
  | nil => rfl
  | cons d rest ih =>
    simp only [List.map_cons, checkData, List.all_cons, ih]
    by_cases h : 0 ≤ d ∧ d ≤ 127
    · have : inByteRange d = true := by simp [inByteRange, h]
      rw [if_pos h, this]
      by_cases h2 : rest.all inByteRange = true
      · simp [h2, Except.map]
      · simp [h2, Except.map]
    · have : inByteRange d = false := by
        simp only [inByteRange, Bool.and_eq_false_iff, decide_eq_false_iff_not]
        omega
      rw [if_neg h, this]; simp

theorem decodeInts_cons (s : Int) (ds : List Int) :
    decodeInts (s :: ds) =
      if s < 0 then .error .ValueError else
      if definedStatus s.toNat = false then .error .ValueError else
      if s.toNat = 0xF0 then
        match ds.getLast? with
        | none => .error .ValueError
        | some e => if e = 0xF7 then (checkData (ds.dropLast.map .int)).map .sysex
                    else .error .ValueError
      else (checkData (ds.map .int)).bind fun d =>
        if some (d.length + 1) ≠ specLen s.toNat then .error .ValueError
        else buildMsg s.toNat true d := by
  simp only [decodeInts, List.map_cons, decode]
  by_cases h1 : s < 0
  · simp [h1]
  · simp only [h1, if_false]
    by_cases h2 : definedStatus s.toNat = false
    · simp [h2]
    · simp only [h2, Bool.not_eq_true', if_false]
      have h2' : definedStatus s.toNat = true := by simpa using h2
      simp only [h2', Bool.true_eq_false, if_false]
      by_cases h3 : s.toNat = 0xF0
      · simp only [h3, if_true, List.getLast?_map, List.map_dropLast]
        cases ds.getLast? with
        | none => rfl
        | some e => simp [Item.int.injEq]
      · simp only [h3, if_false]; rfl

end Mido
