import MidoProofs.Spec.SmfEnc
import MidoProofs.Lemmas.SmfRt
/-! The reader inverts every member of the SMF encoding relation; the writer produces members (C08). -/
namespace Mido
open List

theorem readVlqAcc_denotes (d : List Nat) (acc n : Nat) (h : VlqDenotes d acc n) (rest : List Nat) :
    readVlqAcc acc (d ++ rest) = .ok (n, rest) := by
  induction h with
  | last acc b hb =>
    simp only [singleton_append, readVlqAcc, hb, if_true]
    congr 2; omega
  | cont acc b r n h1 h2 _ ih =>
    simp only [cons_append, readVlqAcc]
    rw [if_neg (by omega)]
    exact ih

theorem readVlq_denotes (d : List Nat) (n : Nat) (h : VlqDenotes d 0 n) (rest : List Nat) :
    readVlq (d ++ rest) = .ok (n, rest) := readVlqAcc_denotes d 0 n h rest

theorem denotes_ne_nil (d : List Nat) (acc n : Nat) (h : VlqDenotes d acc n) : d ≠ [] := by
  cases h <;> simp

theorem clip_valid (d : List Nat) (h : d.all (· ≤ 127) = true) : d.map clipByte = d := by
  induction d with
  | nil => rfl
  | cons x xs ih =>
    simp only [all_cons, Bool.and_eq_true, decide_eq_true_eq] at h
    simp only [map_cons, ih h.2, clipByte]
    by_cases hx : x < 127
    · simp [hx]
    · have : x = 127 := by omega
      simp [this]

/-- sysex event, any spelling of the length, clip on or off -/
theorem readSysex_enc (clip : Bool) (d lb rest : List Nat) (hd : d.all (· ≤ 127) = true)
    (hl : VlqDenotes lb 0 (d.length + 1)) (hmax : d.length + 1 ≤ maxMessageLength) :
    readSysex clip (lb ++ d ++ [0xf7] ++ rest) = .ok (.msg (.sysex d), rest) := by
  unfold readSysex
  have e1 : lb ++ d ++ [0xf7] ++ rest = lb ++ ((d ++ [0xf7]) ++ rest) := by simp
  rw [e1, readVlq_denotes lb _ hl]
  simp only [bind, Except.bind]
  have hlen : (d ++ [0xf7]).length = d.length + 1 := by simp
  rw [← hlen, readBytes_append _ _ (by rw [hlen]; exact hmax)]
  simp only []
  have hstrip : stripF0 (d ++ [0xf7]) = d ++ [0xf7] := by
    cases d with
    | nil => rfl
    | cons x xs =>
      have hx : x ≤ 127 := by simp at hd; exact hd.1
      simp only [cons_append]
      unfold stripF0
      split
      · rename_i t heq; simp only [cons.injEq] at heq; omega
      · rfl
  rw [hstrip]
  cases clip <;> simp [getLast?_concat, dropLast_concat, hd, pure, Except.pure, clip_valid d hd]

theorem readMeta_enc (cs : Charset) (mm : MetaMsg) (hc : mm.check = .ok ()) (hn : mm.normal = true)
    (p lb rest : List Nat) (hp : metaPayload cs mm = .ok p) (hl : VlqDenotes lb 0 p.length)
    (hmax : p.length ≤ maxMessageLength) :
    readMeta cs ([mm.ty.typeByte] ++ lb ++ p ++ rest) = .ok (.metaEv mm, rest) := by
  obtain ⟨_, hd⟩ := C09_payload_roundtrip cs mm hc hn p hp
  simp only [readMeta, singleton_append, cons_append, nil_append, append_assoc, readVlq_denotes lb _ hl, bind, Except.bind,
    readBytes_append _ _ hmax, buildMeta, ofByte_typeByte, hd, Except.map, pure, Except.pure]

theorem readMeta_unknown_enc (cs : Charset) (tb : Nat) (data lb rest : List Nat) (hu : MetaType.ofByte tb = none)
    (hl : VlqDenotes lb 0 data.length) (hmax : data.length ≤ maxMessageLength) :
    readMeta cs ([tb] ++ lb ++ data ++ rest) = .ok (.unknownMeta tb data, rest) := by
  simp only [readMeta, singleton_append, cons_append, nil_append, append_assoc, readVlq_denotes lb _ hl, bind, Except.bind,
    readBytes_append _ _ hmax, buildMeta, hu, pure, Except.pure]

theorem readChannelish_full_c (clip : Bool) (s : Nat) (d rest : List Nat) (m : Msg) (hl : specLen s = some (d.length + 1))
    (hd : d.all (· ≤ 127) = true) (hm : decodeNats (s :: d) = .ok m) :
    readChannelish clip s [] (d ++ rest) = .ok (.msg m, rest) := by
  have hdef : definedStatus s = true := by simp [definedStatus, hl]
  unfold readChannelish
  simp only [hdef, Bool.not_true, Bool.false_eq_true, if_false, hl, length_nil, Nat.sub_zero,
    Nat.add_sub_cancel, nil_append]
  have h1 : ¬ (d ++ rest).length < d.length := by simp
  simp only [h1, if_false, take_left', drop_left', all_le_any d hd, clip_valid d hd]
  cases clip <;> simp [hm]

theorem readChannelish_running_c (clip : Bool) (s d1 : Nat) (d' rest : List Nat) (m : Msg)
    (hl : specLen s = some ((d1 :: d').length + 1)) (hd : (d1 :: d').all (· ≤ 127) = true)
    (hm : decodeNats (s :: d1 :: d') = .ok m) :
    readChannelish clip s [d1] (d' ++ rest) = .ok (.msg m, rest) := by
  have hdef : definedStatus s = true := by simp [definedStatus, hl]
  unfold readChannelish
  simp only [hdef, Bool.not_true, Bool.false_eq_true, if_false, hl, length_cons, length_nil]
  have hsz : d'.length + 1 + 1 - 1 - (0 + 1) = d'.length := by omega
  rw [hsz]
  have h1 : ¬ (d' ++ rest).length < d'.length := by simp
  simp only [h1, if_false, take_left', drop_left', singleton_append, all_le_any _ hd, clip_valid _ hd]
  cases clip <;> simp [hm]

theorem encode_status_shape (m : Msg) (hv : m.Valid) (hns : ∀ d, m ≠ .sysex d) :
    ∃ d, encode m = m.status :: d ∧ m.status ≠ 0xF0 ∧ d.all (· ≤ 127) = true ∧
      specLen m.status = some (d.length + 1) := by
  obtain ⟨s, d, he, hs0, hd, hl⟩ := encode_fixed_shape m hv hns
  obtain ⟨s', ds, he2, hs, _⟩ := C01_wellformed m hv
  rw [he] at he2
  simp only [cons.injEq] at he2
  have : s = m.status := by rw [← hs, he2.1]
  subst this
  exact ⟨d, he, hs0, hd, hl⟩

/-- **One event of any conformant spelling is read back**, clip on or off; the reader's remembered
    status stays coupled to the standard's running status. -/
theorem readEvent_enc (cs : Charset) (clip : Bool) (rs last : Option Nat)
    (hc : Coupled rs last) (hr : RunOK rs) (ev : FEv) (eb : List Nat) (he : EncEv cs rs ev eb)
    (db : List Nat) (n : Nat) (hd : VlqDenotes db 0 n) (rest : List Nat) :
    ∃ last', readEvent cs clip last (db ++ eb ++ rest) = .ok (⟨ev, n⟩, rest, last') ∧
      Coupled (rsAfter ev) last' ∧ RunOK (rsAfter ev) ∧ eb ≠ [] := by
  cases he with
  | full m hv hnr hns =>
    obtain ⟨d, hen, hs0, hdd, hl⟩ := encode_status_shape m hv hns
    have hdec := decode_encode_nats m hv
    rw [hen] at hdec
    have hg := specLen_ge m.status _ hl
    have hlt : m.status < 0xF8 := by
      simp only [Msg.isRealtime, decide_eq_false_iff_not] at hnr; omega
    refine ⟨some m.status, ?_, ?_, ?_, by rw [hen]; simp⟩
    · unfold readEvent
      rw [append_assoc, readVlq_denotes db n hd, hen]
      have c0 : ¬ (m.status < 0x80) := by omega
      have c1 : ¬ (m.status = 0xff) := by omega
      have c2 : ¬ (m.status = 0xf0 ∨ m.status = 0xf7) := by omega
      simp only [bind, Except.bind, cons_append, c0, c1, c2, if_false]
      rw [readChannelish_full_c clip m.status d rest m hl hdd hdec]; rfl
    · intro x hx
      simp only [rsAfter] at hx
      split at hx
      · exact hx
      · cases hx
    · intro x hx
      simp only [rsAfter] at hx
      split at hx
      · rename_i h; simp only [Option.some.injEq] at hx; subst hx; exact ⟨hg.1, h⟩
      · cases hx
  | running m hv hch hrs =>
    have hns : ∀ d, m ≠ .sysex d := by
      intro d h; subst h; simp [Msg.status] at hch
    obtain ⟨d, hen, hs0, hdd, hl⟩ := encode_status_shape m hv hns
    have hdec := decode_encode_nats m hv
    rw [hen] at hdec
    have hg := specLen_ge m.status _ hl
    have hlast := hc _ hrs
    have hra : rsAfter (.msg m) = some m.status := by simp [rsAfter, hch]
    rw [hra]
    have hC : Coupled (some m.status) last := by intro x hx; cases hx; exact hlast
    have hR : RunOK (some m.status) := by intro x hx; cases hx; exact ⟨hg.1, hch⟩
    rcases specLen_chan m.status _ hl hch with h2 | h3
    · match d, h2, hdd, hl, hdec, hen with
      | [d1], _, hdd, hl, hdec, hen =>
        have hd1 : d1 < 0x80 := by simp at hdd; omega
        refine ⟨last, ?_, hC, hR, by rw [hen]; simp⟩
        unfold readEvent
        rw [append_assoc, readVlq_denotes db n hd, hen]
        simp only [tail_cons, bind, Except.bind, cons_append, nil_append, hd1, if_true, hlast]
        have c1 : ¬ (m.status = 0xff) := by omega
        have c2 : ¬ (m.status = 0xf0 ∨ m.status = 0xf7) := by omega
        simp only [c1, c2, if_false]
        have := readChannelish_running_c clip m.status d1 [] rest m hl hdd hdec
        simp only [nil_append] at this
        rw [this]; rfl
    · match d, h3, hdd, hl, hdec, hen with
      | [d1, d2], _, hdd, hl, hdec, hen =>
        have hd1 : d1 < 0x80 := by simp at hdd; omega
        refine ⟨last, ?_, hC, hR, by rw [hen]; simp⟩
        unfold readEvent
        rw [append_assoc, readVlq_denotes db n hd, hen]
        simp only [tail_cons, bind, Except.bind, cons_append, nil_append, hd1, if_true, hlast]
        have c1 : ¬ (m.status = 0xff) := by omega
        have c2 : ¬ (m.status = 0xf0 ∨ m.status = 0xf7) := by omega
        simp only [c1, c2, if_false]
        have := readChannelish_running_c clip m.status d1 [d2] rest m hl hdd hdec
        simp only [singleton_append] at this
        rw [this]; rfl
  | sysex d lb hdd hl hmax =>
    refine ⟨some 0xf0, ?_, (fun s h => by simp [rsAfter, Msg.status] at h), (fun s h => by simp [rsAfter, Msg.status] at h), (by simp)⟩
    unfold readEvent
    rw [append_assoc, readVlq_denotes db n hd]
    simp only [bind, Except.bind, cons_append, nil_append, append_assoc]
    have h1 : ¬ ((0xf0 : Nat) < 0x80) := by decide
    have h2 : ¬ ((0xf0 : Nat) = 0xff) := by decide
    simp only [h1, h2, if_false, true_or, if_true]
    have := readSysex_enc clip d lb rest hdd hl hmax
    simp only [append_assoc, singleton_append, cons_append, nil_append] at this ⊢
    rw [this]; rfl
  | metaEv mm p lb hcheck hnorm hp hl hmax =>
    refine ⟨last, ?_, (fun s h => by cases h), (fun s h => by cases h), (by simp)⟩
    unfold readEvent
    rw [append_assoc, readVlq_denotes db n hd]
    simp only [bind, Except.bind, cons_append, nil_append, append_assoc]
    have h1 : ¬ ((0xff : Nat) < 0x80) := by decide
    simp only [h1, if_false, if_true]
    have := readMeta_enc cs mm hcheck hnorm p lb rest hp hl hmax
    simp only [singleton_append, cons_append, nil_append, append_assoc] at this ⊢
    rw [this]; rfl
  | unknownMeta tb data lb hu hl hmax =>
    refine ⟨last, ?_, (fun s h => by cases h), (fun s h => by cases h), (by simp)⟩
    unfold readEvent
    rw [append_assoc, readVlq_denotes db n hd]
    simp only [bind, Except.bind, cons_append, nil_append, append_assoc]
    have h1 : ¬ ((0xff : Nat) < 0x80) := by decide
    simp only [h1, if_false, if_true]
    have := readMeta_unknown_enc cs tb data lb rest hu hl hmax
    simp only [singleton_append, cons_append, nil_append, append_assoc] at this ⊢
    rw [this]; rfl

/-- **A track body of any conformant spelling is read back** (size-counted loop, clip on or off). -/
theorem readEvents_enc (cs : Charset) (clip : Bool) (rs : Option Nat) (evs : List LEvent)
    (body : List Nat) (hb : EncBody cs rs evs body) : ∀ (last : Option Nat) (consumed fuel size : Nat) (rest : List Nat),
    Coupled rs last → RunOK rs → consumed + body.length = size → evs.length < fuel →
    readEvents cs clip size fuel consumed last (body ++ rest) = .ok (evs, rest) := by
  induction hb with
  | nil rs =>
    intro last consumed fuel size rest _ _ hsz hf
    obtain ⟨f, rfl⟩ : ∃ f, fuel = f + 1 := ⟨fuel - 1, by simp at hf; omega⟩
    simp only [length_nil, Nat.add_zero] at hsz
    simp [readEvents, hsz]
  | cons rs e db eb es R hd he _ ih =>
    intro last consumed fuel size rest hc hr hsz hf
    obtain ⟨last', hre, hc', hr', hbne⟩ := readEvent_enc cs clip rs last hc hr e.ev eb he db e.delta hd (R ++ rest)
    obtain ⟨f, rfl⟩ : ∃ f, fuel = f + 1 := ⟨fuel - 1, by simp at hf; omega⟩
    have hne : consumed ≠ size := by
      have : 0 < eb.length := length_pos_iff.mpr hbne
      simp only [length_append] at hsz; omega
    have hshape : db ++ eb ++ R ++ rest = db ++ eb ++ (R ++ rest) := by simp
    rw [readEvents, if_neg hne, hshape, hre]
    simp only [bind, Except.bind]
    have hcons : consumed + ((db ++ eb ++ (R ++ rest)).length - (R ++ rest).length) + R.length = size := by
      simp only [length_append] at hsz ⊢; omega
    rw [ih last' _ f size rest hc' hr' hcons (by simp at hf; omega)]
    simp [pure, Except.pure]

theorem encBody_length (cs : Charset) (rs : Option Nat) (evs : List LEvent) (body : List Nat)
    (hb : EncBody cs rs evs body) : evs.length ≤ body.length := by
  induction hb with
  | nil => simp
  | cons rs e db eb es R hd he _ ih =>
    have := denotes_ne_nil db 0 _ hd
    have : 0 < db.length := length_pos_iff.mpr this
    simp only [length_cons, length_append]; omega

theorem readTrack_enc (cs : Charset) (clip : Bool) (evs : List LEvent) (bytes : List Nat)
    (ht : EncTrack cs evs bytes) (rest : List Nat) :
    readTrack cs clip (bytes ++ rest) = .ok (evs, rest) := by
  cases ht with
  | mk body hb hlen =>
    unfold readTrack
    have h8 : ¬ ((mtrk ++ u32be body.length ++ body ++ rest).length < 8) := by simp [mtrk, u32be]
    have ht : (mtrk ++ u32be body.length ++ body ++ rest).take 4 = mtrk := by simp [mtrk, u32be]
    have hd4 : ((mtrk ++ u32be body.length ++ body ++ rest).drop 4).take 4 = u32be body.length := by simp [mtrk, u32be]
    have hd8 : (mtrk ++ u32be body.length ++ body ++ rest).drop 8 = body ++ rest := by simp [mtrk, u32be]
    rw [if_neg h8, ht]
    simp only [ne_eq, not_true_eq_false, if_false, hd4, hd8, be32_u32be _ hlen]
    exact readEvents_enc cs clip none evs body hb none 0 _ body.length rest (fun s h => by cases h)
      (fun s h => by cases h) (by simp) (by
        have := encBody_length cs none evs body hb
        simp only [length_append]; omega)

theorem readTracks_enc (cs : Charset) (clip : Bool) (ts : List (List LEvent)) (bytes : List Nat)
    (h : EncTracks cs ts bytes) : readTracks cs clip ts.length bytes = .ok ts := by
  induction h with
  | nil => rfl
  | cons t ts a b ha _ ih =>
    simp only [length_cons, readTracks, bind, Except.bind, readTrack_enc cs clip t a ha b, ih, pure, Except.pure]

/-- **A file of any conformant spelling is read back**: header chunk of 6 or more bytes, padded
    quantities, running status wherever allowed, clip on or off. -/
theorem readFile_enc (cs : Charset) (clip : Bool) (f : LFile) (bytes : List Nat)
    (h : EncFile cs f bytes) : readFile cs clip bytes = .ok f := by
  cases h with
  | mk t1 t2 n1 n2 d1 d2 extra chunks ht hn hd hx hc =>
    have hrt := readTracks_enc cs clip f.tracks chunks hc
    have hsz := be32_u32be (6 + extra.length) hx
    unfold readFile
    have h8 : ¬ ((mthd ++ u32be (6 + extra.length) ++ [t1, t2, n1, n2, d1, d2] ++ extra ++ chunks).length < 8) := by
      simp [mthd, u32be]
    have h4 : (mthd ++ u32be (6 + extra.length) ++ [t1, t2, n1, n2, d1, d2] ++ extra ++ chunks).take 4 = mthd := by
      simp [mthd, u32be]
    have hd4 : ((mthd ++ u32be (6 + extra.length) ++ [t1, t2, n1, n2, d1, d2] ++ extra ++ chunks).drop 4).take 4
        = u32be (6 + extra.length) := by simp [mthd, u32be]
    have hd8 : (mthd ++ u32be (6 + extra.length) ++ [t1, t2, n1, n2, d1, d2] ++ extra ++ chunks).drop 8
        = ([t1, t2, n1, n2, d1, d2] ++ extra) ++ chunks := by simp [mthd, u32be]
    rw [if_neg h8, h4]
    simp only [ne_eq, not_true_eq_false, if_false, hd4, hd8, hsz]
    have hlen : ([t1, t2, n1, n2, d1, d2] ++ extra).length = 6 + extra.length := by simp; omega
    rw [← hlen, take_left' rfl, drop_left' rfl]
    simp only [cons_append, nil_append, hn.2.2, Int.toNat_natCast, hrt, bind, Except.bind, pure, Except.pure,
      ht.2.2, hd.2.2]

/-! ### the writer produces members of the relation -/

theorem shape_denotes (d : List Nat) : ∀ acc, VlqShape d → ∃ n, VlqDenotes d acc n := by
  induction d with
  | nil => intro _ h; exact h.elim
  | cons b r ih =>
    intro acc h
    cases r with
    | nil => exact ⟨_, .last acc b h⟩
    | cons c r' =>
      obtain ⟨h1, h2, h3⟩ := h
      obtain ⟨n, hn⟩ := ih (acc * 128 + b % 128) h3
      exact ⟨n, .cont acc b _ n h1 h2 hn⟩

/-- the writer's spelling of a quantity denotes it -/
theorem denotes_encVlq (v : Nat) : VlqDenotes (encVlq v) 0 v := by
  obtain ⟨n, hn⟩ := shape_denotes (encVlq v) 0 (encVlq_shape v)
  have h1 := readVlq_denotes _ _ hn []
  have h2 := readVlq_encVlq v []
  rw [h1] at h2
  simp only [Except.ok.injEq, Prod.mk.injEq, and_true] at h2
  exact h2 ▸ hn

theorem writeEvent_enc (cs : Charset) (ev : FEv) (hst : StorableEv cs ev) (running : Option Nat) (hr : RunOK running)
    (bs : List Nat) (running' : Option Nat) (hw : writeEvent cs running ev = .ok (bs, running')) :
    EncEv cs running ev bs ∧ running' = rsAfter ev := by
  cases ev with
  | metaEv mm =>
    obtain ⟨hcheck, hnorm, hlen⟩ := hst
    simp only [writeEvent, bind, Except.bind] at hw
    cases hb : metaBytes cs mm with
    | error e => rw [hb] at hw; cases hw
    | ok b =>
      rw [hb] at hw; simp only [pure, Except.pure, Except.ok.injEq, Prod.mk.injEq] at hw
      obtain ⟨rfl, rfl⟩ := hw
      obtain ⟨p, hp, rfl⟩ := C09_form cs mm b hb
      exact ⟨.metaEv mm p _ hcheck hnorm hp (denotes_encVlq _) (hlen p hp), rfl⟩
  | unknownMeta tb data =>
    obtain ⟨hu, htb, hdata, hlen⟩ := hst
    simp only [writeEvent, hdata, htb, decide_true, Bool.and_self, if_true, Except.ok.injEq, Prod.mk.injEq] at hw
    obtain ⟨rfl, rfl⟩ := hw
    exact ⟨.unknownMeta tb data _ hu (denotes_encVlq _) hlen, rfl⟩
  | msg m =>
    obtain ⟨hv, hnr, hsx⟩ := hst
    by_cases hs : ∃ d, m = .sysex d
    · obtain ⟨d, rfl⟩ := hs
      simp only [writeEvent, Except.ok.injEq, Prod.mk.injEq] at hw
      obtain ⟨rfl, rfl⟩ := hw
      exact ⟨.sysex d _ hv (denotes_encVlq _) (hsx d rfl), by simp [rsAfter, Msg.status]⟩
    · have hns : ∀ d, m ≠ .sysex d := fun d h => hs ⟨d, h⟩
      obtain ⟨d, hen, hs0, hdd, hl⟩ := encode_status_shape m hv hns
      have hwe : writeEvent cs running (.msg m) =
          .ok (if some m.status = running then d else m.status :: d, if m.status < 0xf0 then some m.status else none) := by
        cases m <;> first
          | (exact absurd rfl (hns _))
          | (simp only [writeEvent, hen, headD_cons, tail_cons])
      rw [hwe] at hw
      simp only [Except.ok.injEq, Prod.mk.injEq] at hw
      obtain ⟨rfl, rfl⟩ := hw
      refine ⟨?_, rfl⟩
      by_cases hrun : some m.status = running
      · rw [if_pos hrun]
        have := EncEv.running (cs := cs) (rs := running) m hv (hr _ hrun.symm).2 hrun.symm
        rw [hen, tail_cons] at this
        exact this
      · rw [if_neg hrun, ← hen]
        exact .full m hv hnr hns

theorem encEv_runOK (cs : Charset) (rs : Option Nat) (ev : FEv) (eb : List Nat) (he : EncEv cs rs ev eb) :
    RunOK (rsAfter ev) := by
  have key : ∀ m : Msg, m.Valid → (∀ d, m ≠ .sysex d) → RunOK (rsAfter (.msg m)) := by
    intro m hv hns s hs
    obtain ⟨d, _, _, _, hl⟩ := encode_status_shape m hv hns
    have hg := specLen_ge m.status _ hl
    simp only [rsAfter] at hs
    split at hs
    · rename_i h; simp only [Option.some.injEq] at hs; subst hs; exact ⟨hg.1, h⟩
    · cases hs
  cases he with
  | full m hv hnr hns => exact key m hv hns
  | running m hv hch hrs => exact key m hv (by intro d h; subst h; simp [Msg.status] at hch)
  | sysex d lb hdd hl hmax => intro s hs; simp [rsAfter, Msg.status] at hs
  | metaEv mm p lb hcheck hnorm hp hl hmax => intro s hs; cases hs
  | unknownMeta tb data lb hu hl hmax => intro s hs; cases hs

/-- the track body written by `write_track` is a conformant spelling of its events -/
theorem writeEvents_enc (cs : Charset) (evs : List TEvent) : ∀ (running : Option Nat) (body : List Nat),
    (∀ e ∈ evs, StorableT cs e) → RunOK running → writeEvents cs running evs = .ok body →
    EncBody cs running (evs.map TEvent.toL) body := by
  induction evs with
  | nil =>
    intro running body _ _ hw
    simp only [writeEvents, Except.ok.injEq] at hw; subst hw
    exact .nil running
  | cons e es ih =>
    intro running body hst hr hw
    obtain ⟨hse, n, htime⟩ := hst e (by simp)
    have hrest := fun x hx => hst x (mem_cons_of_mem _ hx)
    simp only [writeEvents, htime] at hw
    have hn0 : ¬ ((n : Int) < 0) := by omega
    simp only [hn0, if_false, storable_not_realtime cs e.ev hse, Bool.false_eq_true, bind, Except.bind] at hw
    cases hwe : writeEvent cs running e.ev with
    | error er => rw [hwe] at hw; cases hw
    | ok p =>
      obtain ⟨b, running'⟩ := p
      rw [hwe] at hw; simp only at hw
      cases hws : writeEvents cs running' es with
      | error er => rw [hws] at hw; cases hw
      | ok R =>
        rw [hws] at hw; simp only [pure, Except.pure, Except.ok.injEq, Int.toNat_natCast] at hw; subst hw
        obtain ⟨henc, hrun'⟩ := writeEvent_enc cs e.ev hse running hr b running' hwe
        subst hrun'
        have hr' := encEv_runOK cs running e.ev b henc
        have hR := ih _ R hrest hr' hws
        have htl : (TEvent.toL e).delta = n := by simp [TEvent.toL, htime]
        have hev : (TEvent.toL e).ev = e.ev := rfl
        simp only [map_cons]
        exact .cons running (TEvent.toL e) (encVlq n) b _ R (htl ▸ denotes_encVlq n) (hev ▸ henc) (hev ▸ hR)

/-- the chunk written by `write_track` is a conformant track chunk of `fix_end_of_track(track)` -/
theorem writeTrack_enc (cs : Charset) (tr : List TEvent) (hst : ∀ e ∈ tr, StorableT cs e)
    (bytes : List Nat) (hw : writeTrack cs tr = .ok bytes) (hfit : bytes.length < 4294967296) :
    EncTrack cs (normTrack tr) bytes := by
  obtain ⟨fixed, hfix, hfs⟩ := fixEot_storable cs tr 0 hst
  have hfix0 : fixEotEvents (.int 0) tr = .ok fixed := by simpa using hfix
  have hall : tr.all timeOk = true := by
    apply all_eq_true.mpr; intro e he
    obtain ⟨_, n, hn⟩ := hst e he
    simp [timeOk, hn]
  simp only [writeTrack, hall, Bool.not_true, Bool.false_eq_true, if_false, bind, Except.bind, hfix0] at hw
  cases hb : writeEvents cs none fixed with
  | error e => rw [hb] at hw; simp [pure, Except.pure] at hw
  | ok body =>
    rw [hb] at hw; simp only [pure, Except.pure, Except.ok.injEq] at hw; subst hw
    have hlen : body.length < 4294967296 := by simp only [length_append] at hfit; omega
    have := writeEvents_enc cs fixed none body hfs (fun s h => by cases h) hb
    simp only [normTrack, hfix0]
    exact .mk _ body this hlen

theorem writeTracks_enc (cs : Charset) (trs : List (List TEvent)) :
    ∀ (bytes : List Nat), (∀ tr ∈ trs, ∀ e ∈ tr, StorableT cs e) →
    (∀ tr ∈ trs, ∀ b, writeTrack cs tr = .ok b → b.length < 4294967296) →
    writeTracks cs trs = .ok bytes → EncTracks cs (trs.map normTrack) bytes := by
  induction trs with
  | nil => intro bytes _ _ hw; simp only [writeTracks, Except.ok.injEq] at hw; subst hw; exact .nil
  | cons t ts ih =>
    intro bytes hst hfit hw
    simp only [writeTracks, bind, Except.bind] at hw
    cases ha : writeTrack cs t with
    | error e => rw [ha] at hw; cases hw
    | ok a =>
      rw [ha] at hw; simp only at hw
      cases hb : writeTracks cs ts with
      | error e => rw [hb] at hw; cases hw
      | ok b =>
        rw [hb] at hw; simp only [pure, Except.pure, Except.ok.injEq] at hw; subst hw
        simp only [map_cons]
        exact .cons _ _ a b (writeTrack_enc cs t (hst t (by simp)) a ha (hfit t (by simp) a ha))
          (ih b (fun tr h => hst tr (mem_cons_of_mem _ h)) (fun tr h => hfit tr (mem_cons_of_mem _ h)) hb)

theorem enc16_i16be (v : Int) (bs : List Nat) (h : i16be v = .ok bs) : ∃ a b, bs = [a, b] ∧ Enc16 v a b := by
  have h0 := h
  unfold i16be at h
  split at h
  · cases h
    obtain ⟨a, b, hab, hs⟩ := s16_i16be v _ h0
    simp only [cons.injEq, and_true] at hab
    refine ⟨_, _, rfl, ?_, ?_, ?_⟩
    · split <;> omega
    · omega
    · rw [hab.1, hab.2]; exact hs
  · cases h

end Mido
