import MidoModel.Codec
import MidoProofs.Lemmas.PyLor
/-! Bit-level helper lemmas (core Lean only). -/
namespace Mido

theorem and127 (x : Nat) : x &&& 0x7f = x % 128 := Nat.and_two_pow_sub_one_eq_mod x 7
theorem and15 (x : Nat) : x &&& 15 = x % 16 := Nat.and_two_pow_sub_one_eq_mod x 4
theorem and255 (x : Nat) : x &&& 0xff = x % 256 := Nat.and_two_pow_sub_one_eq_mod x 8
theorem shr7 (x : Nat) : x >>> 7 = x / 128 := by simp [Nat.shiftRight_eq_div_pow]
theorem shr4 (x : Nat) : x >>> 4 = x / 16 := by simp [Nat.shiftRight_eq_div_pow]
theorem shr8 (x : Nat) : x >>> 8 = x / 256 := by simp [Nat.shiftRight_eq_div_pow]
theorem shr16 (x : Nat) : x >>> 16 = x / 65536 := by simp [Nat.shiftRight_eq_div_pow]
theorem shl7 (x : Nat) : x <<< 7 = x * 128 := by simp [Nat.shiftLeft_eq]
theorem shl4 (x : Nat) : x <<< 4 = x * 16 := by simp [Nat.shiftLeft_eq]
theorem shl8 (x : Nat) : x <<< 8 = x * 256 := by simp [Nat.shiftLeft_eq]
theorem shl16 (x : Nat) : x <<< 16 = x * 65536 := by simp [Nat.shiftLeft_eq]

/-- `a*2^k ||| b = a*2^k + b` when `b < 2^k` -/
theorem or_disjoint (a b k : Nat) (h : b < 2 ^ k) : (a * 2 ^ k) ||| b = a * 2 ^ k + b := by
  have := Nat.shiftLeft_add_eq_or_of_lt h a
  rw [Nat.shiftLeft_eq] at this
  exact this.symm

theorem or16 (a b : Nat) (h : b < 16) : (a * 16) ||| b = a * 16 + b := or_disjoint a b 4 h
theorem or128 (a b : Nat) (h : b < 128) : (a * 128) ||| b = a * 128 + b := or_disjoint a b 7 h
theorem or128' (a b : Nat) (h : b < 128) : b ||| (a * 128) = a * 128 + b := by
  rw [Nat.or_comm]; exact or128 a b h

/-- status byte arithmetic: all 7 channel bases × 16 channels, by kernel evaluation -/
theorem chan_or (b : Nat) (hb : b ∈ [0x80, 0x90, 0xa0, 0xb0, 0xc0, 0xd0, 0xe0]) :
    ∀ ch, ch < 16 → (b ||| ch = b + ch ∧ (b ||| ch) &&& 0x0f = ch) := by
  simp only [List.mem_cons, List.not_mem_nil, or_false] at hb
  rcases hb with h | h | h | h | h | h | h <;> subst h <;> decide

end Mido
