import MidoModel.Smf
import MidoProofs.Lemmas.Vlq
import MidoProofs.Props.C06
import MidoProofs.Props.C09
/-! Round trip of single events through the SMF writer and reader (C07). -/
namespace Mido
open List

/-- writer's running status implies reader's last status -/
def Coupled (running last : Option Nat) : Prop := ∀ s, running = some s → last = some s
/-- the writer only remembers channel status bytes -/
def RunOK (running : Option Nat) : Prop := ∀ s, running = some s → 0x80 ≤ s ∧ s < 0xf0

theorem readBytes_append (d rest : List Nat) (h : d.length ≤ maxMessageLength) :
    readBytes d.length (d ++ rest) = .ok (d, rest) := by
  unfold readBytes
  have h1 : ¬ d.length > maxMessageLength := by omega
  have h2 : ¬ (d ++ rest).length < d.length := by simp
  simp [h1, h2]

/-- what a storable event is -/
def StorableEv (cs : Charset) : FEv → Prop
  | .msg m => m.Valid ∧ m.isRealtime = false ∧ (∀ d, m = .sysex d → d.length + 1 ≤ maxMessageLength)
  | .metaEv mm => mm.check = .ok () ∧ mm.normal = true ∧
      (∀ p, metaPayload cs mm = .ok p → p.length ≤ maxMessageLength)
  | .unknownMeta tb data => MetaType.ofByte tb = none ∧ tb < 256 ∧ data.all (· < 256) = true ∧
      data.length ≤ maxMessageLength

theorem vlq_event (n : Nat) (bs rest : List Nat) :
    readVlq (encVlq n ++ bs ++ rest) = .ok (n, bs ++ rest) := by
  rw [append_assoc]; exact readVlq_encVlq n _

/-- sysex event -/
theorem readSysex_write (d rest : List Nat) (hd : d.all (· ≤ 127) = true) (hl : d.length + 1 ≤ maxMessageLength) :
    readSysex false (encVlq (d.length + 1) ++ d ++ [0xf7] ++ rest) = .ok (.msg (.sysex d), rest) := by
  unfold readSysex
  have e1 : encVlq (d.length + 1) ++ d ++ [0xf7] ++ rest = encVlq (d.length + 1) ++ ((d ++ [0xf7]) ++ rest) := by simp
  rw [e1, readVlq_encVlq]
  simp only [bind, Except.bind]
  have hlen : (d ++ [0xf7]).length = d.length + 1 := by simp
  rw [← hlen, readBytes_append _ _ (by rw [hlen]; exact hl)]
  simp only []
  -- strip leading 0xf0: the data starts with a byte ≤ 127 or is [0xf7]
  have hstrip : stripF0 (d ++ [0xf7]) = d ++ [0xf7] := by
    cases d with
    | nil => rfl
    | cons x xs =>
      have hx : x ≤ 127 := by simp at hd; exact hd.1
      simp only [cons_append]
      unfold stripF0
      split
      · rename_i t heq; simp only [cons.injEq] at heq; omega
      · rfl
  rw [hstrip]
  simp [getLast?_concat, dropLast_concat, hd, pure, Except.pure]

theorem decode_encode_nats (m : Msg) (h : m.Valid) : decodeNats (encode m) = .ok m := C01_decode_encode m h

/-- known meta event -/
theorem readMeta_write (cs : Charset) (mm : MetaMsg) (hc : mm.check = .ok ()) (hn : mm.normal = true)
    (p rest : List Nat) (hp : metaPayload cs mm = .ok p) (hl : p.length ≤ maxMessageLength) :
    readMeta cs ([mm.ty.typeByte] ++ encVlq p.length ++ p ++ rest) = .ok (.metaEv mm, rest) := by
  obtain ⟨_, hd⟩ := C09_payload_roundtrip cs mm hc hn p hp
  simp only [readMeta, singleton_append, cons_append, nil_append, append_assoc, readVlq_encVlq, bind, Except.bind,
    readBytes_append _ _ hl, buildMeta, ofByte_typeByte, hd, Except.map, pure, Except.pure]

/-- unknown meta event -/
theorem readMeta_unknown (cs : Charset) (tb : Nat) (data rest : List Nat) (hu : MetaType.ofByte tb = none)
    (hl : data.length ≤ maxMessageLength) :
    readMeta cs ([tb] ++ encVlq data.length ++ data ++ rest) = .ok (.unknownMeta tb data, rest) := by
  simp only [readMeta, singleton_append, cons_append, nil_append, append_assoc, readVlq_encVlq, bind, Except.bind,
    readBytes_append _ _ hl, buildMeta, hu, pure, Except.pure]

theorem all_le_any (d : List Nat) (h : d.all (· ≤ 127) = true) : d.any (· > 127) = false := by
  induction d with
  | nil => rfl
  | cons x xs ih =>
    simp only [all_cons, Bool.and_eq_true, decide_eq_true_eq] at h
    simp only [any_cons, ih h.2, Bool.or_false, decide_eq_false_iff_not]; omega

/-- channel / system-common message with its status byte -/
theorem readChannelish_full (s : Nat) (d rest : List Nat) (m : Msg) (hl : specLen s = some (d.length + 1))
    (hd : d.all (· ≤ 127) = true) (hm : decodeNats (s :: d) = .ok m) :
    readChannelish false s [] (d ++ rest) = .ok (.msg m, rest) := by
  have hdef : definedStatus s = true := by simp [definedStatus, hl]
  unfold readChannelish
  simp only [hdef, Bool.not_true, Bool.false_eq_true, if_false, hl, length_nil, Nat.sub_zero,
    Nat.add_sub_cancel, nil_append]
  have h1 : ¬ (d ++ rest).length < d.length := by simp
  simp only [h1, if_false, take_left', drop_left', Bool.not_false, Bool.true_and, all_le_any d hd, hm]
  simp

/-- the same message under running status: the first data byte has already been read -/
theorem readChannelish_running (s d1 : Nat) (d' rest : List Nat) (m : Msg)
    (hl : specLen s = some ((d1 :: d').length + 1)) (hd : (d1 :: d').all (· ≤ 127) = true)
    (hm : decodeNats (s :: d1 :: d') = .ok m) :
    readChannelish false s [d1] (d' ++ rest) = .ok (.msg m, rest) := by
  have hdef : definedStatus s = true := by simp [definedStatus, hl]
  unfold readChannelish
  simp only [hdef, Bool.not_true, Bool.false_eq_true, if_false, hl, length_cons, length_nil]
  have hsz : d'.length + 1 + 1 - 1 - (0 + 1) = d'.length := by omega
  rw [hsz]
  have h1 : ¬ (d' ++ rest).length < d'.length := by simp
  simp only [h1, if_false, take_left', drop_left', Bool.not_false, Bool.true_and, singleton_append,
    all_le_any _ hd, hm]
  simp

theorem specLen_chan (s n : Nat) (h : specLen s = some n) (hs : s < 0xf0) : n = 2 ∨ n = 3 := by
  unfold specLen at h
  repeat' split at h
  all_goals first | (cases h; simp; done) | (exfalso; omega) | (cases h)

theorem status_ne_f0 (m : Msg) (hv : m.Valid) (hns : ∀ d, m ≠ .sysex d) : m.status ≠ 0xF0 := by
  cases m with
  | chan3 k ch d1 d2 =>
    simp only [Msg.Valid, Msg.valid, Bool.and_eq_true, decide_eq_true_eq] at hv
    have hb := chan_or k.base (by cases k <;> simp [C3.base]) ch (by omega)
    simp only [Msg.status, hb.1]; cases k <;> simp only [C3.base] <;> omega
  | chan2 k ch d1 =>
    simp only [Msg.Valid, Msg.valid, Bool.and_eq_true, decide_eq_true_eq] at hv
    have hb := chan_or k.base (by cases k <;> simp [C2.base]) ch (by omega)
    simp only [Msg.status, hb.1]; cases k <;> simp only [C2.base] <;> omega
  | pitchwheel ch p =>
    simp only [Msg.Valid, Msg.valid, Bool.and_eq_true, decide_eq_true_eq] at hv
    have hb := chan_or 0xe0 (by simp) ch (by omega)
    simp only [Msg.status, hb.1]; omega
  | sysex d => exact absurd rfl (hns d)
  | quarter_frame ft fv => simp [Msg.status]
  | songpos p => simp [Msg.status]
  | song_select s => simp [Msg.status]
  | sys1 k => cases k <;> decide

theorem encode_fixed_shape (m : Msg) (hv : m.Valid) (hns : ∀ d, m ≠ .sysex d) :
    ∃ s d, encode m = s :: d ∧ s ≠ 0xF0 ∧ d.all (· ≤ 127) = true ∧ specLen s = some (d.length + 1) := by
  rcases encode_good m hv with ⟨s, d, he, hs0, hd, hl⟩ | ⟨d, he, _⟩
  · exact ⟨s, d, he, hs0, hd, hl⟩
  · exfalso
    obtain ⟨s, ds, he2, hs, _⟩ := C01_wellformed m hv
    rw [he] at he2
    simp only [cons_append, nil_append, cons.injEq] at he2
    exact status_ne_f0 m hv hns (by rw [← hs, ← he2.1])

/-- a channel or system-common message, with or without running status -/
theorem readEvent_fixed (cs : Charset) (m : Msg) (hv : m.Valid) (hnr : m.isRealtime = false)
    (hns : ∀ d, m ≠ .sysex d) (running last : Option Nat)
    (hc : Coupled running last) (hr : RunOK running) (n : Nat) (bs : List Nat) (running' : Option Nat)
    (hw : writeEvent cs running (.msg m) = .ok (bs, running')) (rest : List Nat) :
    ∃ last', readEvent cs false last (encVlq n ++ bs ++ rest) = .ok (⟨.msg m, n⟩, rest, last') ∧
      Coupled running' last' ∧ RunOK running' ∧ bs ≠ [] := by
  have hdec := decode_encode_nats m hv
  obtain ⟨s, d, he, hs0, hd, hl⟩ := encode_fixed_shape m hv hns
  have hg := specLen_ge s _ hl
  have hlt : s < 0xF8 := by
    have : isRtTok (encode m) = false := by rw [isRtTok_encode m hv]; exact hnr
    rw [he] at this
    match d, this, hl with
    | [], this, _ => simp [isRtTok] at this; omega
    | _ :: _, _, hl =>
      unfold specLen at hl
      repeat' split at hl
      all_goals first | omega | (simp at hl; done) | (simp at hl; omega)
  have hwe : writeEvent cs running (.msg m) =
      .ok (if some s = running then d else s :: d, if s < 0xf0 then some s else none) := by
    cases m <;> first
      | (exact absurd rfl (hns _))
      | (simp only [writeEvent, he, headD_cons, tail_cons])
  rw [hwe] at hw
  simp only [Except.ok.injEq, Prod.mk.injEq] at hw
  obtain ⟨rfl, rfl⟩ := hw
  rw [he] at hdec
  by_cases hrun : some s = running
  · -- running status: the status byte is omitted
    have hs := hr s hrun.symm
    have hlast := hc s hrun.symm
    rcases specLen_chan s _ hl hs.2 with h2 | h3
    · -- one data byte
      match d, h2, hd, hl, hdec with
      | [d1], _, hd, hl, hdec =>
        have hd1 : d1 < 0x80 := by simp at hd; omega
        refine ⟨last, ?_, ?_, ?_, by simp [hrun]⟩
        · unfold readEvent
          rw [vlq_event]
          simp only [if_pos hrun, bind, Except.bind, cons_append, nil_append, hd1, if_true, hlast]
          have c1 : ¬ (s = 0xff) := by omega
          have c2 : ¬ (s = 0xf0 ∨ s = 0xf7) := by omega
          simp only [c1, c2, if_false]
          have := readChannelish_running s d1 [] rest m hl hd hdec
          simp only [nil_append] at this
          rw [this]; rfl
        · intro x hx; simp only [hs.2, if_true, Option.some.injEq] at hx; subst hx; exact hlast
        · intro x hx; simp only [hs.2, if_true, Option.some.injEq] at hx; subst hx; exact hs
    · match d, h3, hd, hl, hdec with
      | [d1, d2], _, hd, hl, hdec =>
        have hd1 : d1 < 0x80 := by simp at hd; omega
        refine ⟨last, ?_, ?_, ?_, by simp [hrun]⟩
        · unfold readEvent
          rw [vlq_event]
          simp only [if_pos hrun, bind, Except.bind, cons_append, nil_append, hd1, if_true, hlast]
          have c1 : ¬ (s = 0xff) := by omega
          have c2 : ¬ (s = 0xf0 ∨ s = 0xf7) := by omega
          simp only [c1, c2, if_false]
          have := readChannelish_running s d1 [d2] rest m hl hd hdec
          simp only [singleton_append] at this
          rw [this]; rfl
        · intro x hx; simp only [hs.2, if_true, Option.some.injEq] at hx; subst hx; exact hlast
        · intro x hx; simp only [hs.2, if_true, Option.some.injEq] at hx; subst hx; exact hs
  · refine ⟨some s, ?_, ?_, ?_, by simp [hrun]⟩
    · unfold readEvent
      rw [vlq_event]
      have c0 : ¬ (s < 0x80) := by omega
      have c1 : ¬ (s = 0xff) := by omega
      have c2 : ¬ (s = 0xf0 ∨ s = 0xf7) := by omega
      simp only [if_neg hrun, bind, Except.bind, cons_append, c0, c1, c2, if_false]
      rw [readChannelish_full s d rest m hl hd hdec]; rfl
    · intro x hx; split at hx <;> simp_all
    · intro x hx
      split at hx
      · rename_i h; simp only [Option.some.injEq] at hx; subst hx; exact ⟨hg.1, h⟩
      · cases hx

/-- **One event through writer and reader.** -/
theorem readEvent_write (cs : Charset) (ev : FEv) (hst : StorableEv cs ev) (running last : Option Nat)
    (hc : Coupled running last) (hr : RunOK running) (n : Nat) (bs : List Nat) (running' : Option Nat)
    (hw : writeEvent cs running ev = .ok (bs, running')) (rest : List Nat) :
    ∃ last', readEvent cs false last (encVlq n ++ bs ++ rest) = .ok (⟨ev, n⟩, rest, last') ∧
      Coupled running' last' ∧ RunOK running' ∧ bs ≠ [] := by
  cases ev with
  | metaEv mm =>
    obtain ⟨hcheck, hnorm, hlen⟩ := hst
    simp only [writeEvent, bind, Except.bind] at hw
    cases hb : metaBytes cs mm with
    | error e => rw [hb] at hw; cases hw
    | ok b =>
      rw [hb] at hw; simp only [pure, Except.pure, Except.ok.injEq, Prod.mk.injEq] at hw
      obtain ⟨rfl, rfl⟩ := hw
      obtain ⟨p, hp, rfl⟩ := C09_form cs mm b hb
      refine ⟨last, ?_, (fun s h => by cases h), (fun s h => by cases h), (by simp)⟩
      unfold readEvent
      rw [vlq_event]
      simp only [bind, Except.bind, cons_append, nil_append]
      have h1 : ¬ ((0xff : Nat) < 0x80) := by decide
      simp only [h1, if_false, if_true]
      have := readMeta_write cs mm hcheck hnorm p rest hp (hlen p hp)
      simp only [singleton_append, cons_append, nil_append, append_assoc] at this ⊢
      rw [this]; rfl
  | unknownMeta tb data =>
    obtain ⟨hu, htb, hdata, hlen⟩ := hst
    simp only [writeEvent, hdata, htb, decide_true, Bool.and_self, if_true, Except.ok.injEq, Prod.mk.injEq] at hw
    obtain ⟨rfl, rfl⟩ := hw
    refine ⟨last, ?_, (fun s h => by cases h), (fun s h => by cases h), (by simp)⟩
    unfold readEvent
    rw [vlq_event]
    simp only [bind, Except.bind, cons_append, nil_append]
    have h1 : ¬ ((0xff : Nat) < 0x80) := by decide
    simp only [h1, if_false, if_true]
    have := readMeta_unknown cs tb data rest hu hlen
    simp only [singleton_append, cons_append, nil_append, append_assoc] at this ⊢
    rw [this]; rfl
  | msg m =>
    obtain ⟨hv, hnr, hsx⟩ := hst
    cases m with
    | sysex d =>
      simp only [writeEvent, Except.ok.injEq, Prod.mk.injEq] at hw
      obtain ⟨rfl, rfl⟩ := hw
      refine ⟨some 0xf0, ?_, (fun s h => by cases h), (fun s h => by cases h), (by simp)⟩
      unfold readEvent
      rw [vlq_event]
      simp only [bind, Except.bind, cons_append, nil_append]
      have h1 : ¬ ((0xf0 : Nat) < 0x80) := by decide
      have h2 : ¬ ((0xf0 : Nat) = 0xff) := by decide
      simp only [h1, h2, if_false, true_or, if_true]
      have := readSysex_write d rest hv (hsx d rfl)
      simp only [append_assoc, singleton_append, cons_append, nil_append] at this ⊢
      rw [this]; rfl
    | chan3 k ch d1 d2 => exact readEvent_fixed cs _ hv hnr (by intro d h; cases h) running last hc hr n bs running' hw rest
    | chan2 k ch d1 => exact readEvent_fixed cs _ hv hnr (by intro d h; cases h) running last hc hr n bs running' hw rest
    | pitchwheel ch p => exact readEvent_fixed cs _ hv hnr (by intro d h; cases h) running last hc hr n bs running' hw rest
    | quarter_frame ft fv => exact readEvent_fixed cs _ hv hnr (by intro d h; cases h) running last hc hr n bs running' hw rest
    | songpos p => exact readEvent_fixed cs _ hv hnr (by intro d h; cases h) running last hc hr n bs running' hw rest
    | song_select sg => exact readEvent_fixed cs _ hv hnr (by intro d h; cases h) running last hc hr n bs running' hw rest
    | sys1 k => exact readEvent_fixed cs _ hv hnr (by intro d h; cases h) running last hc hr n bs running' hw rest

def TEvent.toL (e : TEvent) : LEvent := ⟨e.ev, match e.time with | .int n => n.toNat | _ => 0⟩

/-- a storable timed event: storable payload, non-negative integer time -/
def StorableT (cs : Charset) (e : TEvent) : Prop := StorableEv cs e.ev ∧ ∃ n : Nat, e.time = .int (n : Int)

theorem storable_not_realtime (cs : Charset) (ev : FEv) (h : StorableEv cs ev) : ev.isRealtime = false := by
  cases ev with
  | msg m =>
    obtain ⟨hv, hnr, _⟩ := h
    cases m with
    | sys1 k =>
      cases k <;> simp [Msg.isRealtime, Msg.status, S1.status] at hnr <;> rfl
    | _ => rfl
  | metaEv m => rfl
  | unknownMeta a b => rfl

/-- **A whole track body through writer and reader**: the reader's event loop, which stops only
    when exactly `size` bytes have been consumed at an event boundary, returns exactly the events
    written. -/
theorem readEvents_write (cs : Charset) (evs : List TEvent) : ∀ (running last : Option Nat)
    (consumed fuel size : Nat) (body rest : List Nat),
    (∀ e ∈ evs, StorableT cs e) → Coupled running last → RunOK running →
    writeEvents cs running evs = .ok body → consumed + body.length = size → evs.length < fuel →
    readEvents cs false size fuel consumed last (body ++ rest) = .ok (evs.map TEvent.toL, rest) := by
  induction evs with
  | nil =>
    intro running last consumed fuel size body rest _ _ _ hw hsz hf
    simp only [writeEvents, Except.ok.injEq] at hw; subst hw
    obtain ⟨f, rfl⟩ : ∃ f, fuel = f + 1 := ⟨fuel - 1, by simp at hf; omega⟩
    simp only [length_nil, Nat.add_zero] at hsz
    simp [readEvents, hsz]
  | cons e es ih =>
    intro running last consumed fuel size body rest hst hc hr hw hsz hf
    obtain ⟨hse, n, htime⟩ := hst e (by simp)
    have hrest := fun x hx => hst x (mem_cons_of_mem _ hx)
    simp only [writeEvents, htime] at hw
    have hn0 : ¬ ((n : Int) < 0) := by omega
    simp only [hn0, if_false, storable_not_realtime cs e.ev hse, Bool.false_eq_true, bind, Except.bind] at hw
    cases hwe : writeEvent cs running e.ev with
    | error er => rw [hwe] at hw; cases hw
    | ok p =>
      obtain ⟨b, running'⟩ := p
      rw [hwe] at hw; simp only at hw
      cases hws : writeEvents cs running' es with
      | error er => rw [hws] at hw; cases hw
      | ok R =>
        rw [hws] at hw; simp only [pure, Except.pure, Except.ok.injEq, Int.toNat_natCast] at hw; subst hw
        obtain ⟨last', hre, hc', hr', hbne⟩ := readEvent_write cs e.ev hse running last hc hr n b running' hwe (R ++ rest)
        obtain ⟨f, rfl⟩ : ∃ f, fuel = f + 1 := ⟨fuel - 1, by simp at hf; omega⟩
        have hne : consumed ≠ size := by
          have : 0 < b.length := length_pos_iff.mpr hbne
          simp only [length_append] at hsz; omega
        have hshape : encVlq n ++ b ++ R ++ rest = encVlq n ++ b ++ (R ++ rest) := by simp
        rw [readEvents, if_neg hne, hshape, hre]
        simp only [bind, Except.bind]
        have hcons : consumed + ((encVlq n ++ b ++ (R ++ rest)).length - (R ++ rest).length) + R.length = size := by
          simp only [length_append] at hsz ⊢; omega
        rw [ih running' last' _ f size R rest hrest hc' hr' hws hcons (by simp at hf; omega)]
        simp [TEvent.toL, htime, pure, Except.pure]

theorem be32_u32be (n : Nat) (h : n < 4294967296) : be32 (u32be n) = n := by
  simp only [u32be, be32]; omega

theorem u32be_length (n : Nat) : (u32be n).length = 4 := rfl

theorem s16_i16be (v : Int) (bs : List Nat) (h : i16be v = .ok bs) : ∃ a b, bs = [a, b] ∧ s16 a b = v := by
  unfold i16be at h
  split at h
  · rename_i hr
    cases h
    refine ⟨_, _, rfl, ?_⟩
    simp only [s16]
    by_cases hv : v < 0
    · simp only [hv, if_true]
      have e : (v + 65536).toNat / 256 * 256 + (v + 65536).toNat % 256 = (v + 65536).toNat := by omega
      rw [e]
      have : (v + 65536).toNat ≥ 32768 := by omega
      simp only [this, if_true]; omega
    · simp only [hv, if_false]
      have e : v.toNat / 256 * 256 + v.toNat % 256 = v.toNat := by omega
      rw [e]
      have : ¬ (v.toNat ≥ 32768) := by omega
      simp only [this, if_false]; omega
  · cases h

theorem writeEvents_length (cs : Charset) (evs : List TEvent) : ∀ (running : Option Nat) (body : List Nat),
    writeEvents cs running evs = .ok body → evs.length ≤ body.length := by
  induction evs with
  | nil => intro _ body h; simp
  | cons e es ih =>
    intro running body h
    simp only [writeEvents] at h
    split at h
    · rename_i n _
      split at h
      · cases h
      · split at h
        · cases h
        · simp only [bind, Except.bind] at h
          cases hwe : writeEvent cs running e.ev with
          | error er => rw [hwe] at h; cases h
          | ok p =>
            rw [hwe] at h; simp only at h
            cases hws : writeEvents cs p.2 es with
            | error er => rw [hws] at h; cases h
            | ok R =>
              rw [hws] at h; simp only [pure, Except.pure, Except.ok.injEq] at h; subst h
              have := ih p.2 R hws
              have h1 : 0 < (encVlq n.toNat).length := by
                have := encVlq_shape n.toNat
                cases hx : encVlq n.toNat with
                | nil => rw [hx] at this; exact this.elim
                | cons a b => simp
              simp only [length_append, length_cons]; omega
    · cases h

/-- the end_of_track event appended by the writer is storable -/
theorem eot_storable (cs : Charset) (n : Nat) : StorableT cs (eotEvent (.int (n : Int))) := by
  refine ⟨⟨by decide, by decide, ?_⟩, n, rfl⟩
  intro p hp; simp [metaPayload] at hp; subst hp; simp [maxMessageLength]

theorem fixEot_storable (cs : Charset) (tr : List TEvent) : ∀ (acc : Nat),
    (∀ e ∈ tr, StorableT cs e) →
    ∃ fixed, fixEotEvents (.int (acc : Int)) tr = .ok fixed ∧ ∀ e ∈ fixed, StorableT cs e := by
  induction tr with
  | nil => intro acc _; exact ⟨[eotEvent (.int acc)], rfl, by intro e he; simp at he; subst he; exact eot_storable cs acc⟩
  | cons x xs ih =>
    intro acc hst
    obtain ⟨hsx, n, hn⟩ := hst x (by simp)
    have hrest := fun e he => hst e (mem_cons_of_mem _ he)
    simp only [fixEotEvents]
    by_cases hx : x.ev.isEot = true
    · rw [if_pos hx, hn]
      simp only [pyAdd, bind, Except.bind]
      have : ((acc : Int) + (n : Int)) = ((acc + n : Nat) : Int) := by simp
      rw [this]; exact ih (acc + n) hrest
    · rw [if_neg hx]
      obtain ⟨r, hr, hrs⟩ := ih 0 hrest
      by_cases ht : pyTruthy (.int (acc : Int)) = true
      · rw [if_pos ht, hn]
        simp only [pyAdd, bind, Except.bind]
        have h0 : fixEotEvents (.int 0) xs = .ok r := by simpa using hr
        rw [h0]
        refine ⟨_, rfl, ?_⟩
        intro e he
        rcases mem_cons.mp he with rfl | he
        · exact ⟨hsx, acc + n, by simp⟩
        · exact hrs e he
      · rw [if_neg ht]
        have h0 : fixEotEvents (.int 0) xs = .ok r := by simpa using hr
        simp only [bind, Except.bind, h0]
        refine ⟨_, rfl, ?_⟩
        intro e he
        rcases mem_cons.mp he with rfl | he
        · exact ⟨hsx, n, hn⟩
        · exact hrs e he

/-- **One track chunk through writer and reader.** -/
theorem readTrack_write (cs : Charset) (tr : List TEvent) (hst : ∀ e ∈ tr, StorableT cs e)
    (bytes rest : List Nat) (hw : writeTrack cs tr = .ok bytes) (hfit : bytes.length < 4294967296) :
    ∃ fixed, fixEotEvents (.int 0) tr = .ok fixed ∧
      readTrack cs false (bytes ++ rest) = .ok (fixed.map TEvent.toL, rest) := by
  obtain ⟨fixed, hfix, hfs⟩ := fixEot_storable cs tr 0 hst
  have hfix0 : fixEotEvents (.int 0) tr = .ok fixed := by simpa using hfix
  refine ⟨fixed, hfix0, ?_⟩
  have hall : tr.all timeOk = true := by
    apply all_eq_true.mpr; intro e he
    obtain ⟨_, n, hn⟩ := hst e he
    simp [timeOk, hn]
  simp only [writeTrack, hall, Bool.not_true, Bool.false_eq_true, if_false, bind, Except.bind, hfix0] at hw
  cases hb : writeEvents cs none fixed with
  | error e => rw [hb] at hw; simp [pure, Except.pure] at hw
  | ok body =>
    rw [hb] at hw; simp only [pure, Except.pure, Except.ok.injEq] at hw; subst hw
    have hlen : body.length < 4294967296 := by simp only [length_append] at hfit; omega
    unfold readTrack
    have h8 : ¬ ((mtrk ++ u32be body.length ++ body ++ rest).length < 8) := by
      simp [mtrk, u32be]
    have ht : (mtrk ++ u32be body.length ++ body ++ rest).take 4 = mtrk := by simp [mtrk, u32be]
    have hd4 : ((mtrk ++ u32be body.length ++ body ++ rest).drop 4).take 4 = u32be body.length := by simp [mtrk, u32be]
    have hd8 : (mtrk ++ u32be body.length ++ body ++ rest).drop 8 = body ++ rest := by simp [mtrk, u32be]
    rw [if_neg h8, ht]
    simp only [ne_eq, not_true_eq_false, if_false, hd4, hd8, be32_u32be _ hlen]
    exact readEvents_write cs fixed none none 0 _ body.length body rest hfs (fun s h => by cases h)
      (fun s h => by cases h) hb (by simp) (by
        have := writeEvents_length cs fixed none body hb
        simp only [length_append]; omega)

/-- `fix_end_of_track` is idempotent: its output is already in normal form -/
theorem fixEot_idem (tr : List TEvent) : ∀ (acc : Int) (fixed : List TEvent),
    (∀ e ∈ tr, ∃ n : Int, e.time = .int n) →
    fixEotEvents (.int acc) tr = .ok fixed → fixEotEvents (.int 0) fixed = .ok fixed := by
  induction tr with
  | nil =>
    intro acc fixed _ h
    simp only [fixEotEvents, Except.ok.injEq] at h; subst h
    simp [fixEotEvents, eotEvent, FEv.isEot, pyAdd, bind, Except.bind]
  | cons x xs ih =>
    intro acc fixed ht h
    obtain ⟨n, hn⟩ := ht x (by simp)
    have hrest := fun e he => ht e (mem_cons_of_mem _ he)
    simp only [fixEotEvents] at h
    by_cases hx : x.ev.isEot = true
    · rw [if_pos hx, hn] at h
      simp only [pyAdd, bind, Except.bind] at h
      exact ih _ fixed hrest h
    · rw [if_neg hx] at h
      by_cases hta : pyTruthy (.int acc) = true
      · rw [if_pos hta, hn] at h
        simp only [pyAdd, bind, Except.bind] at h
        cases hr : fixEotEvents (.int 0) xs with
        | error e => rw [hr] at h; cases h
        | ok r =>
          rw [hr] at h; simp only [pure, Except.pure, Except.ok.injEq] at h; subst h
          have := ih 0 r hrest hr
          simp only [fixEotEvents, hx, Bool.false_eq_true, if_false, pyTruthy, bne_self_eq_false, this, bind, Except.bind,
            pure, Except.pure]
      · rw [if_neg hta] at h
        cases hr : fixEotEvents (.int 0) xs with
        | error e => rw [hr] at h; simp [bind, Except.bind] at h
        | ok r =>
          rw [hr] at h; simp only [bind, Except.bind, pure, Except.pure, Except.ok.injEq] at h; subst h
          have := ih 0 r hrest hr
          simp only [fixEotEvents, hx, Bool.false_eq_true, if_false, pyTruthy, bne_self_eq_false, this, bind, Except.bind,
            pure, Except.pure]

/-- what the reader returns for a written track: its events after `fix_end_of_track` -/
def normTrack (tr : List TEvent) : List LEvent :=
  match fixEotEvents (.int 0) tr with
  | .ok fixed => fixed.map TEvent.toL
  | .error _ => []

theorem readTracks_write (cs : Charset) (trs : List (List TEvent)) :
    ∀ (bytes : List Nat), (∀ tr ∈ trs, ∀ e ∈ tr, StorableT cs e) →
    (∀ tr ∈ trs, ∀ b, writeTrack cs tr = .ok b → b.length < 4294967296) →
    writeTracks cs trs = .ok bytes →
    readTracks cs false trs.length bytes = .ok (trs.map normTrack) := by
  induction trs with
  | nil => intro _ _ _ _; rfl
  | cons t ts ih =>
    intro bytes hst hfit hw
    simp only [writeTracks, bind, Except.bind] at hw
    cases ha : writeTrack cs t with
    | error e => rw [ha] at hw; cases hw
    | ok a =>
      rw [ha] at hw; simp only at hw
      cases hb : writeTracks cs ts with
      | error e => rw [hb] at hw; cases hw
      | ok b =>
        rw [hb] at hw; simp only [pure, Except.pure, Except.ok.injEq] at hw; subst hw
        obtain ⟨fixed, hfix, hrd⟩ := readTrack_write cs t (hst t (by simp)) a b ha (hfit t (by simp) a ha)
        have hrest := ih b (fun tr h => hst tr (mem_cons_of_mem _ h)) (fun tr h => hfit tr (mem_cons_of_mem _ h)) hb
        simp only [length_cons, readTracks, bind, Except.bind, hrd, hrest, pure, Except.pure, map_cons, normTrack, hfix]

/-- the loaded track as a track value again -/
def normT (tr : List TEvent) : List TEvent := (normTrack tr).map LEvent.toT

theorem toT_toL (cs : Charset) (e : TEvent) (h : StorableT cs e) : LEvent.toT (TEvent.toL e) = e := by
  obtain ⟨_, n, hn⟩ := h
  cases e with
  | mk ev t => simp only at hn; subst hn; simp [TEvent.toL, LEvent.toT]

theorem normT_eq (cs : Charset) (tr : List TEvent) (hst : ∀ e ∈ tr, StorableT cs e) :
    ∃ fixed, fixEotEvents (.int 0) tr = .ok fixed ∧ normT tr = fixed ∧ (∀ e ∈ fixed, StorableT cs e) := by
  obtain ⟨fixed, hfix, hfs⟩ := fixEot_storable cs tr 0 hst
  have hfix0 : fixEotEvents (.int 0) tr = .ok fixed := by simpa using hfix
  refine ⟨fixed, hfix0, ?_, hfs⟩
  simp only [normT, normTrack, hfix0, map_map]
  conv => rhs; rw [← map_id fixed]
  apply map_congr_left
  intro e he
  exact toT_toL cs e (hfs e he)

/-- writing the normal form of a track writes the same chunk -/
theorem writeTrack_normT (cs : Charset) (tr : List TEvent) (hst : ∀ e ∈ tr, StorableT cs e) :
    writeTrack cs (normT tr) = writeTrack cs tr ∧ (∀ e ∈ normT tr, StorableT cs e) := by
  obtain ⟨fixed, hfix, hn, hfs⟩ := normT_eq cs tr hst
  rw [hn]
  refine ⟨?_, hfs⟩
  have hall : tr.all timeOk = true := by
    apply all_eq_true.mpr; intro e he
    obtain ⟨_, n, hn⟩ := hst e he
    simp [timeOk, hn]
  have hall2 : fixed.all timeOk = true := by
    apply all_eq_true.mpr; intro e he
    obtain ⟨_, n, hn⟩ := hfs e he
    simp [timeOk, hn]
  have hid := fixEot_idem tr 0 fixed (fun e he => by obtain ⟨_, n, hn⟩ := hst e he; exact ⟨n, hn⟩) hfix
  simp only [writeTrack, hall, hall2, hfix, hid]

theorem writeTracks_normT (cs : Charset) (trs : List (List TEvent))
    (hst : ∀ tr ∈ trs, ∀ e ∈ tr, StorableT cs e) :
    writeTracks cs (trs.map normT) = writeTracks cs trs := by
  induction trs with
  | nil => rfl
  | cons t ts ih =>
    simp only [map_cons, writeTracks, (writeTrack_normT cs t (hst t (by simp))).1,
      ih (fun tr h => hst tr (mem_cons_of_mem _ h))]

theorem i16be_length (v : Int) (bs : List Nat) (h : i16be v = .ok bs) : bs.length = 2 := by
  obtain ⟨a, b, rfl, _⟩ := s16_i16be v bs h; rfl

end Mido
