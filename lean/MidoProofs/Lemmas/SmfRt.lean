import MidoModel.Smf
import MidoProofs.Lemmas.Vlq
import MidoProofs.Props.C06
import MidoProofs.Props.C09
/-! Round trip of single events through the SMF writer and reader (C07). -/
namespace Mido
open List

/-- writer's running status implies reader's last status -/
def Coupled (running last : Option Nat) : Prop := ∀ s, running = some s → last = some s
/-- the writer only remembers channel status bytes -/
def RunOK (running : Option Nat) : Prop := ∀ s, running = some s → 0x80 ≤ s ∧ s < 0xf0

theorem readBytes_append (d rest : List Nat) (h : d.length ≤ maxMessageLength) :
    readBytes d.length (d ++ rest) = .ok (d, rest) := by
  unfold readBytes
  have h1 : ¬ d.length > maxMessageLength := by omega
  have h2 : ¬ (d ++ rest).length < d.length := by simp
  simp [h1, h2]

/-- what a storable event is -/
def StorableEv (cs : Charset) : FEv → Prop
  | .msg m => m.Valid ∧ m.isRealtime = false ∧ (∀ d, m = .sysex d → d.length + 1 ≤ maxMessageLength)
  | .metaEv mm => mm.check = .ok () ∧ mm.normal = true ∧ cs ≠ .utf8 ∧
      (∀ p, metaPayload cs mm = .ok p → p.length ≤ maxMessageLength)
  | .unknownMeta tb data => MetaType.ofByte tb = none ∧ tb < 256 ∧ data.all (· < 256) = true ∧
      data.length ≤ maxMessageLength

theorem vlq_event (n : Nat) (bs rest : List Nat) :
    readVlq (encVlq n ++ bs ++ rest) = .ok (n, bs ++ rest) := by
  rw [append_assoc]; exact readVlq_encVlq n _

/-- sysex event -/
theorem readSysex_write (d rest : List Nat) (hd : d.all (· ≤ 127) = true) (hl : d.length + 1 ≤ maxMessageLength) :
    readSysex false (encVlq (d.length + 1) ++ d ++ [0xf7] ++ rest) = .ok (.msg (.sysex d), rest) := by
  unfold readSysex
  have e1 : encVlq (d.length + 1) ++ d ++ [0xf7] ++ rest = encVlq (d.length + 1) ++ ((d ++ [0xf7]) ++ rest) := by simp
  rw [e1, readVlq_encVlq]
  simp only [bind, Except.bind]
  have hlen : (d ++ [0xf7]).length = d.length + 1 := by simp
  rw [← hlen, readBytes_append _ _ (by rw [hlen]; exact hl)]
  simp only []
  -- strip leading 0xf0: the data starts with a byte ≤ 127 or is [0xf7]
  have hstrip : stripF0 (d ++ [0xf7]) = d ++ [0xf7] := by
    cases d with
    | nil => rfl
    | cons x xs =>
      have hx : x ≤ 127 := by simp at hd; exact hd.1
      simp only [cons_append]
      unfold stripF0
      split
      · rename_i t heq; simp only [cons.injEq] at heq; omega
      · rfl
  rw [hstrip]
  simp [getLast?_concat, dropLast_concat, hd, pure, Except.pure]

theorem decode_encode_nats (m : Msg) (h : m.Valid) : decodeNats (encode m) = .ok m := C01_decode_encode m h

/-- known meta event -/
theorem readMeta_write (cs : Charset) (hcs : cs ≠ .utf8) (mm : MetaMsg) (hc : mm.check = .ok ()) (hn : mm.normal = true)
    (p rest : List Nat) (hp : metaPayload cs mm = .ok p) (hl : p.length ≤ maxMessageLength) :
    readMeta cs ([mm.ty.typeByte] ++ encVlq p.length ++ p ++ rest) = .ok (.metaEv mm, rest) := by
  obtain ⟨_, hd⟩ := C09_payload_roundtrip cs hcs mm hc hn p hp
  simp only [readMeta, singleton_append, cons_append, nil_append, append_assoc, readVlq_encVlq, bind, Except.bind,
    readBytes_append _ _ hl, buildMeta, ofByte_typeByte, hd, Except.map, pure, Except.pure]

/-- unknown meta event -/
theorem readMeta_unknown (cs : Charset) (tb : Nat) (data rest : List Nat) (hu : MetaType.ofByte tb = none)
    (hl : data.length ≤ maxMessageLength) :
    readMeta cs ([tb] ++ encVlq data.length ++ data ++ rest) = .ok (.unknownMeta tb data, rest) := by
  simp only [readMeta, singleton_append, cons_append, nil_append, append_assoc, readVlq_encVlq, bind, Except.bind,
    readBytes_append _ _ hl, buildMeta, hu, pure, Except.pure]

theorem all_le_any (d : List Nat) (h : d.all (· ≤ 127) = true) : d.any (· > 127) = false := by
  induction d with
  | nil => rfl
  | cons x xs ih =>
    simp only [all_cons, Bool.and_eq_true, decide_eq_true_eq] at h
    simp only [any_cons, ih h.2, Bool.or_false, decide_eq_false_iff_not]; omega

/-- channel / system-common message with its status byte -/
theorem readChannelish_full (s : Nat) (d rest : List Nat) (m : Msg) (hl : specLen s = some (d.length + 1))
    (hd : d.all (· ≤ 127) = true) (hm : decodeNats (s :: d) = .ok m) :
    readChannelish false s [] (d ++ rest) = .ok (.msg m, rest) := by
  have hdef : definedStatus s = true := by simp [definedStatus, hl]
  unfold readChannelish
  simp only [hdef, Bool.not_true, Bool.false_eq_true, if_false, hl, length_nil, Nat.sub_zero,
    Nat.add_sub_cancel, nil_append]
  have h1 : ¬ (d ++ rest).length < d.length := by simp
  simp only [h1, if_false, take_left', drop_left', Bool.not_false, Bool.true_and, all_le_any d hd, hm]
  simp

/-- the same message under running status: the first data byte has already been read -/
theorem readChannelish_running (s d1 : Nat) (d' rest : List Nat) (m : Msg)
    (hl : specLen s = some ((d1 :: d').length + 1)) (hd : (d1 :: d').all (· ≤ 127) = true)
    (hm : decodeNats (s :: d1 :: d') = .ok m) :
    readChannelish false s [d1] (d' ++ rest) = .ok (.msg m, rest) := by
  have hdef : definedStatus s = true := by simp [definedStatus, hl]
  unfold readChannelish
  simp only [hdef, Bool.not_true, Bool.false_eq_true, if_false, hl, length_cons, length_nil]
  have hsz : d'.length + 1 + 1 - 1 - (0 + 1) = d'.length := by omega
  rw [hsz]
  have h1 : ¬ (d' ++ rest).length < d'.length := by simp
  simp only [h1, if_false, take_left', drop_left', Bool.not_false, Bool.true_and, singleton_append,
    all_le_any _ hd, hm]
  simp

end Mido
