import MidoProofs.Lemmas.BuildMsg
import MidoModel.Tokenizer
/-! Invariants of the tokenizer fold (C04). -/
namespace Mido

/-- a token that is one complete well-formed message -/
def GoodTok (t : List Nat) : Prop :=
  (∃ s d, t = s :: d ∧ s ≠ 0xF0 ∧ d.all (· ≤ 127) = true ∧ specLen s = some (d.length + 1)) ∨
  (∃ d, t = [0xF0] ++ d ++ [0xF7] ∧ d.all (· ≤ 127) = true)

theorem GoodTok.decodes {t : List Nat} (h : GoodTok t) :
    ∃ m, decodeNats t = .ok m ∧ m.Valid ∧ encode m = t := by
  rcases h with ⟨s, d, rfl, hs, hd, hl⟩ | ⟨d, rfl, hd⟩
  · rw [decode_fixed s d hs hd hl]
    exact buildMsg_sound s d hd hl
  · exact ⟨.sysex d, decode_sysex d hd, hd, rfl⟩

theorem specLen_range (s n : Nat) (h : specLen s = some n) : n = 1 ∨ n = 2 ∨ n = 3 := by
  unfold specLen at h
  repeat' split at h
  all_goals first | (cases h; simp; done) | (cases h)

theorem specLen_ge (s n : Nat) (h : specLen s = some n) : 0x80 ≤ s ∧ s ≤ 0xFF ∧ s ≠ 0xF0 ∧ s ≠ 0xF7 := by
  unfold specLen at h
  repeat' split at h
  all_goals first | omega | (cases h)

structure TokInv (st : Tok) : Prop where
  out_good : ∀ t ∈ st.out, GoodTok t
  pend : st.status ≠ 0 → ∃ d, st.bytes = st.status :: d ∧ d.all (· ≤ 127) = true ∧
      ((st.status = 0xF0 ∧ st.len = 0) ∨
       (st.status ≠ 0xF0 ∧ specLen st.status = some st.len ∧ d.length + 1 < st.len))

theorem TokInv.init : TokInv {} := ⟨by simp, by simp⟩

theorem all_append_single (d : List Nat) (b : Nat) (hd : d.all (· ≤ 127) = true) (hb : b < 128) :
    (d ++ [b]).all (· ≤ 127) = true := by
  simp only [List.all_append, hd, List.all_cons, List.all_nil, Bool.and_true, Bool.true_and,
    decide_eq_true_eq]; omega

theorem TokInv.feedData {st : Tok} (h : TokInv st) (b : Nat) (hb : b < 128) :
    TokInv (st.feedData b) := by
  unfold Tok.feedData
  by_cases hs : st.status ≠ 0
  · obtain ⟨d, hbytes, hd, hcase⟩ := h.pend hs
    rw [if_pos hs]
    have hd' := all_append_single d b hd hb
    have hlen : (st.bytes ++ [b]).length = d.length + 2 := by simp [hbytes]
    by_cases hl : (st.bytes ++ [b]).length = st.len
    · simp only [hl, if_true]
      refine ⟨?_, fun hne => absurd rfl hne⟩
      intro t ht
      simp only [List.mem_append, List.mem_singleton] at ht
      rcases ht with ht | rfl
      · exact h.out_good t ht
      · rcases hcase with ⟨_, h0⟩ | ⟨hne, hsl, _⟩
        · omega
        · left
          refine ⟨st.status, d ++ [b], by simp [hbytes], hne, hd', ?_⟩
          rw [hsl]; congr 1
          simp; omega
    · simp only [hl, if_false]
      refine ⟨h.out_good, fun _ => ⟨d ++ [b], by simp [hbytes], hd', ?_⟩⟩
      rcases hcase with hc | ⟨hne, hsl, hlt⟩
      · exact Or.inl hc
      · right
        refine ⟨hne, hsl, ?_⟩
        simp; omega
  · rw [if_neg hs]; exact h

theorem TokInv.feedStatus {st : Tok} (h : TokInv st) (s : Nat) (hs1 : 128 ≤ s) (hs2 : s < 256) :
    TokInv (st.feedStatus s) := by
  unfold Tok.feedStatus
  by_cases c1 : s = 0xF7
  · rw [if_pos c1]
    by_cases c2 : st.status = 0xF0
    · rw [if_pos c2]
      refine ⟨?_, fun hne => absurd rfl hne⟩
      intro t ht
      simp only [List.mem_append, List.mem_singleton] at ht
      rcases ht with ht | rfl
      · exact h.out_good t ht
      · obtain ⟨d, hbytes, hd, _⟩ := h.pend (by rw [c2]; decide)
        right; exact ⟨d, by simp [hbytes, c2], hd⟩
    · rw [if_neg c2]
      exact ⟨h.out_good, fun hne => absurd rfl hne⟩
  rw [if_neg c1]
  by_cases c3 : 0xF8 ≤ s
  · rw [if_pos c3]
    have hst1 : TokInv (if st.status ≠ 0xF0 then { st with status := 0 } else st) := by
      by_cases c : st.status ≠ 0xF0
      · rw [if_pos c]; exact ⟨h.out_good, fun hne => absurd rfl hne⟩
      · rw [if_neg c]; exact h
    generalize (if st.status ≠ 0xF0 then { st with status := 0 } else st) = st1 at hst1
    simp only []
    by_cases c4 : definedStatus s = true
    · rw [if_pos c4]
      refine ⟨?_, hst1.pend⟩
      intro t ht
      simp only [List.mem_append, List.mem_singleton] at ht
      rcases ht with ht | rfl
      · exact hst1.out_good t ht
      · left
        refine ⟨s, [], rfl, by omega, rfl, ?_⟩
        have : s ≠ 0xF0 := by omega
        simp only [definedStatus, Bool.or_eq_true, beq_iff_eq, this, false_or] at c4
        obtain ⟨n, hn⟩ := Option.isSome_iff_exists.mp c4
        unfold specLen at hn ⊢
        repeat' split
        all_goals first | rfl | (exfalso; omega) | (exfalso; simp_all; done)
    · rw [if_neg c4]; exact hst1
  rw [if_neg c3]
  by_cases c5 : s = 0xF0
  · rw [if_pos c5]
    exact ⟨h.out_good, fun _ => ⟨[], by simp [c5], rfl, Or.inl ⟨c5, rfl⟩⟩⟩
  rw [if_neg c5]
  cases hsl : specLen s with
  | none => exact h
  | some n =>
    by_cases hn : n = 1
    · subst hn
      refine ⟨?_, fun hne => absurd rfl hne⟩
      intro t ht
      simp only [List.mem_append, List.mem_singleton] at ht
      rcases ht with ht | rfl
      · exact h.out_good t ht
      · left; exact ⟨s, [], rfl, c5, rfl, hsl⟩
    · have hr := specLen_range s n hsl
      rcases hr with rfl | rfl | rfl
      · exact absurd rfl hn
      · show TokInv { st with status := s, bytes := [s], len := 2 }
        exact ⟨h.out_good, fun _ => ⟨[], rfl, rfl, Or.inr ⟨c5, hsl, by simp⟩⟩⟩
      · show TokInv { st with status := s, bytes := [s], len := 3 }
        exact ⟨h.out_good, fun _ => ⟨[], rfl, rfl, Or.inr ⟨c5, hsl, by simp⟩⟩⟩

theorem TokInv.feedByte {st : Tok} (h : TokInv st) (b : Nat) (hb : b < 256) :
    TokInv (st.feedByte b) := by
  unfold Tok.feedByte
  by_cases c : b < 128
  · simp only [c, if_true]; exact h.feedData b c
  · simp only [c, if_false]; exact h.feedStatus b (by omega) hb

theorem TokInv.feed {st : Tok} (h : TokInv st) (bs : List Nat) (hb : ∀ b ∈ bs, b < 256) :
    TokInv (st.feed bs) := by
  induction bs generalizing st with
  | nil => exact h
  | cons b r ih =>
    simp only [Tok.feed, List.foldl_cons]
    exact ih (h.feedByte b (hb b (by simp))) (fun x hx => hb x (by simp [hx]))

end Mido
