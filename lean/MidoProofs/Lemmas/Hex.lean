import MidoModel.Codec
namespace Mido

theorem hexVal_hexDigit : ∀ n : Fin 16, hexVal (hexDigit n.val) = some n.val := by decide
theorem hexDigit_ne_space : ∀ n : Fin 16, hexDigit n.val ≠ ' ' := by decide

theorem fromHex_hexByte (b : Nat) (hb : b < 256) (rest : List Char) :
    fromHex (hexByte b ++ rest) = (fromHex rest).map (b :: ·) := by
  have h1 : b / 16 < 16 := by omega
  have h2 : b % 16 < 16 := by omega
  have n1 := hexDigit_ne_space ⟨b / 16, h1⟩
  have v1 := hexVal_hexDigit ⟨b / 16, h1⟩
  have v2 := hexVal_hexDigit ⟨b % 16, h2⟩
  simp only at n1 v1 v2
  simp only [hexByte, List.cons_append, List.nil_append]
  rw [fromHex.eq_def]
  split
  · simp at *
  · rename_i heq; simp only [List.cons.injEq] at heq; exact absurd heq.1 n1
  · rename_i a c r hns heq
    simp only [List.cons.injEq] at heq
    obtain ⟨rfl, rfl, rfl⟩ := heq
    simp only [v1, v2]
    have : 16 * (b / 16) + b % 16 = b := by omega
    rw [this]
  · rename_i heq; simp at heq

theorem fromHex_toHex (bs : List Nat) (h : ∀ b ∈ bs, b < 256) : fromHex (toHex bs) = .ok bs := by
  induction bs with
  | nil => rfl
  | cons b rest ih =>
    have hb := h b (by simp)
    have hr := ih (fun x hx => h x (by simp [hx]))
    cases rest with
    | nil =>
      have := fromHex_hexByte b hb []
      simp only [List.append_nil] at this
      simp only [toHex, this]; rfl
    | cons c rest' =>
      simp only [toHex] at hr ⊢
      rw [fromHex_hexByte b hb]
      rw [fromHex]
      rw [hr]; rfl

end Mido
