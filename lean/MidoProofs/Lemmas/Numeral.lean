import MidoModel.Numeral
namespace Mido

theorem digitChar_spec : ∀ k : Fin 10, isDigit (digitChar k.val) = true ∧ (digitChar k.val).toNat - 48 = k.val ∧
    digitChar k.val ≠ '-' ∧ digitChar k.val ≠ ':' ∧ digitChar k.val ≠ ' ' := by decide

theorem parse_digitsAux : ∀ (n hi : Nat), hi ≤ n → ∀ (acc : List Char) (f : Nat → Option Nat),
    (∀ x, parseNatAcc x acc = f x) → parseNatAcc 0 (digitsAux hi acc) = f hi := by
  intro n
  induction n with
  | zero =>
    intro hi h acc f hf
    have : hi = 0 := by omega
    subst this; simp [digitsAux, hf]
  | succ n ih =>
    intro hi h acc f hf
    match hi, h with
    | 0, _ => simp [digitsAux, hf]
    | (m+1), h =>
      rw [digitsAux]
      have hd := digitChar_spec ⟨(m+1) % 10, Nat.mod_lt _ (by decide)⟩
      simp only at hd
      have := ih ((m+1)/10) (by omega) (digitChar ((m+1) % 10) :: acc) (fun x => f (x * 10 + (m+1) % 10)) (by
        intro x
        simp only [parseNatAcc, hd.1, if_true, hd.2.1, hf])
      rw [this]; congr 1; omega

theorem digitsAux_ne_nil (n : Nat) (h : 0 < n) (acc : List Char) : digitsAux n acc ≠ [] := by
  have : ∀ (k m : Nat), m ≤ k → ∀ acc : List Char, acc ≠ [] → digitsAux m acc ≠ [] := by
    intro k
    induction k with
    | zero => intro m hm acc ha; have : m = 0 := by omega
              subst this; simpa [digitsAux] using ha
    | succ k ih =>
      intro m hm acc ha
      match m, hm with
      | 0, _ => simpa [digitsAux] using ha
      | (j+1), hm => rw [digitsAux]; exact ih _ (by omega) _ (by simp)
  match n, h with
  | (j+1), _ => rw [digitsAux]; exact this _ _ (Nat.le_refl _) _ (by simp)

/-- `int(str(n)) == n` on naturals -/
theorem parseNat_showNat (n : Nat) : parseNat (showNat n) = some n := by
  unfold showNat
  by_cases h : n = 0
  · subst h; decide
  · simp only [h, if_false, parseNat]
    have hne := digitsAux_ne_nil n (by omega) []
    have : (digitsAux n []).isEmpty = false := by
      cases hd : digitsAux n [] with
      | nil => exact absurd hd hne
      | cons a b => rfl
    rw [this]
    simp only [Bool.false_eq_true, if_false]
    exact parse_digitsAux n n (Nat.le_refl _) [] some (by intro x; rfl)

/-- all characters of a numeral are digits (in particular no ':' and no '-') -/
theorem showNat_digits (n : Nat) : ∀ c ∈ showNat n, isDigit c = true := by
  have aux : ∀ (k m : Nat), m ≤ k → ∀ acc : List Char, (∀ c ∈ acc, isDigit c = true) →
      ∀ c ∈ digitsAux m acc, isDigit c = true := by
    intro k
    induction k with
    | zero => intro m hm acc ha; have : m = 0 := by omega
              subst this; simpa [digitsAux] using ha
    | succ k ih =>
      intro m hm acc ha
      match m, hm with
      | 0, _ => simpa [digitsAux] using ha
      | (j+1), hm =>
        rw [digitsAux]
        apply ih _ (by omega)
        intro c hc
        rcases List.mem_cons.mp hc with rfl | hc
        · exact (digitChar_spec ⟨(j+1) % 10, Nat.mod_lt _ (by decide)⟩).1
        · exact ha c hc
  unfold showNat
  by_cases h : n = 0
  · subst h; intro c hc; simp at hc; subst hc; decide
  · simp only [h, if_false]; exact aux n n (Nat.le_refl _) [] (by simp)

theorem showNat_ne_nil (n : Nat) : showNat n ≠ [] := by
  unfold showNat
  by_cases h : n = 0
  · simp [h]
  · simp only [h, if_false]; exact digitsAux_ne_nil n (by omega) []

/-- `int(str(i)) == i` on all integers -/
theorem parseInt_showInt (i : Int) : parseInt (showInt i) = some i := by
  cases i with
  | ofNat n =>
    simp only [showInt]
    have hd := showNat_digits n
    have hne := showNat_ne_nil n
    cases hs : showNat n with
    | nil => exact absurd hs hne
    | cons c r =>
      have hc : c ≠ '-' := by
        intro hc; have := hd c (by rw [hs]; simp); rw [hc] at this; revert this; decide
      have : parseInt (c :: r) = (parseNat (c :: r)).map (fun n => (n : Int)) := by
        unfold parseInt
        split
        · rename_i heq; simp only [List.cons.injEq] at heq; exact absurd heq.1 hc
        · rfl
      rw [this, ← hs, parseNat_showNat]; rfl
  | negSucc n =>
    simp only [showInt, parseInt, parseNat_showNat, Option.map_some]
    congr 1

end Mido
