import MidoModel.Smf
/-!
  `clip=True` against `clip=False`, for **arbitrary** byte strings (not only conformant files):

  * whatever the strict reader accepts, the clipping reader reads identically (`readFile_strict_clip`);
  * per event, the clipping reader is the strict reader run on the same bytes with every data byte above 127
    replaced by 127 (`readChannelish_clip`, `readSysex_clip`), so the only difference is the one the property
    names: bytes above 127 become 127 instead of raising an error.
-/
namespace Mido
open List

theorem clipByte_le (b : Nat) : clipByte b ≤ 127 := by unfold clipByte; split <;> omega
theorem clipByte_id (b : Nat) (h : b ≤ 127) : clipByte b = b := by unfold clipByte; split <;> omega

theorem map_clip_id (l : List Nat) (h : l.any (· > 127) = false) : l.map clipByte = l := by
  induction l with
  | nil => rfl
  | cons a t ih =>
    simp only [any_cons, Bool.or_eq_false_iff, decide_eq_false_iff_not] at h
    rw [map_cons, ih h.2, clipByte_id a (by omega)]

theorem map_clip_id' (l : List Nat) (h : l.all (· ≤ 127) = true) : l.map clipByte = l := by
  induction l with
  | nil => rfl
  | cons a t ih =>
    simp only [all_cons, Bool.and_eq_true, decide_eq_true_eq] at h
    rw [map_cons, ih h.2, clipByte_id a h.1]

theorem map_clip_all (l : List Nat) : (l.map clipByte).all (· ≤ 127) = true := by
  simp only [all_map, all_eq_true, Function.comp_apply, decide_eq_true_eq]
  intro b _; exact clipByte_le b

theorem map_clip_any (l : List Nat) : (l.map clipByte).any (· > 127) = false := by
  induction l with
  | nil => rfl
  | cons a t ih =>
    simp only [map_cons, any_cons, ih, Bool.or_false, decide_eq_false_iff_not]
    have := clipByte_le a; omega

/-! ### strict success ⇒ same result with clip -/

/-- `readChannelish` with the message length made explicit -/
theorem readChannelish_eq (clip : Bool) (st : Nat) (peek bs : List Nat) (L : Nat)
    (hL : (match specLen st with | some n => n | none => 0) = L) :
    readChannelish clip st peek bs =
      if !definedStatus st then .error .OSError else
      if bs.length < L - 1 - peek.length then .error .EOFError else
      if !clip && (peek ++ bs.take (L - 1 - peek.length)).any (· > 127) then .error .OSError else
      match decodeNats (st :: (if clip then (peek ++ bs.take (L - 1 - peek.length)).map clipByte
                               else peek ++ bs.take (L - 1 - peek.length))) with
      | .ok m => .ok (.msg m, bs.drop (L - 1 - peek.length))
      | .error e => .error e := by
  subst hL; rfl

theorem readChannelish_strict_clip (st : Nat) (peek bs : List Nat) (r : FEv × List Nat)
    (h : readChannelish false st peek bs = .ok r) : readChannelish true st peek bs = .ok r := by
  rw [readChannelish_eq _ _ _ _ _ rfl] at h ⊢
  generalize (match specLen st with | some n => n | none => 0) = L at h ⊢
  by_cases hd : (!definedStatus st) = true
  · rw [if_pos hd] at h; cases h
  · rw [if_neg hd] at h ⊢
    by_cases hl : bs.length < L - 1 - peek.length
    · rw [if_pos hl] at h; cases h
    · rw [if_neg hl] at h ⊢
      by_cases hany : (peek ++ bs.take (L - 1 - peek.length)).any (· > 127) = true
      · simp [hany] at h
      · simp only [Bool.not_eq_true] at hany
        simp only [Bool.not_false, Bool.true_and, hany, Bool.false_eq_true, if_false] at h
        simp only [Bool.not_true, Bool.false_and, Bool.false_eq_true, if_false, if_true, map_clip_id _ hany]
        exact h

theorem readSysex_strict_clip (bs : List Nat) (r : FEv × List Nat)
    (h : readSysex false bs = .ok r) : readSysex true bs = .ok r := by
  unfold readSysex at h ⊢
  cases hv : readVlq bs with
  | error e => rw [hv] at h; cases h
  | ok v =>
    obtain ⟨len, r1⟩ := v
    rw [hv] at h
    simp only [bind, Except.bind] at h ⊢
    cases hb : readBytes len r1 with
    | error e => rw [hb] at h; cases h
    | ok w =>
      obtain ⟨data, r2⟩ := w
      rw [hb] at h
      simp only [Bool.false_eq_true, if_false, if_true] at h ⊢
      generalize (if (stripF0 data).getLast? = some 0xf7 then (stripF0 data).dropLast else stripF0 data) = d2 at h ⊢
      by_cases hall : d2.all (· ≤ 127) = true
      · rw [if_pos hall] at h
        rw [map_clip_id' _ hall, if_pos hall]; exact h
      · rw [if_neg hall] at h; cases h

theorem readEvent_strict_clip (cs : Charset) (last : Option Nat) (bs : List Nat) (r : LEvent × List Nat × Option Nat)
    (h : readEvent cs false last bs = .ok r) : readEvent cs true last bs = .ok r := by
  unfold readEvent at h ⊢
  cases hv : readVlq bs with
  | error e => rw [hv] at h; cases h
  | ok v =>
    obtain ⟨delta, r1⟩ := v
    rw [hv] at h
    simp only [bind, Except.bind] at h ⊢
    cases r1 with
    | nil => exact h
    | cons sb r2 =>
      simp only at h ⊢
      split
      · rename_i hsb; rw [if_pos hsb] at h
        cases last with
        | none => exact h
        | some st =>
          simp only at h ⊢
          split
          · rename_i hst; rw [if_pos hst] at h; exact h
          · rename_i hst; rw [if_neg hst] at h
            split
            · rename_i hst2; rw [if_pos hst2] at h
              cases hx : readSysex false r2 with
              | error e => rw [hx] at h; cases h
              | ok x => rw [hx] at h; rw [readSysex_strict_clip r2 x hx]; exact h
            · rename_i hst2; rw [if_neg hst2] at h
              cases hx : readChannelish false st [sb] r2 with
              | error e => rw [hx] at h; cases h
              | ok x => rw [hx] at h; rw [readChannelish_strict_clip st [sb] r2 x hx]; exact h
      · rename_i hsb; rw [if_neg hsb] at h
        split
        · rename_i h1; rw [if_pos h1] at h; exact h
        · rename_i h1; rw [if_neg h1] at h
          split
          · rename_i h2; rw [if_pos h2] at h
            cases hx : readSysex false r2 with
            | error e => rw [hx] at h; cases h
            | ok x => rw [hx] at h; rw [readSysex_strict_clip r2 x hx]; exact h
          · rename_i h2; rw [if_neg h2] at h
            cases hx : readChannelish false sb [] r2 with
            | error e => rw [hx] at h; cases h
            | ok x => rw [hx] at h; rw [readChannelish_strict_clip sb [] r2 x hx]; exact h

theorem readEvents_strict_clip (cs : Charset) (size : Nat) (fuel : Nat) : ∀ (consumed : Nat) (last : Option Nat)
    (bs : List Nat) (r : List LEvent × List Nat),
    readEvents cs false size fuel consumed last bs = .ok r → readEvents cs true size fuel consumed last bs = .ok r := by
  induction fuel with
  | zero => intro c l bs r h; simp [readEvents] at h
  | succ n ih =>
    intro c l bs r h
    unfold readEvents at h ⊢
    split
    · rename_i hc; rw [if_pos hc] at h; exact h
    · rename_i hc; rw [if_neg hc] at h
      simp only [bind, Except.bind] at h ⊢
      cases he : readEvent cs false l bs with
      | error e => rw [he] at h; cases h
      | ok x =>
        obtain ⟨e, rest, l'⟩ := x
        rw [he] at h; rw [readEvent_strict_clip cs l bs _ he]
        simp only at h ⊢
        cases hr : readEvents cs false size n (c + (bs.length - rest.length)) l' rest with
        | error e => rw [hr] at h; cases h
        | ok y => rw [hr] at h; rw [ih _ _ _ y hr]; exact h

theorem readTrack_strict_clip (cs : Charset) (bs : List Nat) (r : List LEvent × List Nat)
    (h : readTrack cs false bs = .ok r) : readTrack cs true bs = .ok r := by
  unfold readTrack at h ⊢
  split
  · rename_i h1; rw [if_pos h1] at h; exact h
  · rename_i h1; rw [if_neg h1] at h
    split
    · rename_i h2; rw [if_pos h2] at h; exact h
    · rename_i h2; rw [if_neg h2] at h
      exact readEvents_strict_clip cs _ _ _ _ _ r h

theorem readTracks_strict_clip (cs : Charset) (n : Nat) : ∀ (bs : List Nat) (ts : List (List LEvent)),
    readTracks cs false n bs = .ok ts → readTracks cs true n bs = .ok ts := by
  induction n with
  | zero => intro bs ts h; exact h
  | succ n ih =>
    intro bs ts h
    unfold readTracks at h ⊢
    simp only [bind, Except.bind] at h ⊢
    cases ht : readTrack cs false bs with
    | error e => rw [ht] at h; cases h
    | ok x =>
      obtain ⟨t, rest⟩ := x
      rw [ht] at h; rw [readTrack_strict_clip cs bs _ ht]
      simp only at h ⊢
      cases hr : readTracks cs false n rest with
      | error e => rw [hr] at h; cases h
      | ok y => rw [hr] at h; rw [ih rest y hr]; exact h

/-- **Whatever the strict reader accepts, the clipping reader reads identically** — for every byte string. -/
theorem readFile_strict_clip (cs : Charset) (bs : List Nat) (f : LFile)
    (h : readFile cs false bs = .ok f) : readFile cs true bs = .ok f := by
  unfold readFile at h ⊢
  split
  · rename_i h1; rw [if_pos h1] at h; exact h
  · rename_i h1; rw [if_neg h1] at h
    split
    · rename_i h2; rw [if_pos h2] at h; exact h
    · rename_i h2; rw [if_neg h2] at h
      simp only at h ⊢
      split
      · rename_i a b c d e f' tl heq
        rw [heq] at h
        simp only [bind, Except.bind] at h ⊢
        cases hr : readTracks cs false (s16 c d).toNat (drop (be32 (take 4 (drop 4 bs))) (drop 8 bs)) with
        | error e => rw [hr] at h; cases h
        | ok y => rw [hr] at h; rw [readTracks_strict_clip cs _ _ y hr]; exact h
      · rename_i hne
        split at h
        · rename_i a b c d e f' tl heq
          exact absurd heq (hne a b c d e f' tl)
        · exact h

/-! ### per event: clipping = strict reading of the clipped bytes -/

/-- the bytes of a channel / system-common message with the data bytes it will consume clipped -/
def clipFront (n : Nat) (bs : List Nat) : List Nat := (bs.take n).map clipByte ++ bs.drop n

theorem clipFront_length (n : Nat) (bs : List Nat) : (clipFront n bs).length = bs.length := by
  simp [clipFront]; omega

/-- **Clipping a message = strict reading after replacing each of its data bytes above 127 by 127.** -/
theorem readChannelish_clip (st : Nat) (peek bs : List Nat) (L : Nat)
    (hL : (match specLen st with | some n => n | none => 0) = L) :
    readChannelish true st peek bs =
      readChannelish false st (peek.map clipByte) (clipFront (L - 1 - peek.length) bs) := by
  rw [readChannelish_eq _ _ _ _ L hL, readChannelish_eq _ _ _ _ L hL]
  simp only [length_map, clipFront_length]
  by_cases hd : (!definedStatus st) = true
  · rw [if_pos hd, if_pos hd]
  · rw [if_neg hd, if_neg hd]
    by_cases hl : bs.length < L - 1 - peek.length
    · rw [if_pos hl, if_pos hl]
    · rw [if_neg hl, if_neg hl]
      have e1 : (clipFront (L - 1 - peek.length) bs).take (L - 1 - peek.length) =
          (bs.take (L - 1 - peek.length)).map clipByte := by
        unfold clipFront
        rw [take_left' (by simp; omega)]
      have e2 : (clipFront (L - 1 - peek.length) bs).drop (L - 1 - peek.length) = bs.drop (L - 1 - peek.length) := by
        unfold clipFront
        rw [drop_left' (by simp; omega)]
      rw [e1, e2, ← map_append]
      simp only [Bool.not_true, Bool.false_and, Bool.false_eq_true, if_false, if_true, Bool.not_false, Bool.true_and,
        map_clip_any]

/-- the framing of a sysex event, before any data check: payload (without a repeated F0 and the closing F7) and rest -/
def sysexPayload (bs : List Nat) : Except Err (List Nat × List Nat) := do
  let (len, r1) ← readVlq bs
  let (data, r2) ← readBytes len r1
  let d1 := stripF0 data
  pure (if d1.getLast? = some 0xf7 then d1.dropLast else d1, r2)

/-- **Sysex, clip on/off**: same framing; with clip each payload byte above 127 becomes 127, without it such a byte is
    an error. -/
theorem readSysex_clip_spec (clip : Bool) (bs : List Nat) :
    readSysex clip bs = (do
      let (d, r) ← sysexPayload bs
      if clip then pure (.msg (.sysex (d.map clipByte)), r)
      else if d.all (· ≤ 127) then pure (.msg (.sysex d), r) else throw .ValueError) := by
  unfold readSysex sysexPayload
  cases hv : readVlq bs with
  | error e => rfl
  | ok v =>
    obtain ⟨len, r1⟩ := v
    simp only [bind, Except.bind]
    cases hb : readBytes len r1 with
    | error e => rfl
    | ok w =>
      obtain ⟨data, r2⟩ := w
      cases clip with
      | false => rfl
      | true => simp only [if_true, map_clip_all, pure, Except.pure]

/-! ### clip success ⇒ the strict reader gives the same or stops at a data byte -/

/-- the two errors mido raises for a data byte above 127 -/
def DataErr (e : Err) : Prop := e = .OSError ∨ e = .ValueError

theorem readChannelish_clip_strict (st : Nat) (peek bs : List Nat) (r : FEv × List Nat)
    (h : readChannelish true st peek bs = .ok r) :
    readChannelish false st peek bs = .ok r ∨ ∃ e, DataErr e ∧ readChannelish false st peek bs = .error e := by
  rw [readChannelish_eq _ _ _ _ _ rfl] at h ⊢
  generalize (match specLen st with | some n => n | none => 0) = L at h ⊢
  by_cases hd : (!definedStatus st) = true
  · rw [if_pos hd] at h; cases h
  · rw [if_neg hd] at h ⊢
    by_cases hl : bs.length < L - 1 - peek.length
    · rw [if_pos hl] at h; cases h
    · rw [if_neg hl] at h ⊢
      by_cases hany : (peek ++ bs.take (L - 1 - peek.length)).any (· > 127) = true
      · right; exact ⟨.OSError, .inl rfl, by simp [hany]⟩
      · left
        simp only [Bool.not_eq_true] at hany
        simp only [Bool.not_true, Bool.false_and, Bool.false_eq_true, if_false, if_true, map_clip_id _ hany] at h
        simp only [Bool.not_false, Bool.true_and, hany, Bool.false_eq_true, if_false]
        exact h

theorem readSysex_clip_strict (bs : List Nat) (r : FEv × List Nat) (h : readSysex true bs = .ok r) :
    readSysex false bs = .ok r ∨ ∃ e, DataErr e ∧ readSysex false bs = .error e := by
  rw [readSysex_clip_spec] at h ⊢
  cases hp : sysexPayload bs with
  | error e => rw [hp] at h; cases h
  | ok x =>
    obtain ⟨d, r2⟩ := x
    rw [hp] at h
    simp only [bind, Except.bind, if_true, Bool.false_eq_true, if_false] at h ⊢
    by_cases hall : d.all (· ≤ 127) = true
    · left; rw [if_pos hall]; rw [map_clip_id' _ hall] at h; exact h
    · right; exact ⟨.ValueError, .inr rfl, by rw [if_neg hall]; rfl⟩

/-- glue: a step whose strict version is "same or data error", followed by the same continuation -/
theorem bind_same_or_err {α β} (x y : Except Err α) (k : α → Except Err β) (r : β) (a : α)
    (hx : x = .ok a) (hy : y = .ok a ∨ ∃ e, DataErr e ∧ y = .error e) (h : k a = .ok r) :
    (y >>= k) = .ok r ∨ ∃ e, DataErr e ∧ (y >>= k) = .error e := by
  cases hy with
  | inl hy => left; rw [hy]; exact h
  | inr hy => obtain ⟨e, he, hy⟩ := hy; right; exact ⟨e, he, by rw [hy]; rfl⟩

theorem readEvent_clip_strict (cs : Charset) (last : Option Nat) (bs : List Nat) (r : LEvent × List Nat × Option Nat)
    (h : readEvent cs true last bs = .ok r) :
    readEvent cs false last bs = .ok r ∨ ∃ e, DataErr e ∧ readEvent cs false last bs = .error e := by
  unfold readEvent at h ⊢
  cases hv : readVlq bs with
  | error e => rw [hv] at h; cases h
  | ok v =>
    obtain ⟨delta, r1⟩ := v
    rw [hv] at h
    simp only [bind, Except.bind] at h ⊢
    cases r1 with
    | nil => cases h
    | cons sb r2 =>
      simp only at h ⊢
      by_cases hsb : sb < 0x80
      · rw [if_pos hsb] at h ⊢
        cases last with
        | none => cases h
        | some st =>
          simp only at h ⊢
          by_cases hst : st = 0xff
          · rw [if_pos hst] at h ⊢; left; exact h
          · rw [if_neg hst] at h ⊢
            by_cases hst2 : st = 0xf0 ∨ st = 0xf7
            · rw [if_pos hst2] at h ⊢
              cases hx : readSysex true r2 with
              | error e => rw [hx] at h; cases h
              | ok x =>
                rw [hx] at h
                rcases readSysex_clip_strict r2 x hx with h' | ⟨e, he, h'⟩
                · left; rw [h']; exact h
                · right; exact ⟨e, he, by rw [h']⟩
            · rw [if_neg hst2] at h ⊢
              cases hx : readChannelish true st [sb] r2 with
              | error e => rw [hx] at h; cases h
              | ok x =>
                rw [hx] at h
                rcases readChannelish_clip_strict st [sb] r2 x hx with h' | ⟨e, he, h'⟩
                · left; rw [h']; exact h
                · right; exact ⟨e, he, by rw [h']⟩
      · rw [if_neg hsb] at h ⊢
        by_cases h1 : sb = 0xff
        · rw [if_pos h1] at h ⊢; left; exact h
        · rw [if_neg h1] at h ⊢
          by_cases h2 : sb = 0xf0 ∨ sb = 0xf7
          · rw [if_pos h2] at h ⊢
            cases hx : readSysex true r2 with
            | error e => rw [hx] at h; cases h
            | ok x =>
              rw [hx] at h
              rcases readSysex_clip_strict r2 x hx with h' | ⟨e, he, h'⟩
              · left; rw [h']; exact h
              · right; exact ⟨e, he, by rw [h']⟩
          · rw [if_neg h2] at h ⊢
            cases hx : readChannelish true sb [] r2 with
            | error e => rw [hx] at h; cases h
            | ok x =>
              rw [hx] at h
              rcases readChannelish_clip_strict sb [] r2 x hx with h' | ⟨e, he, h'⟩
              · left; rw [h']; exact h
              · right; exact ⟨e, he, by rw [h']⟩

theorem readEvents_clip_strict (cs : Charset) (size : Nat) (fuel : Nat) : ∀ (consumed : Nat) (last : Option Nat)
    (bs : List Nat) (r : List LEvent × List Nat),
    readEvents cs true size fuel consumed last bs = .ok r →
    readEvents cs false size fuel consumed last bs = .ok r ∨
      ∃ e, DataErr e ∧ readEvents cs false size fuel consumed last bs = .error e := by
  induction fuel with
  | zero => intro c l bs r h; simp [readEvents] at h
  | succ n ih =>
    intro c l bs r h
    unfold readEvents at h ⊢
    by_cases hc : c = size
    · rw [if_pos hc] at h ⊢; left; exact h
    · rw [if_neg hc] at h ⊢
      simp only [bind, Except.bind] at h ⊢
      cases he : readEvent cs true l bs with
      | error e => rw [he] at h; cases h
      | ok x =>
        obtain ⟨e, rest, l'⟩ := x
        rw [he] at h
        rcases readEvent_clip_strict cs l bs _ he with h' | ⟨e', he', h'⟩
        · rw [h']
          simp only at h ⊢
          cases hr : readEvents cs true size n (c + (bs.length - rest.length)) l' rest with
          | error e => rw [hr] at h; cases h
          | ok y =>
            rw [hr] at h
            rcases ih _ _ _ y hr with h'' | ⟨e'', he'', h''⟩
            · left; rw [h'']; exact h
            · right; exact ⟨e'', he'', by rw [h'']⟩
        · right; exact ⟨e', he', by rw [h']⟩

theorem readTrack_clip_strict (cs : Charset) (bs : List Nat) (r : List LEvent × List Nat)
    (h : readTrack cs true bs = .ok r) :
    readTrack cs false bs = .ok r ∨ ∃ e, DataErr e ∧ readTrack cs false bs = .error e := by
  unfold readTrack at h ⊢
  by_cases h1 : bs.length < 8
  · rw [if_pos h1] at h; cases h
  · rw [if_neg h1] at h ⊢
    by_cases h2 : bs.take 4 ≠ mtrk
    · rw [if_pos h2] at h; cases h
    · rw [if_neg h2] at h ⊢
      exact readEvents_clip_strict cs _ _ _ _ _ r h

theorem readTracks_clip_strict (cs : Charset) (n : Nat) : ∀ (bs : List Nat) (ts : List (List LEvent)),
    readTracks cs true n bs = .ok ts →
    readTracks cs false n bs = .ok ts ∨ ∃ e, DataErr e ∧ readTracks cs false n bs = .error e := by
  induction n with
  | zero => intro bs ts h; left; exact h
  | succ n ih =>
    intro bs ts h
    unfold readTracks at h ⊢
    simp only [bind, Except.bind] at h ⊢
    cases ht : readTrack cs true bs with
    | error e => rw [ht] at h; cases h
    | ok x =>
      obtain ⟨t, rest⟩ := x
      rw [ht] at h
      rcases readTrack_clip_strict cs bs _ ht with h' | ⟨e', he', h'⟩
      · rw [h']
        simp only at h ⊢
        cases hr : readTracks cs true n rest with
        | error e => rw [hr] at h; cases h
        | ok y =>
          rw [hr] at h
          rcases ih rest y hr with h'' | ⟨e'', he'', h''⟩
          · left; rw [h'']; exact h
          · right; exact ⟨e'', he'', by rw [h'']⟩
      · right; exact ⟨e', he', by rw [h']⟩

/-- **If the clipping reader accepts a byte string, the strict reader either returns the same file or stops with the
    error mido raises for a data byte above 127** (never with another error, never with a different file). -/
theorem readFile_clip_strict (cs : Charset) (bs : List Nat) (f : LFile) (h : readFile cs true bs = .ok f) :
    readFile cs false bs = .ok f ∨ ∃ e, DataErr e ∧ readFile cs false bs = .error e := by
  unfold readFile at h ⊢
  by_cases h1 : bs.length < 8
  · rw [if_pos h1] at h; cases h
  · rw [if_neg h1] at h ⊢
    by_cases h2 : bs.take 4 ≠ mthd
    · rw [if_pos h2] at h; cases h
    · rw [if_neg h2] at h ⊢
      simp only at h ⊢
      split at h
      · rename_i a b c d e f' tl heq
        simp only [bind, Except.bind] at h ⊢
        cases hr : readTracks cs true (s16 c d).toNat (drop (be32 (take 4 (drop 4 bs))) (drop 8 bs)) with
        | error e => rw [hr] at h; cases h
        | ok y =>
          rw [hr] at h
          rcases readTracks_clip_strict cs _ _ y hr with h' | ⟨e', he', h'⟩
          · left; rw [h']; exact h
          · right; exact ⟨e', he', by rw [h']⟩
      · cases h

end Mido
