import MidoModel.Tracks
/-!
  C12 — merge_tracks keeps every event at its absolute time.
-/
namespace Mido
open List

def notEot (e : TEv) : Bool := !e.eot

/-! ### helper lemmas -/

theorem fix_abs : ∀ (es : List TEv) (s acc : Nat), acc ≤ s →
    absFrom (s - acc) (fixAcc acc es).1 = (absFrom s es).filter notEot
    ∧ (totalFrom (s - acc) (fixAcc acc es).1) + (fixAcc acc es).2 = totalFrom s es := by
  intro es
  induction es with
  | nil => intro s acc h; simp [fixAcc, absFrom, totalFrom]; omega
  | cons e es ih =>
    intro s acc h
    by_cases he : e.eot
    · have := ih (s + e.time) (acc + e.time) (by omega)
      have hs : s + e.time - (acc + e.time) = s - acc := by omega
      simp only [fixAcc, he, if_true, absFrom, List.filter, totalFrom, List.foldl, notEot] at this ⊢
      rw [hs] at this
      simpa [he, totalFrom, notEot] using this
    · have := ih (s + e.time) 0 (by omega)
      simp only [Nat.sub_zero] at this
      by_cases ha : acc = 0
      · subst ha
        simp [fixAcc, he, absFrom, List.filter, totalFrom, List.foldl, notEot] at this ⊢
        exact this
      · have e1 : s - acc + (acc + e.time) = s + e.time := by omega
        simp [fixAcc, he, ha, absFrom, List.filter, totalFrom, List.foldl, e1, notEot] at this ⊢
        exact this

theorem fixAcc_noEot : ∀ (es : List TEv) (acc : Nat), ∀ e ∈ (fixAcc acc es).1, e.eot = false := by
  intro es
  induction es with
  | nil => intro acc e h; simp [fixAcc] at h
  | cons x xs ih =>
    intro acc e h
    by_cases hx : x.eot
    · simp only [fixAcc, hx, if_true] at h; exact ih _ e h
    · simp only [fixAcc, hx] at h
      rcases mem_cons.mp h with rfl | h
      · by_cases ha : acc ≠ 0 <;> simp [ha, hx]
      · exact ih _ e h

theorem absFrom_append (s : Nat) (a b : List TEv) :
    absFrom s (a ++ b) = absFrom s a ++ absFrom (totalFrom s a) b := by
  induction a generalizing s with
  | nil => rfl
  | cons x xs ih => simp [absFrom, totalFrom, ih]

theorem totalFrom_append (s : Nat) (a b : List TEv) :
    totalFrom s (a ++ b) = totalFrom (totalFrom s a) b := by simp [totalFrom]

/-- on a list sorted by time, differences then running sum is the identity -/
theorem abs_rel (S : List TEv) : ∀ now, S.Pairwise (fun a b => a.time ≤ b.time) →
    (∀ e ∈ S, now ≤ e.time) → absFrom now (relFrom now S) = S := by
  induction S with
  | nil => intros; rfl
  | cons x xs ih =>
    intro now hp hn
    have hx := hn x (by simp)
    rw [pairwise_cons] at hp
    simp only [relFrom, absFrom]
    have e : now + (x.time - now) = x.time := by omega
    rw [e, ih x.time hp.2 hp.1]

theorem total_rel (S : List TEv) : ∀ now, S.Pairwise (fun a b => a.time ≤ b.time) →
    (∀ e ∈ S, now ≤ e.time) →
    totalFrom now (relFrom now S) = (S.getLast?.map (·.time)).getD now := by
  induction S with
  | nil => intros; rfl
  | cons x xs ih =>
    intro now hp hn
    have hx := hn x (by simp)
    rw [pairwise_cons] at hp
    simp only [relFrom, totalFrom, foldl_cons]
    have e : now + (x.time - now) = x.time := by omega
    rw [e]
    have := ih x.time hp.2 hp.1
    simp only [totalFrom] at this
    rw [this]
    cases xs with
    | nil => rfl
    | cons y ys =>
      have hl : (y :: ys).getLast? = some ((y :: ys).getLast (by simp)) := getLast?_eq_some_getLast (by simp)
      simp [getLast?_cons_cons, hl]

theorem leTime_trans : ∀ a b c : TEv, leTime a b = true → leTime b c = true → leTime a c = true := by
  intro a b c h1 h2; simp [leTime] at *; omega
theorem leTime_total : ∀ a b : TEv, (leTime a b || leTime b a) = true := by
  intro a b; simp [leTime]; omega

/-- the sorted list of all events at their absolute ticks -/
def sortedAll (ts : List (List TEv)) : List TEv := (ts.flatMap toAbs).mergeSort leTime

theorem sortedAll_pairwise (ts : List (List TEv)) :
    (sortedAll ts).Pairwise (fun a b => a.time ≤ b.time) := by
  have := pairwise_mergeSort leTime_trans leTime_total (ts.flatMap toAbs)
  exact this.imp (by intro a b h; simpa [leTime] using h)

/-- the absolute-time view of the merged track, without end_of_track events, is the sorted list
    of all input events without end_of_track events -/
theorem merged_abs (ts : List (List TEv)) :
    (toAbs (mergeTracks ts)).filter notEot = (sortedAll ts).filter notEot := by
  have hp := sortedAll_pairwise ts
  have h1 := abs_rel (sortedAll ts) 0 hp (by simp)
  have h2 := (fix_abs (relFrom 0 (sortedAll ts)) 0 0 (Nat.le_refl _)).1
  simp only [Nat.sub_zero] at h2
  rw [h1] at h2
  simp only [toAbs, mergeTracks, fixEOT, toRel, absFrom_append, filter_append]
  rw [show (ts.flatMap toAbs).mergeSort leTime = sortedAll ts from rfl, h2]
  simp [absFrom, notEot]
  rfl

/-! ### the property theorems -/

/-- the non-end_of_track events of all inputs at their absolute ticks, in track order then
    in-track order -/
def A (ts : List (List TEv)) : List TEv := (ts.flatMap toAbs).filter notEot
/-- the non-end_of_track events of the merged track at their absolute ticks -/
def R (ts : List (List TEv)) : List TEv := (toAbs (mergeTracks ts)).filter notEot

/-- exactly the non-end_of_track messages of all inputs, each at the same absolute tick -/
theorem C12_perm (ts : List (List TEv)) : (R ts).Perm (A ts) := by
  rw [R, merged_abs]
  exact (mergeSort_perm _ _).filter _

/-- ordered by absolute time -/
theorem C12_sorted (ts : List (List TEv)) : (R ts).Pairwise (fun a b => a.time ≤ b.time) := by
  rw [R, merged_abs]
  exact (sortedAll_pairwise ts).sublist filter_sublist

/-- ties are kept in track order and then in-track order (stability): two events that appear in
    that order in the inputs and are not out of time order appear in that order in the result -/
theorem C12_stable (ts : List (List TEv)) (a b : TEv) (h : [a, b] <+ A ts) (hab : a.time ≤ b.time) :
    [a, b] <+ R ts := by
  rw [R, merged_abs]
  have hmem : a ∈ A ts ∧ b ∈ A ts := ⟨h.subset (by simp), h.subset (by simp)⟩
  have ha : notEot a = true := (mem_filter.mp hmem.1).2
  have hb : notEot b = true := (mem_filter.mp hmem.2).2
  have h1 : [a, b] <+ ts.flatMap toAbs := h.trans filter_sublist
  have h2 : [a, b] <+ sortedAll ts :=
    pair_sublist_mergeSort leTime_trans leTime_total (by simpa [leTime] using hab) h1
  have := h2.filter notEot
  simpa [ha, hb] using this

/-- the result ends with exactly one end_of_track -/
theorem C12_one_eot (ts : List (List TEv)) :
    ∃ init d, mergeTracks ts = init ++ [⟨eotId, true, d⟩] ∧ ∀ e ∈ init, e.eot = false :=
  ⟨_, _, rfl, fixAcc_noEot _ _⟩

/-! duration -/
def maxTime (l : List TEv) : Nat := l.foldl (fun m e => max m e.time) 0

theorem foldl_max_ge (l : List TEv) (m : Nat) :
    m ≤ l.foldl (fun m e => max m e.time) m ∧ ∀ e ∈ l, e.time ≤ l.foldl (fun m e => max m e.time) m := by
  induction l generalizing m with
  | nil => simp
  | cons x xs ih =>
    simp only [foldl_cons]
    have := ih (max m x.time)
    refine ⟨by omega, ?_⟩
    intro e he
    rcases mem_cons.mp he with rfl | he
    · omega
    · exact this.2 e he

theorem foldl_max_attained (l : List TEv) (m : Nat) :
    l.foldl (fun m e => max m e.time) m = m ∨ ∃ e ∈ l, e.time = l.foldl (fun m e => max m e.time) m := by
  induction l generalizing m with
  | nil => left; rfl
  | cons x xs ih =>
    simp only [foldl_cons]
    rcases ih (max m x.time) with h | ⟨e, he, h⟩
    · rw [h]
      by_cases hx : m ≤ x.time
      · right; exact ⟨x, by simp, by omega⟩
      · left; omega
    · right; exact ⟨e, by simp [he], h⟩

theorem maxTime_perm {l₁ l₂ : List TEv} (h : l₁.Perm l₂) : maxTime l₁ = maxTime l₂ := by
  have key : ∀ a b : List TEv, (∀ e, e ∈ a → e ∈ b) → maxTime a ≤ maxTime b := by
    intro a b hab
    rcases foldl_max_attained a 0 with h0 | ⟨e, he, h1⟩
    · unfold maxTime; rw [h0]; exact Nat.zero_le _
    · have := (foldl_max_ge b 0).2 e (hab e he)
      unfold maxTime; omega
  exact Nat.le_antisymm (key _ _ (fun e he => h.subset he)) (key _ _ (fun e he => h.symm.subset he))

theorem maxTime_sorted (S : List TEv) (hp : S.Pairwise (fun a b => a.time ≤ b.time)) :
    maxTime S = (S.getLast?.map (·.time)).getD 0 := by
  have gen : ∀ (S : List TEv) (m : Nat), S.Pairwise (fun a b => a.time ≤ b.time) → (∀ e ∈ S, m ≤ e.time) →
      S.foldl (fun m e => max m e.time) m = (S.getLast?.map (·.time)).getD m := by
    intro S
    induction S with
    | nil => intros; rfl
    | cons x xs ih =>
      intro m hp hm
      rw [pairwise_cons] at hp
      have hx := hm x (by simp)
      simp only [foldl_cons]
      have e : max m x.time = x.time := by omega
      rw [e, ih x.time hp.2 hp.1]
      cases xs with
      | nil => rfl
      | cons y ys =>
        have hl : (y :: ys).getLast? = some ((y :: ys).getLast (by simp)) := getLast?_eq_some_getLast (by simp)
        simp [getLast?_cons_cons, hl]
  exact gen S 0 hp (by simp)

theorem absFrom_maxTime (tr : List TEv) (s : Nat) :
    (absFrom s tr).foldl (fun m e => max m e.time) s = totalFrom s tr := by
  induction tr generalizing s with
  | nil => rfl
  | cons x xs ih =>
    simp only [absFrom, foldl_cons, totalFrom]
    have e : max s (s + x.time) = s + x.time := by omega
    rw [e]; exact ih _

theorem foldl_max_mono (l : List TEv) (a b : Nat) :
    l.foldl (fun m e => max m e.time) (max a b) = max a (l.foldl (fun m e => max m e.time) b) := by
  induction l generalizing a b with
  | nil => rfl
  | cons x xs ih =>
    simp only [foldl_cons]
    have : max (max a b) x.time = max a (max b x.time) := by omega
    rw [this, ih]

theorem maxTime_flatMap (ts : List (List TEv)) :
    maxTime (ts.flatMap toAbs) = (ts.map total).foldl max 0 := by
  have gen : ∀ (ts : List (List TEv)) (m : Nat),
      (ts.flatMap toAbs).foldl (fun m e => max m e.time) m = (ts.map total).foldl max m := by
    intro ts
    induction ts with
    | nil => intro m; rfl
    | cons tr rest ih =>
      intro m
      simp only [flatMap_cons, foldl_append, map_cons, foldl_cons]
      have : (toAbs tr).foldl (fun m e => max m e.time) m = max m (total tr) := by
        have h0 := absFrom_maxTime tr 0
        have := foldl_max_mono (toAbs tr) m 0
        simp only [Nat.max_zero] at this
        rw [this]; unfold toAbs total; rw [h0]
      rw [this, ih]
  exact gen ts 0

/-- the total duration of the merged track equals that of the longest input track (trailing
    end_of_track deltas included) -/
theorem C12_duration (ts : List (List TEv)) : total (mergeTracks ts) = (ts.map total).foldl max 0 := by
  have hp := sortedAll_pairwise ts
  have h2 := (fix_abs (relFrom 0 (sortedAll ts)) 0 0 (Nat.le_refl _)).2
  simp only [Nat.sub_zero] at h2
  have h3 := total_rel (sortedAll ts) 0 hp (by simp)
  have : total (mergeTracks ts) = totalFrom 0 (relFrom 0 (sortedAll ts)) := by
    simp only [total, mergeTracks, fixEOT, toRel, totalFrom_append]
    rw [show (ts.flatMap toAbs).mergeSort leTime = sortedAll ts from rfl, ← h2]
    simp [totalFrom]
  rw [this, h3, ← maxTime_sorted _ hp, ← maxTime_flatMap]
  exact maxTime_perm (mergeSort_perm _ _)

/-- no tracks, or only empty ones, give a lone end_of_track at time 0 -/
theorem C12_empty : mergeTracks [] = [⟨eotId, true, 0⟩] ∧ mergeTracks [[]] = [⟨eotId, true, 0⟩] := by
  constructor <;> simp [mergeTracks, toAbs, absFrom, toRel, relFrom, fixEOT, fixAcc]

/-! Non-vacuity: a tie across tracks and an end_of_track in the middle (test of the model). -/
example : fixEOT (toRel [⟨1, false, 5⟩, ⟨2, true, 8⟩, ⟨3, false, 8⟩, ⟨4, false, 8⟩, ⟨5, true, 18⟩])
    = [⟨1, false, 5⟩, ⟨3, false, 3⟩, ⟨4, false, 0⟩, ⟨0, true, 10⟩] := by decide

end Mido
