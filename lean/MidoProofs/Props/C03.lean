import MidoModel.MsgObj
/-!
  C03 — no invalid message state is reachable through the checked API.
-/
namespace Mido
open List

theorem applyKw_length (t : MType) (kw : List (String × PyVal)) : ∀ (vals : List PyVal) (time : PyVal) (unk : List String),
    (applyKw t kw vals time unk).1.length = vals.length := by
  induction kw with
  | nil => intros; rfl
  | cons nv r ih =>
    intro vals time unk
    obtain ⟨n, v⟩ := nv
    simp only [applyKw]
    split
    · exact ih _ _ _
    · split
      · rw [ih]; simp
      · exact ih _ _ _

theorem normData_spec (t : MType) (vals vals' : List PyVal) (h : normData t vals = .ok vals') :
    vals'.length = vals.length ∧
    (t = .sysex → vals.length = 1 → ∃ xs d, vals = [d] ∧ iterItems d = .ok xs ∧ vals' = [.tuple xs]) ∧
    (t ≠ .sysex → vals' = vals) := by
  unfold normData at h
  split at h
  · rename_i d
    cases hi : iterItems d with
    | error e => rw [hi] at h; cases h
    | ok xs =>
      rw [hi] at h; simp only [Except.map, Except.ok.injEq] at h; subst h
      exact ⟨rfl, fun _ _ => ⟨xs, d, rfl, hi, rfl⟩, fun hn => absurd rfl hn⟩
  · rename_i hns
    cases h
    refine ⟨rfl, ?_, fun _ => rfl⟩
    intro ht hl
    subst ht
    match vals, hl with
    | [d], _ => exact (hns d rfl rfl).elim

theorem checkAll_ok {t : MType} {vals : List PyVal} {time : PyVal} {unk : List String}
    (h : checkAll t vals time unk = .ok ()) :
    checkAttr "time" time = .ok () ∧ checkVals t.valueNames vals = .ok () ∧ unk = [] := by
  unfold checkAll at h
  cases h1 : checkAttr "time" time with
  | error e => rw [h1] at h; simp [bind, Except.bind] at h
  | ok u =>
    rw [h1] at h; simp only [bind, Except.bind] at h
    cases h2 : checkVals t.valueNames vals with
    | error e => rw [h2] at h; cases h
    | ok u2 =>
      rw [h2] at h; simp only at h
      cases hu : unk with
      | nil => exact ⟨rfl, rfl, rfl⟩
      | cons a b => rw [hu] at h; simp [throw, throwThe, MonadExceptOf.throw] at h

theorem iterItems_tuple (xs : List Item) : iterItems (.tuple xs) = .ok xs := rfl

/-- re-checking a normalised data tuple gives the same verdict as checking the original -/
theorem checkVals_sysex_norm (d : PyVal) (xs : List Item) (hi : iterItems d = .ok xs) :
    checkVals ["data"] [.tuple xs] = checkVals ["data"] [d] := by
  simp [checkVals, checkAttr, hi, iterItems_tuple, bind, Except.bind]

theorem valueNames_length (t : MType) : t = .sysex → t.valueNames.length = 1 := by
  intro h; subst h; rfl

theorem construct_valid (ty : String) (kw : List (String × PyVal)) (o : MObj) (h : construct ty kw = .ok o) :
    o.valid = true := by
  unfold construct at h
  cases ht : MType.ofName ty with
  | none => rw [ht] at h; cases h
  | some t =>
    rw [ht] at h
    simp only [bind, Except.bind] at h
    generalize hak : applyKw t kw (t.valueNames.map defaultOf) (.int 0) [] = ak at h
    obtain ⟨vals, time, unk⟩ := ak
    have hlen : vals.length = t.valueNames.length := by
      have := applyKw_length t kw (t.valueNames.map defaultOf) (.int 0) []
      rw [hak] at this; simpa using this
    simp only at h
    cases hn : normData t vals with
    | error e => rw [hn] at h; cases h
    | ok vals' =>
      rw [hn] at h; simp only at h
      cases hc : checkAll t vals' time unk with
      | error e => rw [hc] at h; cases h
      | ok u =>
        rw [hc] at h; simp only [pure, Except.pure, Except.ok.injEq] at h; subst h
        obtain ⟨h1, h2, _⟩ := checkAll_ok hc
        obtain ⟨hl', hsx, _⟩ := normData_spec t vals vals' hn
        simp only [MObj.valid, hl', hlen, beq_self_eq_true, h1, h2, Bool.true_and]
        by_cases hs : t = .sysex
        · subst hs
          obtain ⟨xs, d, _, _, e3⟩ := hsx rfl (by rw [hlen]; rfl)
          rw [e3]
        · cases t <;> first | exact absurd rfl hs | rfl

theorem checkVals_set (names : List String) (vals : List PyVal) (i : Nat) (name : String) (v : PyVal)
    (hidx : indexOfName.go name names 0 = some i → True)
    (hall : checkVals names vals = .ok ()) (hi : names[i]? = some name) (hv : checkAttr name v = .ok ()) :
    checkVals names (vals.set i v) = .ok () := by
  induction names generalizing vals i with
  | nil => simp at hi
  | cons n ns ih =>
    cases vals with
    | nil => simp [checkVals]
    | cons x xs =>
      simp only [checkVals, bind, Except.bind] at hall
      cases hx : checkAttr n x with
      | error e => rw [hx] at hall; cases hall
      | ok u =>
        rw [hx] at hall
        cases i with
        | zero =>
          simp only [getElem?_cons_zero, Option.some.injEq] at hi; subst hi
          simp only [set_cons_zero, checkVals, bind, Except.bind, hv]; exact hall
        | succ j =>
          simp only [getElem?_cons_succ] at hi
          simp only [set_cons_succ, checkVals, bind, Except.bind, hx]
          exact ih xs j (fun _ => trivial) hall hi

theorem indexOfName_get (names : List String) (n : String) (i : Nat) (h : indexOfName names n = some i) :
    names[i]? = some n := by
  have gen : ∀ (l : List String) (k i : Nat), indexOfName.go n l k = some i → k ≤ i ∧ l[i - k]? = some n := by
    intro l
    induction l with
    | nil => intro k i h; simp [indexOfName.go] at h
    | cons x r ih =>
      intro k i h
      simp only [indexOfName.go] at h
      by_cases hx : (x == n) = true
      · rw [if_pos hx] at h; cases h
        exact ⟨Nat.le_refl _, by simp [beq_iff_eq.mp hx]⟩
      · rw [if_neg hx] at h
        obtain ⟨h1, h2⟩ := ih (k + 1) i h
        refine ⟨by omega, ?_⟩
        have : i - k = (i - (k + 1)) + 1 := by omega
        rw [this, getElem?_cons_succ]; exact h2
  have := gen names 0 i h
  simpa using this.2

/-- the validity predicate, unfolded -/
theorem valid_iff (o : MObj) : o.valid = true ↔
    o.vals.length = o.type.valueNames.length ∧ checkAttr "time" o.time = .ok () ∧
    checkVals o.type.valueNames o.vals = .ok () ∧ (o.type = .sysex → ∃ xs, o.vals = [.tuple xs]) := by
  unfold MObj.valid
  constructor
  · intro h
    simp only [Bool.and_eq_true, beq_iff_eq] at h
    obtain ⟨⟨⟨h1, h2⟩, h3⟩, h4⟩ := h
    refine ⟨h1, ?_, ?_, ?_⟩
    · cases hc : checkAttr "time" o.time with
      | ok u => rfl
      | error e => rw [hc] at h2; cases h2
    · cases hc : checkVals o.type.valueNames o.vals with
      | ok u => rfl
      | error e => rw [hc] at h3; cases h3
    · intro hs
      rw [hs] at h4
      match hv : o.vals, h4 with
      | [.tuple xs], _ => exact ⟨xs, rfl⟩
  · intro ⟨h1, h2, h3, h4⟩
    simp only [h1, beq_self_eq_true, h2, h3, Bool.true_and]
    by_cases hs : o.type = .sysex
    · obtain ⟨xs, hx⟩ := h4 hs
      rw [hs, hx]
    · cases ht : o.type <;> first | exact absurd ht hs | rfl

/-- `setattr` keeps validity, the type and the number of attributes -/
theorem setAttr_valid (o o' : MObj) (name : String) (v : PyVal) (hv : o.valid = true)
    (h : setAttr o name v = .ok o') : o'.valid = true ∧ o'.type = o.type := by
  obtain ⟨hl, ht, hvals, hsx⟩ := (valid_iff o).mp hv
  unfold setAttr at h
  split at h
  · cases h
  split at h
  · cases hc : checkAttr "time" v with
    | error e => rw [hc] at h; simp [bind, Except.bind] at h
    | ok u =>
      rw [hc] at h; simp only [bind, Except.bind, pure, Except.pure, Except.ok.injEq] at h; subst h
      exact ⟨(valid_iff _).mpr ⟨hl, hc, hvals, hsx⟩, rfl⟩
  · cases hidx : indexOfName o.type.valueNames name with
    | none => rw [hidx] at h; cases h
    | some i =>
      rw [hidx] at h
      simp only [bind, Except.bind] at h
      cases hc : checkAttr name v with
      | error e => rw [hc] at h; cases h
      | ok u =>
        rw [hc] at h; simp only at h
        have hget := indexOfName_get _ _ _ hidx
        by_cases hd : (name == "data") = true
        · have hname : name = "data" := beq_iff_eq.mp hd
          rw [if_pos hd] at h
          cases hit : iterItems v with
          | error e => rw [hit] at h; simp [Except.map] at h
          | ok xs =>
            rw [hit] at h; simp only [Except.map, pure, Except.pure, Except.ok.injEq] at h; subst h
            -- "data" only occurs in sysex
            have hsys : o.type = .sysex := by
              cases hty : o.type <;> rw [hty] at hget <;> subst hname <;>
                first | rfl | (simp [MType.valueNames] at hget; (try (rcases i with _ | _ | _ | j <;> simp at hget)))
            obtain ⟨ys, hys⟩ := hsx hsys
            have hi0 : i = 0 := by
              rw [hsys] at hget; subst hname
              cases i with
              | zero => rfl
              | succ j => simp [MType.valueNames] at hget
            subst hi0
            refine ⟨(valid_iff _).mpr ⟨by simp [hl], ht, ?_, fun _ => ⟨xs, by simp [hys]⟩⟩, rfl⟩
            simp only [hys, set_cons_zero, hsys, MType.valueNames]
            subst hname
            rw [checkVals_sysex_norm v xs hit]
            simp [checkVals, hc, bind, Except.bind]
        · rw [if_neg hd] at h
          simp only [pure, Except.pure, Except.ok.injEq] at h; subst h
          refine ⟨(valid_iff _).mpr ⟨by simp [hl], ht, checkVals_set _ _ i name v (fun _ => trivial) hvals hget hc, ?_⟩, rfl⟩
          intro hs
          obtain ⟨ys, hys⟩ := hsx hs
          exfalso
          rw [hs] at hget
          cases i with
          | zero => simp [MType.valueNames] at hget; subst hget; simp at hd
          | succ j => simp [MType.valueNames] at hget

/-- check-then-normalise (the order in `copy`) yields a valid object -/
theorem build_valid_copy (t : MType) (vals vals' : List PyVal) (time : PyVal) (unk : List String)
    (hlen : vals.length = t.valueNames.length) (hc : checkAll t vals time unk = .ok ())
    (hn : normData t vals = .ok vals') : (⟨t, vals', time⟩ : MObj).valid = true := by
  obtain ⟨h1, h2, _⟩ := checkAll_ok hc
  obtain ⟨hl', hsx, hns⟩ := normData_spec t vals vals' hn
  apply (valid_iff _).mpr
  by_cases hs : t = .sysex
  · subst hs
    obtain ⟨xs, d, e1, e2, e3⟩ := hsx rfl (by rw [hlen]; rfl)
    refine ⟨by simp [e3, MType.valueNames], h1, ?_, fun _ => ⟨xs, e3⟩⟩
    simp only [e3, MType.valueNames]
    rw [checkVals_sysex_norm d xs e2, ← e1]; exact h2
  · have := hns hs; subst this
    exact ⟨hlen, h1, h2, fun h => absurd h hs⟩

theorem copyObj_valid (o o' : MObj) (tov : Option String) (kw : List (String × PyVal)) (hv : o.valid = true)
    (h : copyObj o tov kw = .ok o') : o'.valid = true ∧ o'.type = o.type := by
  have core : ∀ o'', copyObj.copyCore o kw = .ok o'' → o''.valid = true ∧ o''.type = o.type := by
    intro o'' hc
    unfold copyObj.copyCore at hc
    simp only [bind, Except.bind] at hc
    cases hk : kw.mapM (fun (nv : String × PyVal) =>
        if nv.1 == "data" then (iterItems nv.2).map (fun xs => (nv.1, PyVal.tuple xs)) else pure nv) with
    | error e => rw [hk] at hc; cases hc
    | ok kw' =>
      rw [hk] at hc; simp only at hc
      generalize hak : applyKw o.type kw' o.vals o.time [] = ak at hc
      obtain ⟨vals, time, unk⟩ := ak
      have hlen : vals.length = o.type.valueNames.length := by
        have := applyKw_length o.type kw' o.vals o.time []
        rw [hak] at this
        rw [this]; exact ((valid_iff o).mp hv).1
      simp only at hc
      cases hch : checkAll o.type vals time unk with
      | error e => rw [hch] at hc; cases hc
      | ok u =>
        rw [hch] at hc; simp only at hc
        cases hn : normData o.type vals with
        | error e => rw [hn] at hc; cases hc
        | ok vals' =>
          rw [hn] at hc; simp only [pure, Except.pure, Except.ok.injEq] at hc; subst hc
          exact ⟨build_valid_copy _ _ _ _ _ hlen hch hn, rfl⟩
  unfold copyObj at h
  split at h
  · cases h; exact ⟨hv, rfl⟩
  · split at h
    · split at h
      · cases h
      · exact core o' h
    · exact core o' h

theorem dataIadd_valid (o o' : MObj) (v : PyVal) (hv : o.valid = true) (h : dataIadd o v = .ok o') :
    o'.valid = true ∧ o'.type = o.type := by
  unfold dataIadd at h
  split at h
  · simp only [bind, Except.bind] at h
    cases hi : iterItems v with
    | error e => rw [hi] at h; cases h
    | ok xs =>
      rw [hi] at h; simp only at h
      cases hc : checkDataItems xs with
      | error e => rw [hc] at h; cases h
      | ok u => rw [hc] at h; exact setAttr_valid o o' _ _ hv h
  · cases h

/-- one step keeps every reachable object valid, never changes the type of an existing object
    except by constructing a new one, and a raising step leaves the object exactly as it was -/
theorem mstep_spec (cur : Option MObj) (op : MOp) (hv : ∀ o, cur = some o → o.valid = true) :
    (∀ o', (mstep cur op).1 = some o' → o'.valid = true) ∧
    ((mstep cur op).2.isSome = true → (mstep cur op).1 = cur) := by
  cases op with
  | construct ty kw =>
    simp only [mstep]
    cases hc : construct ty kw with
    | ok o => exact ⟨fun o' h => by cases h; exact construct_valid ty kw o hc, fun h => by simp at h⟩
    | error e => exact ⟨fun o' h => hv o' h, fun _ => rfl⟩
  | copy tov kw =>
    cases cur with
    | none => exact ⟨fun o' h => by simp [mstep] at h, fun _ => rfl⟩
    | some o =>
      simp only [mstep]
      cases hc : copyObj o tov kw with
      | ok o2 => exact ⟨fun o' h => by cases h; exact (copyObj_valid o o2 tov kw (hv o rfl) hc).1, fun h => by simp at h⟩
      | error e => exact ⟨fun o' h => hv o' h, fun _ => rfl⟩
  | set n v =>
    cases cur with
    | none => exact ⟨fun o' h => by simp [mstep] at h, fun _ => rfl⟩
    | some o =>
      simp only [mstep]
      cases hc : setAttr o n v with
      | ok o2 => exact ⟨fun o' h => by cases h; exact (setAttr_valid o o2 n v (hv o rfl) hc).1, fun h => by simp at h⟩
      | error e => exact ⟨fun o' h => hv o' h, fun _ => rfl⟩
  | del n =>
    cases cur with
    | none => exact ⟨fun o' h => by simp [mstep] at h, fun _ => rfl⟩
    | some o => exact ⟨fun o' h => hv o' h, fun _ => rfl⟩
  | iadd v =>
    cases cur with
    | none => exact ⟨fun o' h => by simp [mstep] at h, fun _ => rfl⟩
    | some o =>
      simp only [mstep]
      cases hc : dataIadd o v with
      | ok o2 => exact ⟨fun o' h => by cases h; exact (dataIadd_valid o o2 v (hv o rfl) hc).1, fun h => by simp at h⟩
      | error e => exact ⟨fun o' h => hv o' h, fun _ => rfl⟩

def mrun (cur : Option MObj) : List MOp → Option MObj
  | [] => cur
  | op :: rest => mrun (mstep cur op).1 rest

/-- **Invariant.** After ANY sequence of constructions, copies with overrides, attribute
    assignments, deletions and `data +=` — accepted or rejected — the object is valid. -/
theorem C03_invariant (ops : List MOp) : ∀ o, mrun none ops = some o → o.valid = true := by
  suffices ∀ cur, (∀ o, cur = some o → o.valid = true) → ∀ o, mrun cur ops = some o → o.valid = true from
    this none (fun o h => by cases h)
  induction ops with
  | nil => intro cur hv o h; exact hv o h
  | cons op rest ih =>
    intro cur hv o h
    exact ih (mstep cur op).1 (mstep_spec cur op hv).1 o h

/-- **Atomicity.** A rejected operation leaves the message unchanged. -/
theorem C03_atomic (cur : Option MObj) (op : MOp) (e : Err) (h : (mstep cur op).2 = some e) :
    (mstep cur op).1 = cur := by
  cases op <;> cases cur <;> simp only [mstep] at h ⊢ <;> (try rfl) <;> (split at h <;> first | rfl | (cases h))

/-- **Shape.** Copying, assigning and `+=` never change the type or the number of attributes;
    deleting is always refused. -/
theorem C03_shape (o o' : MObj) (op : MOp) (hv : o.valid = true)
    (hop : match op with | .construct .. => False | _ => True)
    (h : (mstep (some o) op).1 = some o') : o'.type = o.type ∧ o'.vals.length = o.vals.length := by
  have hvl := fun (x : MObj) (hx : x.valid = true) => ((valid_iff x).mp hx).1
  cases op with
  | construct ty kw => exact hop.elim
  | copy tov kw =>
    simp only [mstep] at h
    cases hc : copyObj o tov kw with
    | ok o2 => rw [hc] at h; cases h
               obtain ⟨a, b⟩ := copyObj_valid o _ tov kw hv hc
               exact ⟨b, by rw [hvl _ a, hvl _ hv, b]⟩
    | error e => rw [hc] at h; cases h; exact ⟨rfl, rfl⟩
  | set n v =>
    simp only [mstep] at h
    cases hc : setAttr o n v with
    | ok o2 => rw [hc] at h; cases h
               obtain ⟨a, b⟩ := setAttr_valid o _ n v hv hc
               exact ⟨b, by rw [hvl _ a, hvl _ hv, b]⟩
    | error e => rw [hc] at h; cases h; exact ⟨rfl, rfl⟩
  | del n => simp only [mstep] at h; cases h; exact ⟨rfl, rfl⟩
  | iadd v =>
    simp only [mstep] at h
    cases hc : dataIadd o v with
    | ok o2 => rw [hc] at h; cases h
               obtain ⟨a, b⟩ := dataIadd_valid o _ v hv hc
               exact ⟨b, by rw [hvl _ a, hvl _ hv, b]⟩
    | error e => rw [hc] at h; cases h; exact ⟨rfl, rfl⟩

theorem C03_delete_refused (o : MObj) (n : String) : mstep (some o) (.del n) = (some o, some .AttributeError) := rfl

/-! Non-vacuity (tests of the model) -/
example : (construct "sysex" [("data", .list [.int 1, .int 127])]).toOption.map MObj.valid = some true := by decide
example : construct "note_on" [("note", .int 128)] = .error .ValueError := by decide
example : construct "sysex" [("data", .int 5)] = .error .TypeError := by decide

end Mido
