import MidoModel.Syx
import MidoProofs.Props.C06
/-!
  C19 — SYX files round-trip sysex messages.
-/
namespace Mido
open List

theorem filter_sysex_idem (ms : List Msg) : (ms.filter Msg.isSysex).filter Msg.isSysex = ms.filter Msg.isSysex := by
  simp

theorem sysex_first (ms : List Msg) (m : Msg) (r : List Msg) (h : ms.filter Msg.isSysex = m :: r) :
    ∃ d, m = .sysex d := by
  have : m ∈ ms.filter Msg.isSysex := by rw [h]; simp
  have hs := (mem_filter.mp this).2
  cases m <;> simp [Msg.isSysex] at hs
  exact ⟨_, rfl⟩

/-- **Binary format.** Writing any list of valid messages and reading it back returns exactly
    its sysex messages, in order, with equal data (any payload length, including empty). -/
theorem C19_bin (ms : List Msg) (h : ∀ m ∈ ms, m.Valid) :
    readSyx (writeSyxBin ms) = .ok (ms.filter Msg.isSysex) := by
  have hv : ∀ m ∈ ms.filter Msg.isSysex, m.Valid := fun m hm => h m (mem_filter.mp hm).1
  have hc := C06_concat _ hv
  unfold writeSyxBin
  cases hf : ms.filter Msg.isSysex with
  | nil => rfl
  | cons m r =>
    obtain ⟨d, rfl⟩ := sysex_first ms m r hf
    rw [hf] at hc
    have e : (Msg.sysex d :: r).flatMap encode = 0xf0 :: (d ++ [0xf7] ++ r.flatMap encode) := by
      simp [flatMap_cons, encode]
    rw [e] at hc ⊢
    simp only [readSyx, if_true, hc, Except.map]
    rw [← hf, filter_sysex_idem]

/-- no sysex message: nothing is written, and an empty file reads as the empty list -/
theorem C19_none (ms : List Msg) (h : ms.filter Msg.isSysex = []) :
    writeSyxBin ms = [] ∧ writeSyxText ms = [] ∧ readSyx [] = .ok [] := by
  simp [writeSyxBin, writeSyxText, h, readSyx]

theorem fromHex_hexByte' (b : Nat) (hb : b < 256) (rest : List Char) :
    fromHex (hexByte b ++ rest) = (fromHex rest).map (b :: ·) := fromHex_hexByte b hb rest

/-- hex text of a byte list followed by a blank and more text -/
theorem fromHex_toHex_sp (bs : List Nat) (hb : ∀ b ∈ bs, b < 256) (rest : List Char) :
    fromHex (toHex bs ++ ' ' :: rest) = (fromHex rest).map (bs ++ ·) := by
  induction bs with
  | nil => simp only [toHex, nil_append, fromHex]; cases fromHex rest <;> rfl
  | cons b r ih =>
    have hb0 := hb b (by simp)
    have hr := ih (fun x hx => hb x (by simp [hx]))
    cases r with
    | nil =>
      simp only [toHex]
      rw [fromHex_hexByte b hb0, fromHex]
      cases fromHex rest <;> rfl
    | cons c r' =>
      simp only [toHex, append_assoc, cons_append]
      rw [fromHex_hexByte b hb0, fromHex]
      rw [hr]
      cases fromHex rest <;> rfl

def wsMap (c : Char) : Char := syxChar c.toNat

theorem wsMap_digit : ∀ n : Fin 16, wsMap (hexDigit n.val) = hexDigit n.val := by decide
theorem wsMap_space : wsMap ' ' = ' ' := by decide
theorem wsMap_nl : wsMap '\n' = ' ' := by decide

theorem wsMap_toHex (bs : List Nat) (hb : ∀ b ∈ bs, b < 256) : (toHex bs).map wsMap = toHex bs := by
  induction bs with
  | nil => rfl
  | cons b r ih =>
    have hb0 := hb b (by simp)
    have d1 := wsMap_digit ⟨b / 16, by omega⟩
    have d2 := wsMap_digit ⟨b % 16, by omega⟩
    simp only at d1 d2
    have hr := ih (fun x hx => hb x (by simp [hx]))
    cases r with
    | nil => simp [toHex, hexByte, d1, d2]
    | cons c r' =>
      simp only [toHex] at hr ⊢
      simp [hexByte, d1, d2, wsMap_space, hr]

/-- the bytes of the text file (ASCII, hence latin-1) -/
def textBytes (cs : List Char) : List Nat := cs.map Char.toNat

theorem text_body (ms : List Msg) (hv : ∀ m ∈ ms, m.Valid) :
    fromHex ((ms.flatMap (fun m => toHex (encode m) ++ ['\n'])).map wsMap) = .ok (ms.flatMap encode) := by
  induction ms with
  | nil => rfl
  | cons m r ih =>
    have hm := hv m (by simp)
    have hb := encode_bytes_lt m hm
    simp only [flatMap_cons, map_append, map_cons, map_nil, wsMap_nl, wsMap_toHex _ hb, append_assoc,
      singleton_append]
    rw [fromHex_toHex_sp _ hb, ih (fun x hx => hv x (by simp [hx]))]
    rfl

/-- **Plain text format.** The same round trip through the hex text written by
    `write_syx_file(plaintext=True)` (one line per message). -/
theorem C19_text (ms : List Msg) (h : ∀ m ∈ ms, m.Valid) :
    readSyx (textBytes (writeSyxText ms)) = .ok (ms.filter Msg.isSysex) := by
  have hv : ∀ m ∈ ms.filter Msg.isSysex, m.Valid := fun m hm => h m (mem_filter.mp hm).1
  have hc := C06_concat _ hv
  have hbody := text_body _ hv
  unfold writeSyxText
  cases hf : ms.filter Msg.isSysex with
  | nil => rfl
  | cons m r =>
    obtain ⟨d, rfl⟩ := sysex_first ms m r hf
    rw [hf] at hc hbody
    -- the text starts with the hex digit 'F', not with the byte 240
    have hstart : ∃ tail, textBytes ((Msg.sysex d :: r).flatMap (fun m => toHex (encode m) ++ ['\n'])) = 70 :: tail := by
      cases d with
      | nil => exact ⟨_, rfl⟩
      | cons x xs => exact ⟨_, rfl⟩
    obtain ⟨tail, ht⟩ := hstart
    have hmap : (textBytes ((Msg.sysex d :: r).flatMap (fun m => toHex (encode m) ++ ['\n']))).map syxChar =
        ((Msg.sysex d :: r).flatMap (fun m => toHex (encode m) ++ ['\n'])).map wsMap := by
      simp only [textBytes, map_map]; rfl
    simp only [readSyx]
    rw [ht]
    simp only [show ¬ ((70 : Nat) = 240) by decide, if_false]
    rw [← ht, hmap, hbody]
    simp only [bind, Except.bind, hc, Except.map]
    rw [← hf, filter_sysex_idem]

/-- any whitespace between the two-digit hex numbers is accepted: every character that `\s`
    matches is turned into a blank before the hex text is read -/
theorem C19_layout (c : Nat) (h : isWsCode c = true) : syxChar c = ' ' := by simp [syxChar, h]

/-- text that is not two-digit hex raises ValueError: a lone digit or a non-hex letter -/
theorem C19_badtext :
    fromHex ['F'] = .error .ValueError ∧ fromHex ['F', ' ', '0'] = .error .ValueError ∧
    fromHex ['G', '0'] = .error .ValueError ∧ (∀ cs, fromHex cs = .error .Other → False) := by
  refine ⟨rfl, rfl, rfl, ?_⟩
  intro cs
  induction cs using fromHex.induct with
  | case1 => intro h; cases h
  | case2 rest ih => intro h; rw [fromHex] at h; exact ih h
  | case3 a b rest _ x y hx hy ih =>
    intro h; rw [fromHex] at h
    · simp only [hx, hy] at h
      cases hr : fromHex rest with
      | ok v => rw [hr] at h; cases h
      | error e => rw [hr] at h; simp [Except.map] at h; subst h; exact ih hr
    · assumption
  | case4 a b rest _ _ => intro h; rw [fromHex] at h <;> simp_all
  | case5 a _ => intro h; rw [fromHex] at h <;> simp_all

end Mido
