import MidoModel.Strings
import MidoProofs.Props.C03
/-!
  C14 — text, dict and repr representations round-trip.
-/
namespace Mido
open List

/-! ### what `str2msg` can hand to the constructor -/

def intItem : Item → Bool | .int _ => true | _ => false

/-- values produced by the text parser: integers, lists of integers (data), int/float times -/
def TextVal (n : String) (v : PyVal) : Prop :=
  (n = "time" ∧ (∃ k, v = .int k) ∨ (n = "time" ∧ ∃ h, v = .flt h)) ∨
  (n = "data" ∧ ∃ xs, v = .list xs ∧ xs.all intItem = true) ∨
  (n ≠ "time" ∧ n ≠ "data" ∧ ∃ k, v = .int k)

theorem checkRange_int_err {k lo hi : Int} {e : Err} (h : checkRange (.int k) lo hi = .error e) : e = .ValueError := by
  simp only [checkRange] at h; split at h <;> cases h; rfl

theorem checkDataItems_int_err {xs : List Item} {e : Err} (hx : xs.all intItem = true)
    (h : checkDataItems xs = .error e) : e = .ValueError := by
  induction xs with
  | nil => cases h
  | cons x r ih =>
    simp only [all_cons, Bool.and_eq_true] at hx
    cases x with
    | int n =>
      simp only [checkDataItems, checkDataItem, bind, Except.bind] at h
      by_cases hr : 0 ≤ n ∧ n ≤ 127
      · rw [if_pos hr] at h; exact ih hx.2 h
      · rw [if_neg hr] at h; cases h; rfl
    | _ => simp [intItem] at hx

/-- a value that is an int, or a tuple/list of ints for data, or a real for time, can only be
    rejected with ValueError -/
def GoodShape (n : String) (v : PyVal) : Prop :=
  (n ≠ "data" ∧ ∃ k, v = .int k) ∨ (n = "time" ∧ ∃ h, v = .flt h) ∨
  (n = "data" ∧ ∃ xs, (v = .list xs ∨ v = .tuple xs) ∧ xs.all intItem = true)

theorem checkAttr_shape_err {n : String} {v : PyVal} {e : Err} (hs : GoodShape n v)
    (h : checkAttr n v = .error e) : e = .ValueError := by
  rcases hs with ⟨hnd, k, rfl⟩ | ⟨rfl, hh, rfl⟩ | ⟨rfl, xs, hv, hx⟩
  · unfold checkAttr at h
    repeat' split at h
    all_goals first | exact checkRange_int_err h | (rename_i hd; exact absurd (beq_iff_eq.mp hd) hnd) | (cases h)
  · simp [checkAttr] at h
  · rcases hv with rfl | rfl <;>
      (simp only [checkAttr] at h
       simp [iterItems, bind, Except.bind] at h
       exact checkDataItems_int_err hx h)

def Shaped : List String → List PyVal → Prop
  | n :: ns, v :: vs => GoodShape n v ∧ Shaped ns vs
  | _, _ => True

theorem shaped_set (names : List String) (vals : List PyVal) (i : Nat) (n : String) (v : PyVal)
    (hs : Shaped names vals) (hi : names[i]? = some n) (hv : GoodShape n v) : Shaped names (vals.set i v) := by
  induction names generalizing vals i with
  | nil => simp at hi
  | cons m ms ih =>
    cases vals with
    | nil => simp [Shaped]
    | cons x xs =>
      cases i with
      | zero => simp only [getElem?_cons_zero, Option.some.injEq] at hi; subst hi; exact ⟨hv, hs.2⟩
      | succ j => simp only [getElem?_cons_succ] at hi; exact ⟨hs.1, ih xs j hs.2 hi⟩

theorem textVal_good {n : String} {v : PyVal} (h : TextVal n v) : GoodShape n v := by
  rcases h with (⟨rfl, k, rfl⟩ | ⟨rfl, hh, rfl⟩) | ⟨rfl, xs, rfl, hx⟩ | ⟨h1, h2, k, rfl⟩
  · exact Or.inl ⟨by decide, k, rfl⟩
  · exact Or.inr (Or.inl ⟨rfl, hh, rfl⟩)
  · exact Or.inr (Or.inr ⟨rfl, xs, Or.inl rfl, hx⟩)
  · exact Or.inl ⟨h2, k, rfl⟩

theorem applyKw_shaped (t : MType) (kw : List (String × PyVal)) (hkw : ∀ nv ∈ kw, TextVal nv.1 nv.2) :
    ∀ (vals : List PyVal) (time : PyVal) (unk : List String), Shaped t.valueNames vals → GoodShape "time" time →
      Shaped t.valueNames (applyKw t kw vals time unk).1 ∧ GoodShape "time" (applyKw t kw vals time unk).2.1 := by
  induction kw with
  | nil => intro vals time unk h1 h2; exact ⟨h1, h2⟩
  | cons nv r ih =>
    intro vals time unk h1 h2
    obtain ⟨n, v⟩ := nv
    have hv := textVal_good (hkw (n, v) (by simp))
    have hr := fun x hx => hkw x (mem_cons_of_mem _ hx)
    simp only [applyKw]
    by_cases hn : (n == "time") = true
    · rw [if_pos hn]
      have : n = "time" := beq_iff_eq.mp hn
      subst this
      exact ih hr vals v unk h1 hv
    · rw [if_neg hn]
      cases hi : indexOfName t.valueNames n with
      | some i => exact ih hr _ time unk (shaped_set _ _ i n v h1 (indexOfName_get _ _ _ hi) hv) h2
      | none => exact ih hr vals time _ h1 h2

theorem defaults_shaped (names : List String) : Shaped names (names.map defaultOf) := by
  induction names with
  | nil => trivial
  | cons n ns ih =>
    refine ⟨?_, ih⟩
    unfold defaultOf
    by_cases h1 : (n == "velocity") = true
    · rw [if_pos h1]; exact Or.inl ⟨by rw [beq_iff_eq.mp h1]; decide, _, rfl⟩
    · rw [if_neg h1]
      by_cases h2 : (n == "data") = true
      · rw [if_pos h2]; exact Or.inr (Or.inr ⟨beq_iff_eq.mp h2, [], Or.inr rfl, rfl⟩)
      · rw [if_neg h2]; exact Or.inl ⟨fun h => h2 (by rw [h]; rfl), _, rfl⟩

theorem checkVals_shaped_err (names : List String) (vals : List PyVal) (e : Err) (hs : Shaped names vals)
    (h : checkVals names vals = .error e) : e = .ValueError := by
  induction names generalizing vals with
  | nil => cases vals <;> simp [checkVals] at h
  | cons n ns ih =>
    cases vals with
    | nil => simp [checkVals] at h
    | cons v vs =>
      simp only [checkVals, bind, Except.bind] at h
      cases hc : checkAttr n v with
      | error e' => rw [hc] at h; cases h; exact checkAttr_shape_err hs.1 hc
      | ok u => rw [hc] at h; exact ih vs hs.2 h

theorem normData_shaped (t : MType) (vals : List PyVal) (hs : Shaped t.valueNames vals)
    (hl : vals.length = t.valueNames.length) :
    ∃ vals', normData t vals = .ok vals' ∧ Shaped t.valueNames vals' := by
  unfold normData
  split
  · rename_i d
    have hd : GoodShape "data" d := hs.1
    rcases hd with ⟨hnd, _⟩ | ⟨hf, _⟩ | ⟨_, xs, hv, hx⟩
    · exact absurd rfl hnd
    · exact absurd hf (by decide)
    · rcases hv with rfl | rfl
      · exact ⟨[.tuple xs], rfl, ⟨Or.inr (Or.inr ⟨rfl, xs, Or.inr rfl, hx⟩), trivial⟩⟩
      · exact ⟨[.tuple xs], rfl, ⟨Or.inr (Or.inr ⟨rfl, xs, Or.inr rfl, hx⟩), trivial⟩⟩
  · exact ⟨vals, rfl, hs⟩

theorem ofName_name (t : MType) : MType.ofName t.name = some t := by cases t <;> rfl

/-- constructing from text-shaped keyword values can only fail with ValueError -/
theorem construct_text_err (t : MType) (kw : List (String × PyVal)) (hkw : ∀ nv ∈ kw, TextVal nv.1 nv.2)
    (e : Err) (h : construct t.name kw = .error e) : e = .ValueError := by
  unfold construct at h
  rw [ofName_name] at h
  simp only [bind, Except.bind] at h
  have hsh := applyKw_shaped t kw hkw (t.valueNames.map defaultOf) (.int 0) [] (defaults_shaped _)
    (Or.inl ⟨by decide, 0, rfl⟩)
  have hlen := applyKw_length t kw (t.valueNames.map defaultOf) (.int 0) []
  generalize applyKw t kw (t.valueNames.map defaultOf) (.int 0) [] = ak at h hsh hlen
  obtain ⟨vals, time, unk⟩ := ak
  simp only at h hsh hlen
  obtain ⟨vals', hn, hs'⟩ := normData_shaped t vals hsh.1 (by simpa using hlen)
  rw [hn] at h
  simp only at h
  cases hc : checkAll t vals' time unk with
  | ok u => rw [hc] at h; cases h
  | error e' =>
    rw [hc] at h; cases h
    unfold checkAll at hc
    simp only [bind, Except.bind] at hc
    cases h1 : checkAttr "time" time with
    | error e1 => rw [h1] at hc; cases hc; exact checkAttr_shape_err hsh.2 h1
    | ok u1 =>
      rw [h1] at hc; simp only at hc
      cases h2 : checkVals t.valueNames vals' with
      | error e2 => rw [h2] at hc; cases hc; exact checkVals_shaped_err _ _ _ hs' h2
      | ok u2 =>
        rw [h2] at hc; simp only at hc
        split at hc
        · cases hc
        · simp [throw, throwThe, MonadExceptOf.throw] at hc; exact hc.symm

theorem parseTime_shape (s : List Char) (tv : PyVal) (h : parseTime s = some tv) :
    (∃ k, tv = .int k) ∨ (∃ hh, tv = .flt hh) := by
  unfold parseTime at h
  split at h
  · cases h; exact Or.inl ⟨_, rfl⟩
  · cases hf : parseFloat2 s with
    | none => rw [hf] at h; cases h
    | some x => rw [hf] at h; cases h; exact Or.inr ⟨_, rfl⟩

theorem parseData_shape (s : List Char) (xs : List Item) (h : parseData s = some xs) : xs.all intItem = true := by
  unfold parseData at h
  split at h
  · split at h
    · cases h
    · simp only at h
      split at h
      · cases h; rfl
      · cases hm : (splitChar ',' _).mapM parsePyInt with
        | none => rw [hm] at h; cases h
        | some ns => rw [hm] at h; cases h; simp [intItem]
  · cases h

theorem filter_textVal (acc : List (String × PyVal)) (p : String × PyVal → Bool)
    (h : ∀ nv ∈ acc, TextVal nv.1 nv.2) : ∀ nv ∈ acc.filter p, TextVal nv.1 nv.2 :=
  fun nv hnv => h nv (mem_filter.mp hnv).1

theorem go_spec (t : MType) (args : List (List Char)) : ∀ (acc : List (String × PyVal)),
    (∀ nv ∈ acc, TextVal nv.1 nv.2) →
    (∀ res, str2kw.go t args acc = .ok res → ∀ nv ∈ res, TextVal nv.1 nv.2) ∧
    (∀ e, str2kw.go t args acc = .error e → e = .ValueError) := by
  induction args with
  | nil => intro acc ha; exact ⟨fun res h => by simp [str2kw.go] at h; subst h; exact ha, fun e h => by simp [str2kw.go] at h⟩
  | cons a r ih =>
    intro acc ha
    unfold str2kw.go
    cases hsp : splitFirstEq a with
    | none => exact ⟨fun res h => by simp at h, fun e h => by simp at h; exact h.symm⟩
    | some nv =>
      obtain ⟨n, v⟩ := nv
      simp only []
      split
      · exact ⟨fun res h => (by cases h), fun e h => (by cases h; rfl)⟩
      · split
        · rename_i hname
          have hn : String.ofList n = "time" := beq_iff_eq.mp hname
          cases hp : parseTime v with
          | none => exact ⟨fun res h => by simp at h, fun e h => by simp at h; exact h.symm⟩
          | some tv =>
            simp only []
            apply ih
            intro x hx
            rcases mem_append.mp hx with hx | hx
            · exact filter_textVal acc _ ha x hx
            · simp only [mem_singleton] at hx; subst hx
              rcases parseTime_shape v tv hp with ⟨k, rfl⟩ | ⟨hh, rfl⟩
              · exact Or.inl (Or.inl ⟨hn, k, rfl⟩)
              · exact Or.inl (Or.inr ⟨hn, hh, rfl⟩)
        · split
          · rename_i hnt hname
            have hn : String.ofList n = "data" := beq_iff_eq.mp hname
            cases hp : parseData v with
            | none => exact ⟨fun res h => by simp at h, fun e h => by simp at h; exact h.symm⟩
            | some xs =>
              simp only []
              apply ih
              intro x hx
              rcases mem_append.mp hx with hx | hx
              · exact filter_textVal acc _ ha x hx
              · simp only [mem_singleton] at hx; subst hx
                exact Or.inr (Or.inl ⟨hn, xs, rfl, parseData_shape v xs hp⟩)
          · rename_i hnt hnd
            cases hp : parsePyInt v with
            | none => exact ⟨fun res h => by simp at h, fun e h => by simp at h; exact h.symm⟩
            | some k =>
              simp only []
              apply ih
              intro x hx
              rcases mem_append.mp hx with hx | hx
              · exact filter_textVal acc _ ha x hx
              · simp only [mem_singleton] at hx; subst hx
                exact Or.inr (Or.inr ⟨fun h => hnt (beq_iff_eq.mpr h), fun h => hnd (beq_iff_eq.mpr h), k, rfl⟩)

/-- **parse_string raises ValueError — and nothing else — for any text that is not a valid
    message** (unknown type, empty text, missing '=', bad numbers, unknown / reserved / duplicated
    attribute names, out-of-range values, malformed data) -/
theorem C14_parse_errors (text : List Char) (e : Err) (h : fromStr text = .error e) : e = .ValueError := by
  unfold fromStr at h
  simp only [bind, Except.bind] at h
  cases hk : str2kw text with
  | error e' =>
    rw [hk] at h; cases h
    unfold str2kw at hk
    split at hk
    · cases hk; rfl
    · split at hk
      · cases hk; rfl
      · rename_i t ht
        cases hg : str2kw.go t _ [] with
        | ok res => rw [hg] at hk; cases hk
        | error e2 => rw [hg] at hk; cases hk; exact (go_spec t _ [] (by simp)).2 _ hg
  | ok p =>
    obtain ⟨ty, kw⟩ := p
    rw [hk] at h
    simp only at h
    unfold str2kw at hk
    split at hk
    · cases hk
    · split at hk
      · cases hk
      · rename_i t ht
        cases hg : str2kw.go t _ [] with
        | error e2 => rw [hg] at hk; cases hk
        | ok res =>
          rw [hg] at hk; simp only [Except.map, Except.ok.injEq, Prod.mk.injEq] at hk
          obtain ⟨rfl, rfl⟩ := hk
          exact construct_text_err t res ((go_spec t _ [] (by simp)).1 _ hg) e h

/-- **parse_string_stream never stops early**: every line is skipped (blank / comment), yields
    its message, or is reported as an error with its 1-based line number; the generator is never
    aborted by an exception -/
theorem C14_stream (lines : List (List Char)) : ∀ n,
    (∀ o ∈ parseStream n lines, ∀ e, o ≠ .abort e) ∧
    parseStream n lines = match lines with
      | [] => []
      | line :: rest =>
        (if (splitWs (stripComment line)).isEmpty then []
         else match fromStr (stripComment line) with
           | .ok m => [.msg m]
           | .error _ => [.error n]) ++ parseStream (n + 1) rest := by
  induction lines with
  | nil => intro n; exact ⟨by simp [parseStream], rfl⟩
  | cons line rest ih =>
    intro n
    have ihn := ih (n + 1)
    simp only [parseStream]
    by_cases hb : (splitWs (stripComment line)).isEmpty = true
    · simp only [hb, if_true, nil_append]
      exact ⟨ihn.1, by first | rfl | trivial⟩
    · simp only [hb, Bool.false_eq_true, if_false]
      cases hf : fromStr (stripComment line) with
      | ok m =>
        simp only [singleton_append]
        exact ⟨fun o ho e => by
          rcases mem_cons.mp ho with rfl | ho
          · intro h; cases h
          · exact ihn.1 o ho e, by first | rfl | trivial⟩
      | error e =>
        have := C14_parse_errors _ e hf
        subst this
        simp only [singleton_append]
        exact ⟨fun o ho e => by
          rcases mem_cons.mp ho with rfl | ho
          · intro h; cases h
          · exact ihn.1 o ho e, by first | rfl | trivial⟩

/-- `msg.dict()`: the attribute dictionary (type apart) -/
def toDictKw (o : MObj) : List (String × PyVal) := o.type.valueNames.zip o.vals ++ [("time", o.time)]

theorem applyKw_dict (o : MObj) (hl : o.vals.length = o.type.valueNames.length) :
    applyKw o.type (toDictKw o) (o.type.valueNames.map defaultOf) (.int 0) [] = (o.vals, o.time, []) := by
  obtain ⟨t, vals, time⟩ := o
  simp only at hl ⊢
  cases t <;> simp only [MType.valueNames, length_cons, length_nil] at hl <;>
    (first
      | (match vals, hl with
         | [a, b, c], _ => simp [toDictKw, MType.valueNames, applyKw, indexOfName, indexOfName.go])
      | (match vals, hl with
         | [a, b], _ => simp [toDictKw, MType.valueNames, applyKw, indexOfName, indexOfName.go])
      | (match vals, hl with
         | [a], _ => simp [toDictKw, MType.valueNames, applyKw, indexOfName, indexOfName.go])
      | (match vals, hl with
         | [], _ => simp [toDictKw, MType.valueNames, applyKw, indexOfName, indexOfName.go]))

/-- **from_dict(m.dict()) = m** for every valid message -/
theorem C14_dict (o : MObj) (hv : o.valid = true) : construct o.type.name (toDictKw o) = .ok o := by
  obtain ⟨hl, ht, hvals, hsx⟩ := (valid_iff o).mp hv
  unfold construct
  rw [ofName_name]
  simp only [bind, Except.bind, applyKw_dict o hl]
  have hn : normData o.type o.vals = .ok o.vals := by
    unfold normData
    split
    · rename_i d heq
      obtain ⟨xs, hx⟩ := hsx (by assumption)
      rw [hx] at heq; cases heq
      rw [hx]; rfl
    · rfl
  rw [hn]
  simp only [checkAll, ht, hvals, bind, Except.bind, isEmpty_nil, if_true, pure, Except.pure]

/-! Non-vacuity (tests of the model) -/
example : fromStr "note_on channel=1 note=60 time=2.5".toList =
    .ok ⟨.note_on, [.int 1, .int 60, .int 64], .flt 250⟩ := by decide +kernel
example : fromStr "note_on note=999 skip_checks=1".toList = .error .ValueError := by decide +kernel
example : msg2str ⟨.sysex, [.tuple [.int 1, .int 2]], .flt (-250)⟩ = "sysex data=(1,2) time=-2.5".toList := by
  decide +kernel

end Mido
