import MidoProofs.Lemmas.TokSub
/-!
  C04 — the parser is total and sound on arbitrary byte streams.
-/
namespace Mido
open List

/-- real-time message: status byte ≥ 0xF8 -/
def Msg.isRealtime (m : Msg) : Bool := decide (0xF8 ≤ m.status)

theorem decodeTokens_good (toks : List (List Nat)) (h : ∀ t ∈ toks, GoodTok t) :
    ∃ ms, decodeTokens toks = .ok ms ∧ (∀ m ∈ ms, m.Valid) ∧ ms.map encode = toks := by
  induction toks with
  | nil => exact ⟨[], rfl, by simp, rfl⟩
  | cons t r ih =>
    obtain ⟨m, hm, hv, he⟩ := (h t (by simp)).decodes
    obtain ⟨ms, hms, hvs, hes⟩ := ih (fun x hx => h x (by simp [hx]))
    refine ⟨m :: ms, ?_, ?_, by simp [he, hes]⟩
    · simp [decodeTokens, hm, hms, bind, Except.bind, pure, Except.pure]
    · intro x hx
      rcases mem_cons.mp hx with rfl | hx
      · exact hv
      · exact hvs x hx

theorem isRtTok_encode (m : Msg) (h : m.Valid) : isRtTok (encode m) = m.isRealtime := by
  cases m with
  | chan3 k ch d1 d2 =>
    simp only [Msg.Valid, Msg.valid, Bool.and_eq_true, decide_eq_true_eq] at h
    have hb := chan_or k.base (by cases k <;> simp [C3.base]) ch (by omega)
    rw [isRtTok_long _ (by simp [encode])]
    simp only [Msg.isRealtime, Msg.status, hb.1]
    cases k <;> (simp only [C3.base]; exact (decide_eq_false (by omega)).symm)
  | chan2 k ch d1 =>
    simp only [Msg.Valid, Msg.valid, Bool.and_eq_true, decide_eq_true_eq] at h
    have hb := chan_or k.base (by cases k <;> simp [C2.base]) ch (by omega)
    rw [isRtTok_long _ (by simp [encode])]
    simp only [Msg.isRealtime, Msg.status, hb.1]
    cases k <;> (simp only [C2.base]; exact (decide_eq_false (by omega)).symm)
  | pitchwheel ch p =>
    simp only [Msg.Valid, Msg.valid, Bool.and_eq_true, decide_eq_true_eq] at h
    have hb := chan_or 0xe0 (by simp) ch (by omega)
    rw [isRtTok_long _ (by simp [encode])]
    simp only [Msg.isRealtime, Msg.status, hb.1]
    exact (decide_eq_false (by omega)).symm
  | sysex d =>
    rw [isRtTok_long _ (by simp [encode])]; rfl
  | quarter_frame ft fv => rfl
  | songpos p => rfl
  | song_select s => rfl
  | sys1 k => cases k <;> rfl

/-- Totality and soundness: on ANY byte string the parser does not raise and every message it
    yields is valid; moreover the yielded messages re-encode to exactly the tokens. -/
theorem C04_total (bs : List Nat) (h : ∀ b ∈ bs, b < 256) :
    ∃ ms, parseAll bs = .ok ms ∧ (∀ m ∈ ms, m.Valid) ∧ ms.map encode = tokenize bs := by
  have inv := FullInv.init.feed bs h
  exact decodeTokens_good _ inv.tok.out_good

/-- Each defined real-time status byte of the input yields exactly one real-time message, in
    input order (stated on the encodings, which for real-time messages are the single byte). -/
theorem C04_realtime (bs : List Nat) (h : ∀ b ∈ bs, b < 256) (ms : List Msg)
    (hp : parseAll bs = .ok ms) :
    (ms.filter Msg.isRealtime).map encode = (bs.filter definedRt).map (fun b => [b]) := by
  obtain ⟨ms', hms', hv, he⟩ := C04_total bs h
  rw [hp] at hms'; cases hms'
  have inv := FullInv.init.feed bs h
  have hrt := inv.rt
  simp only [nil_append, RT, rtToks] at hrt
  rw [← hrt]
  show _ = filter isRtTok (tokenize bs)
  rw [← he, filter_map]
  congr 1
  apply filter_congr
  intro m hm
  simp [Function.comp, isRtTok_encode m (hv m hm)]

/-- The bytes of all other yielded messages form, in order, a subsequence of the (non
    real-time) input bytes: nothing invented, duplicated or reordered. -/
theorem C04_subseq (bs : List Nat) (h : ∀ b ∈ bs, b < 256) (ms : List Msg)
    (hp : parseAll bs = .ok ms) :
    ((ms.filter (fun m => !m.isRealtime)).map encode).flatten <+ bs.filter (fun b => !isRtByte b) := by
  obtain ⟨ms', hms', hv, he⟩ := C04_total bs h
  rw [hp] at hms'; cases hms'
  have inv := FullInv.init.feed bs h
  have hsub := sub_drop inv.sub
  simp only [nil_append, NR, nonRtFlat] at hsub
  have : (ms.filter (fun m => !m.isRealtime)).map encode = (tokenize bs).filter (fun t => !isRtTok t) := by
    rw [← he, filter_map]
    congr 1
    apply filter_congr
    intro m hm
    simp [Function.comp, isRtTok_encode m (hv m hm)]
  rw [this]; exact hsub

/-- every token is one complete well-formed message -/
theorem C04_valid_tokens (bs : List Nat) (h : ∀ b ∈ bs, b < 256) : ∀ t ∈ tokenize bs, GoodTok t :=
  (FullInv.init.feed bs h).tok.out_good

/-! Non-vacuity / sanity (tests of the model, labelled as such). -/
example : (match parseAll [0x90, 1, 0xF8, 2, 0xF0, 5, 0xFA, 6, 0xF7, 0xF4, 0x33, 0xC1, 0xF4, 7] with
    | .ok ms => decide (ms = [.sys1 .clock, .sys1 .start, .sysex [5, 6], .chan2 .program_change 1 7])
    | .error _ => false) = true := by decide +kernel

end Mido
