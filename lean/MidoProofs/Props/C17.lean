import MidoModel.CharsetScope
import MidoProofs.Lemmas.Utf8
/-!
  C17 — text encoding follows the file charset and never leaks out of a call.
-/
namespace Mido
open List

/-- one call — successful or raising at ANY point (every failure point of a load or save is a
    value `.error e` of the model) — leaves the process-wide charset as it was -/
theorem C17_step_scoped (g : GState) (c : CCall) : (cstep g c).1 = g := by
  cases c <;> simp [cstep, withCharset]

/-- **Scoped.** After any sequence of loads, saves and unrelated encodings the charset in force
    is the initial one. -/
theorem C17_scoped (g : GState) (calls : List CCall) : (crun g calls).1 = g := by
  induction calls generalizing g with
  | nil => rfl
  | cons c rest ih => simp only [crun]; rw [C17_step_scoped]; exact ih g

/-- meta text encoded elsewhere in the process always uses the initial (default) charset,
    whatever loads and saves — failed or not — happened before -/
theorem C17_probe_default (g : GState) (before : List CCall) (text : List Nat) :
    (cstep (crun g before).1 (.probe text)).2 = .probed (metaBytes g.charset ⟨.text, [.str text]⟩) := by
  rw [C17_scoped]; rfl

/-- **The bytes in the file are the text encoded in the file's charset**: the payload of a
    text-carrying meta message is exactly `encodeText cs text`. -/
theorem C17_uses_charset (cs : Charset) (t : MetaType) (ht : t.isText = true) (s : List Nat) :
    metaPayload cs ⟨t, [.str s]⟩ = encodeText cs s := by
  cases t <;> simp [MetaType.isText] at ht <;> simp [metaPayload, MetaType.isText]

/-- inside a save or load the charset handed to the codec is the file's own -/
theorem C17_inner_charset (g : GState) (cs : Charset) (f : MFile) :
    (cstep g (.save cs f)).2 = .saved (writeFile cs f) := rfl

theorem utf8_cp (c : Nat) (bs rest : List Nat) (h : utf8EncodeCp c = some bs) :
    utf8Decode (bs ++ rest) = (utf8Decode rest).map (c :: ·) := by
  unfold utf8EncodeCp at h
  split at h
  · rename_i h1; cases h
    simp only [cons_append, nil_append]
    rcases rest with _ | ⟨c1, _ | ⟨c2, _ | ⟨c3, r⟩⟩⟩ <;> simp [utf8Decode, h1]
  split at h
  · rename_i h0 h1; cases h
    have a : ¬ (0xC0 + c / 64 < 0x80) := by omega
    have b : ¬ (0xC0 + c / 64 < 0xC2) := by omega
    have d : 0xC0 + c / 64 < 0xE0 := by omega
    have e : isCont (0x80 + c % 64) = true := by simp [isCont]; omega
    simp only [cons_append, nil_append, utf8Decode, a, b, d, e, if_true, if_false]
    have : (0xC0 + c / 64 - 0xC0) * 64 + (0x80 + c % 64 - 0x80) = c := by omega
    rw [this]
  split at h
  · cases h
  split at h
  · rename_i h0 h1 h2 h3; cases h
    have a : ¬ (0xE0 + c / 4096 < 0x80) := by omega
    have b : ¬ (0xE0 + c / 4096 < 0xC2) := by omega
    have d : ¬ (0xE0 + c / 4096 < 0xE0) := by omega
    have e : 0xE0 + c / 4096 < 0xF0 := by omega
    have cp : (0xE0 + c / 4096 - 0xE0) * 4096 + (0x80 + c / 64 % 64 - 0x80) * 64 + (0x80 + c % 64 - 0x80) = c := by omega
    have c1 : isCont (0x80 + c / 64 % 64) = true := by simp [isCont]; omega
    have c2 : isCont (0x80 + c % 64) = true := by simp [isCont]; omega
    have g1 : (0x800 ≤ c) = True := by simp; omega
    have g2 : (0xD800 ≤ c && c ≤ 0xDFFF) = false := by
      simp only [Bool.and_eq_false_iff, decide_eq_false_iff_not]; omega
    simp only [cons_append, nil_append, utf8Decode, a, b, d, e, if_true, if_false, cp, c1, c2,
      Bool.and_self, Bool.true_and, g2, Bool.not_false, Bool.and_true, decide_eq_true_eq]
    rw [if_pos (by omega)]
  split at h
  · rename_i h0 h1 h2 h3 h4; cases h
    have a : ¬ (0xF0 + c / 262144 < 0x80) := by omega
    have b : ¬ (0xF0 + c / 262144 < 0xC2) := by omega
    have d : ¬ (0xF0 + c / 262144 < 0xE0) := by omega
    have e : ¬ (0xF0 + c / 262144 < 0xF0) := by omega
    have f : 0xF0 + c / 262144 < 0xF5 := by omega
    have cp : (0xF0 + c / 262144 - 0xF0) * 262144 + (0x80 + c / 4096 % 64 - 0x80) * 4096 +
        (0x80 + c / 64 % 64 - 0x80) * 64 + (0x80 + c % 64 - 0x80) = c := by omega
    have c1 : isCont (0x80 + c / 4096 % 64) = true := by simp [isCont]; omega
    have c2 : isCont (0x80 + c / 64 % 64) = true := by simp [isCont]; omega
    have c3 : isCont (0x80 + c % 64) = true := by simp [isCont]; omega
    simp only [cons_append, nil_append, utf8Decode, a, b, d, e, f, if_true, if_false, cp, c1, c2, c3,
      Bool.and_self, Bool.true_and, decide_eq_true_eq]
    rw [if_pos (by simp; omega)]
  · cases h

/-- **UTF-8 round trip**: every text encodable in UTF-8 decodes back to itself -/
theorem C17_utf8_roundtrip (s : List Nat) (bs : List Nat) (h : encodeText .utf8 s = .ok bs) :
    decodeText .utf8 bs = .ok s := by
  simp only [encodeText] at h
  cases hm : s.mapM utf8EncodeCp with
  | none => rw [hm] at h; cases h
  | some parts =>
    rw [hm] at h; cases h
    suffices hh : utf8Decode parts.flatten = some s by simp [decodeText, hh]
    induction s generalizing parts with
    | nil => simp at hm; subst hm; rfl
    | cons c r ih =>
      simp only [mapM_cons, Option.bind_eq_bind] at hm
      cases hc : utf8EncodeCp c with
      | none => simp [hc] at hm
      | some b =>
        cases hr : r.mapM utf8EncodeCp with
        | none => simp [hc, hr] at hm
        | some ps =>
          simp [hc, hr] at hm; subst hm
          simp only [flatten_cons]
          rw [utf8_cp c b _ hc, ih ps hr]; rfl

/-- **UTF-8 is canonical**: whatever bytes the strict decoder accepts are exactly the encoding of the text it returns
    (no overlong forms, surrogates or values above U+10FFFF get through), so a text read from a file is written back as
    the same bytes. -/
theorem C17_utf8_canonical (bs s : List Nat) (h : decodeText .utf8 bs = .ok s) : encodeText .utf8 s = .ok bs :=
  decodeText_utf8_rt bs s h

/-- 'é€𝄞' (2-, 3- and 4-byte forms) next to an ASCII letter -/
example : encodeText .utf8 [97, 233, 8364, 119070] = .ok [97, 0xC3, 0xA9, 0xE2, 0x82, 0xAC, 0xF0, 0x9D, 0x84, 0x9E] ∧
    decodeText .utf8 [0xC0, 0x80] = .error .UnicodeError ∧ decodeText .utf8 [0xED, 0xA0, 0x80] = .error .UnicodeError := by
  decide +kernel

/-- latin1 and ascii round trips -/
theorem C17_latin_roundtrip (cs : Charset) (hcs : cs ≠ .utf8) (s bs : List Nat)
    (h : encodeText cs s = .ok bs) : decodeText cs bs = .ok s := by
  cases cs with
  | latin1 => simp only [encodeText] at h; split at h <;> cases h; rfl
  | ascii =>
    simp only [encodeText] at h
    split at h
    · rename_i ha; cases h; simp [decodeText, ha]
    · cases h
  | utf8 => exact absurd rfl hcs

end Mido
