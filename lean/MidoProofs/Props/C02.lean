import MidoProofs.Lemmas.BuildMsg
/-!
  C02 — from_bytes accepts exactly the well-formed single-message encodings.
-/
namespace Mido

theorem toNat_list (ds : List Int) (h : ds.all inByteRange = true) :
    (ds.map Int.toNat).map Int.ofNat = ds ∧ (ds.map Int.toNat).all (· ≤ 127) = true := by
  induction ds with
  | nil => simp
  | cons d r ih =>
    simp only [List.all_cons, Bool.and_eq_true] at h
    have hd : 0 ≤ d ∧ d ≤ 127 := by simpa [inByteRange] using h.1
    have := ih h.2
    simp only [List.map_cons, List.all_cons, this.2, Bool.and_true, decide_eq_true_eq]
    refine ⟨?_, by omega⟩
    rw [this.1]; congr 1; simp; omega

/-- The decision made by `from_bytes` on any list of integers, in one statement: the input is
    well formed and a valid message re-encoding to exactly the input is returned, or it is not
    and `ValueError` is raised. -/
theorem C02_decision (xs : List Int) :
    (wellFormed xs = true ∧
        ∃ m, decodeInts xs = .ok m ∧ m.Valid ∧ (encode m).map Int.ofNat = xs) ∨
    (wellFormed xs = false ∧ decodeInts xs = .error .ValueError) := by
  cases xs with
  | nil => right; exact ⟨rfl, rfl⟩
  | cons s ds =>
    rw [decodeInts_cons]
    unfold wellFormed
    by_cases h1 : s < 0
    · right; simp [h1]
    simp only [h1, if_false]
    by_cases h3 : s = 0xF0
    · subst h3
      have hdef : definedStatus (Int.toNat 0xF0) = true := by decide
      simp only [hdef, Bool.true_eq_false, if_false]
      have e : Int.toNat 0xF0 = 0xF0 := rfl
      simp only [e, if_true]
      cases hg : ds.getLast? with
      | none => right; simp
      | some e' =>
        by_cases he : e' = 0xF7
        · subst he
          simp only [if_true, checkData_ints]
          by_cases hall : ds.dropLast.all inByteRange = true
          · left
            have tl := toNat_list _ hall
            refine ⟨by simpa using hall, .sysex (ds.dropLast.map Int.toNat), ?_, ?_, ?_⟩
            · simp [hall, Except.map]
            · simpa [Msg.Valid, Msg.valid] using tl.2
            · simp only [encode, List.map_append, List.map_cons, List.map_nil, tl.1]
              have hne : ds ≠ [] := by intro h; simp [h] at hg
              have hl : ds.getLast hne = 0xF7 := by
                have := List.getLast?_eq_some_getLast hne
                rw [hg] at this; exact (Option.some.inj this).symm
              have := List.dropLast_concat_getLast hne
              rw [hl] at this
              simpa using this
          · right
            refine ⟨by simpa using hall, ?_⟩
            simp [hall, Except.map]
        · right
          have : ¬ (e' = (247 : Int)) := he
          constructor
          · split <;> simp_all
          · simp [this]
    · have h3' : ¬ (s.toNat = 0xF0) := by omega
      simp only [h3, h3', if_false]
      by_cases h2 : definedStatus s.toNat = false
      · right
        have : specLen s.toNat = none := by
          simp only [definedStatus, Bool.or_eq_false_iff] at h2
          simpa using h2.2
        simp [h2, this]
      · simp only [h2, if_false]
        have hsome : (specLen s.toNat).isSome = true := by
          simp only [definedStatus, Bool.not_eq_false, Bool.or_eq_true, beq_iff_eq] at h2
          rcases h2 with h | h
          · exact absurd h h3'
          · exact h
        obtain ⟨n, hn⟩ := Option.isSome_iff_exists.mp hsome
        simp only [hn, checkData_ints]
        by_cases hall : ds.all inByteRange = true
        · simp only [hall, if_true, Except.bind, List.length_map]
          by_cases hlen : ds.length + 1 = n
          · left
            have tl := toNat_list _ hall
            obtain ⟨m, hm, hv, he⟩ := buildMsg_sound s.toNat (ds.map Int.toNat) tl.2
              (by simp [hn, hlen])
            refine ⟨by simp [hlen, hall], m, ?_, hv, ?_⟩
            · simp [hlen, hm]
            · rw [he]; simp only [List.map_cons, tl.1]; congr 1; simp; omega
          · right
            refine ⟨by simp [hlen], ?_⟩
            have : ¬ (n = ds.length + 1) := fun h => hlen h.symm
            simp [hlen]
        · right
          have hall' : ds.all inByteRange = false := by simpa using hall
          refine ⟨by simp [hall'], ?_⟩
          simp [hall', Except.bind]

/-- A returned message is valid and its bytes reproduce the input exactly. -/
theorem C02_sound (xs : List Int) (m : Msg) (h : decodeInts xs = .ok m) :
    m.Valid ∧ (encode m).map Int.ofNat = xs := by
  rcases C02_decision xs with ⟨_, m', hm, hv, he⟩ | ⟨_, hr⟩
  · rw [h] at hm; cases hm; exact ⟨hv, he⟩
  · rw [h] at hr; cases hr

/-- Every well-formed encoding is accepted. -/
theorem C02_complete (xs : List Int) (h : wellFormed xs = true) : ∃ m, decodeInts xs = .ok m := by
  rcases C02_decision xs with ⟨_, m, hm, _, _⟩ | ⟨hw, _⟩
  · exact ⟨m, hm⟩
  · rw [h] at hw; cases hw

/-- Anything else — any length, any magnitude, negative numbers included — is `ValueError`. -/
theorem C02_reject (xs : List Int) (h : wellFormed xs = false) :
    decodeInts xs = .error .ValueError := by
  rcases C02_decision xs with ⟨hw, _⟩ | ⟨_, hr⟩
  · rw [h] at hw; cases hw
  · exact hr

end Mido

namespace Mido

def Item.isInt : Item → Bool | .int _ => true | _ => false

theorem checkData_err (l : List Item) (e : Err) (h : checkData l = .error e) :
    e = .ValueError ∨ (e = .TypeError ∧ ∃ x ∈ l, x.isInt = false) := by
  induction l with
  | nil => simp [checkData] at h
  | cons x r ih =>
    cases x with
    | int n =>
      simp only [checkData] at h
      split at h
      · cases hr : checkData r with
        | ok v => rw [hr] at h; simp [Except.map] at h
        | error e' =>
          rw [hr] at h; simp only [Except.map, Except.error.injEq] at h; subst h
          rcases ih hr with h1 | ⟨h1, y, hy, hy2⟩
          · exact Or.inl h1
          · exact Or.inr ⟨h1, y, List.mem_cons_of_mem _ hy, hy2⟩
      · cases h; exact Or.inl rfl
    | flt n => simp only [checkData] at h; cases h; exact Or.inr ⟨rfl, _, List.mem_cons_self, rfl⟩
    | hobj => simp only [checkData] at h; cases h; exact Or.inr ⟨rfl, _, List.mem_cons_self, rfl⟩
    | uobj => simp only [checkData] at h; cases h; exact Or.inr ⟨rfl, _, List.mem_cons_self, rfl⟩

theorem checkData_bounds (l : List Item) (d : List Nat) (h : checkData l = .ok d) :
    d.all (· ≤ 127) = true ∧ d.length = l.length := by
  induction l generalizing d with
  | nil => simp [checkData] at h; subst h; simp
  | cons x r ih =>
    cases x with
    | int n =>
      simp only [checkData] at h
      split at h
      · rename_i hn
        cases hr : checkData r with
        | ok v =>
          rw [hr] at h; simp only [Except.map, Except.ok.injEq] at h; subst h
          have := ih v hr
          simp only [List.all_cons, this.1, Bool.and_true, decide_eq_true_eq, List.length_cons, this.2]
          exact ⟨by omega, trivial⟩
        | error e' => rw [hr] at h; simp [Except.map] at h
      · cases h
    | flt n => simp [checkData] at h
    | hobj => simp [checkData] at h
    | uobj => simp [checkData] at h

theorem buildMsg_err (s : Nat) (b : Bool) (d : List Nat) (e : Err)
    (hd : d.all (· ≤ 127) = true) (hl : specLen s = some (d.length + 1))
    (h : buildMsg s b d = .error e) : e = .TypeError ∧ b = false := by
  cases b with
  | true =>
    obtain ⟨m, hm, _⟩ := buildMsg_sound s d hd hl
    rw [hm] at h; cases h
  | false =>
    by_cases hs : s < 0xF0
    · simp [buildMsg, hs] at h; exact ⟨h.symm, rfl⟩
    · have : buildMsg s false d = buildMsg s true d := by simp [buildMsg, hs]
      rw [this] at h
      obtain ⟨m, hm, _⟩ := buildMsg_sound s d hd hl
      rw [hm] at h; cases h

/-- Whatever Python objects the sequence holds, the only failures are `ValueError` and — only
    when some item is not an integer — `TypeError`; never `IndexError`, `KeyError`, … -/
theorem C02_errors (xs : List Item) (e : Err) (h : decode xs = .error e) :
    e = .ValueError ∨ (e = .TypeError ∧ ∃ x ∈ xs, x.isInt = false) := by
  cases xs with
  | nil => simp [decode] at h; exact Or.inl h.symm
  | cons st data =>
    have key : ∀ (n : Int) (isInt : Bool), (isInt = false → st.isInt = false) →
        (if n < 0 then Except.error Err.ValueError else
          if (!definedStatus n.toNat) = true then Except.error .ValueError else
          if n.toNat = 0xF0 then
            match data.getLast? with
            | none => Except.error .ValueError
            | some e' => if e' = .int 0xF7 ∨ e' = .flt 0xF7 then
                (checkData data.dropLast).map Msg.sysex else .error .ValueError
          else do
            let d ← checkData data
            if some (d.length + 1) ≠ specLen n.toNat then .error .ValueError
            else buildMsg n.toNat isInt d) = .error e →
        e = .ValueError ∨ (e = .TypeError ∧ ∃ x ∈ st :: data, x.isInt = false) := by
      intro n isInt hst h
      split at h
      · cases h; exact Or.inl rfl
      split at h
      · cases h; exact Or.inl rfl
      split at h
      · split at h
        · cases h; exact Or.inl rfl
        · split at h
          · cases hc : checkData data.dropLast with
            | ok v => rw [hc] at h; simp [Except.map] at h
            | error e' =>
              rw [hc] at h; simp only [Except.map, Except.error.injEq] at h; subst h
              rcases checkData_err _ _ hc with h1 | ⟨h1, y, hy, hy2⟩
              · exact Or.inl h1
              · exact Or.inr ⟨h1, y, List.mem_cons_of_mem _ (List.dropLast_subset _ hy), hy2⟩
          · cases h; exact Or.inl rfl
      · cases hc : checkData data with
        | error e' =>
          rw [hc] at h; simp only [bind, Except.bind, Except.error.injEq] at h; subst h
          rcases checkData_err _ _ hc with h1 | ⟨h1, y, hy, hy2⟩
          · exact Or.inl h1
          · exact Or.inr ⟨h1, y, List.mem_cons_of_mem _ hy, hy2⟩
        | ok d =>
          rw [hc] at h; simp only [bind, Except.bind] at h
          split at h
          · cases h; exact Or.inl rfl
          · rename_i hlen
            have hlen' : specLen n.toNat = some (d.length + 1) := by
              exact (Decidable.not_not.mp hlen).symm
            have hb := checkData_bounds _ _ hc
            obtain ⟨h1, h2⟩ := buildMsg_err _ _ _ _ hb.1 hlen' h
            exact Or.inr ⟨h1, st, List.mem_cons_self, hst h2⟩
    cases st with
    | uobj => simp [decode] at h; exact Or.inr ⟨h.symm, _, List.mem_cons_self, rfl⟩
    | hobj => simp [decode] at h; exact Or.inl h.symm
    | int n => simp only [decode] at h; exact key n true (by simp) h
    | flt n => simp only [decode] at h; exact key n false (fun _ => rfl) h

/-! Non-vacuity / negative witnesses (these are tests of the model, labelled as such). -/
example : wellFormed [0x90, 60, 64] = true ∧ wellFormed [0xE0, 1] = false ∧
    wellFormed [0xF2, 1, 2, 3] = false ∧ wellFormed [0xF0, 1] = false ∧
    wellFormed [0xF4] = false ∧ wellFormed [-1] = false ∧ wellFormed [0x90, 128, 0] = false := by
  decide
example : decode [.flt 0x90, .int 1, .int 2] = .error .TypeError := by rfl
example : decode [.flt 0xF8] = .ok (.sys1 .clock) := by rfl

end Mido
