import MidoProofs.Lemmas.PortIter
/-!
  C11 — iteration over a port whose device closes itself before, between or inside receive calls.
-/
namespace Mido
open List

theorem pendingFuel_gt (p : Port) : p.pendingAll.length < p.pendingFuel := by
  have : ∀ (sc : List (List Nat × Bool)), (sc.flatMap (·.1)).length = (sc.map (·.1.length)).sum := by
    intro sc; induction sc with
    | nil => rfl
    | cons a r ih => simp [flatMap_cons, ih]
  simp only [Port.pendingAll, Port.pendingFuel, length_append, this]; omega

/-- **Close anywhere.**  `for msg in port` on a device port, for EVERY script of the device (any
    arrivals, the device closing itself at any step — before the loop, between two receive calls,
    or inside one, together with arrivals or not) and every state of the port:
    * the loop never ends with an exception;
    * what it hands out, then what the port still holds, then what the device had not delivered,
      is exactly what was there, in order — so every message the port took in is handed out
      before the loop stops, none twice, none invented;
    * if it ends (normally), the port is closed and drained;
    * it does end whenever the device closes at some step (or the port is closed already): the
      only way not to end is a device that stays open and silent for ever. -/
theorem C11_iter_close_anywhere (p : Port) (hk : p.kind = .dev) :
    (∀ e, p.iter.2.2 ≠ .raised e) ∧
    p.iter.2.1 ++ p.iter.1.pendingAll = p.pendingAll ∧
    (p.iter.2.2 = .normal → p.iter.1.closed = true ∧ p.iter.1.queue = []) ∧
    (p.willClose → p.iter.2.2 = .normal) := by
  have hiter : p.iter = Port.iterAll p.pendingFuel p [] := by simp [Port.iter, hk]
  rw [hiter]
  obtain ⟨h1, h2, h3⟩ := iterAll_spec p.pendingFuel p [] hk
  obtain ⟨h4, h5⟩ := iterAll_hang p.pendingFuel p [] hk (pendingFuel_gt p)
  refine ⟨h1, by simpa using h2, h3, ?_⟩
  intro hw
  cases he : (Port.iterAll p.pendingFuel p []).2.2 with
  | normal => rfl
  | raised e => exact absurd he (h1 e)
  | hang =>
    obtain ⟨hc, hs⟩ := h4 he
    rcases h5 hw with hcl | ⟨st, hst, _⟩
    · rw [hc] at hcl; cases hcl
    · rw [hs] at hst; cases hst

/-- the hypotheses are met by a device that closes itself in the same step in which two messages
    arrive, with one message already queued: all three are handed out, then the loop ends -/
example : (⟨.dev, false, [7], false, [([], false), ([8, 9], true), ([10], false)], [], 0, none⟩ : Port).willClose ∧
    (⟨.dev, false, [7], false, [([], false), ([8, 9], true), ([10], false)], [], 0, none⟩ : Port).iter.2 =
      ([7, 8, 9], .normal) := by
  refine ⟨Or.inr ⟨([8, 9], true), by simp, rfl⟩, by decide +kernel⟩

end Mido
