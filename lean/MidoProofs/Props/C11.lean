import MidoModel.PortsSeq
/-!
  C11 — port lifecycle: idempotent close, drain then stop, blocking calls terminate.
-/
namespace Mido
open List

def closeCount (p : Port) : Nat := p.log.count .closed

/-- how many of `n` `_send` calls succeed before the device fails -/
def sentCount (p : Port) (n : Nat) : Nat :=
  match p.budget with
  | none => n
  | some b => min b n

/-- the reset loop sends a prefix of the reset messages: all of them on a healthy device, and
    exactly as many as the device still accepts otherwise -/
theorem resetSends_spec (ids : List Nat) : ∀ (p : Port), p.kind = .dev →
    Port.resetSends ids p =
      { p with log := p.log ++ (ids.take (sentCount p ids.length)).map LogEv.sent,
               budget := p.budget.map (· - sentCount p ids.length) } := by
  induction ids with
  | nil => intro p _; cases p with | mk k c q a sc l sl b => cases b <;> simp [Port.resetSends, sentCount]
  | cons i r ih =>
    intro p hk
    cases p with
    | mk k c q a sc l sl b =>
      simp only at hk; subst hk
      cases b with
      | none =>
        have := ih (Port.rawSend ⟨.dev, c, q, a, sc, l, sl, none⟩ i) rfl
        simp only [Port.resetSends, Port.sendFails, Bool.false_eq_true, if_false, this]
        simp [Port.rawSend, sentCount]
      | some b =>
        cases b with
        | zero => simp [Port.resetSends, Port.sendFails, sentCount]
        | succ b =>
          have := ih (Port.rawSend ⟨.dev, c, q, a, sc, l, sl, some (b + 1)⟩ i) rfl
          simp only [Port.resetSends, Port.sendFails, Bool.false_eq_true, if_false, this]
          simp only [Port.rawSend, sentCount, Option.map_some, Nat.add_sub_cancel, length_cons]
          have e : min (b + 1) (r.length + 1) = min b r.length + 1 := by omega
          rw [e]
          simp only [take_succ_cons, map_cons, append_assoc, singleton_append, Option.map_some]
          congr 2
          omega

theorem close_fields (p : Port) (hk : p.kind = .dev) :
    p.close.queue = p.queue ∧ p.close.sleeps = p.sleeps ∧ p.close.script = p.script ∧ p.close.kind = p.kind := by
  unfold Port.close
  by_cases hc : p.closed = true
  · simp [hc]
  · by_cases ha : p.autoreset = true
    · simp [hc, ha, resetSends_spec resetIds p hk]
    · simp [hc, ha]

theorem close_sleeps_any (p : Port) : p.close.sleeps = p.sleeps := by
  unfold Port.close
  by_cases hc : p.closed = true
  · simp [hc]
  · by_cases ha : p.autoreset = true
    · simp only [hc, ha, Bool.false_eq_true, if_false, if_true]
      have : ∀ (ids : List Nat) (q : Port), (Port.resetSends ids q).sleeps = q.sleeps := by
        intro ids; induction ids with
        | nil => intro q; rfl
        | cons i r ih =>
          intro q; simp only [Port.resetSends]
          split
          · rfl
          · rw [ih]; cases hk : q.kind <;> simp [Port.rawSend, hk]
      exact this _ _
    · simp [hc, ha]

theorem envStep_sleeps (p : Port) : p.envStep.sleeps = p.sleeps := by
  unfold Port.envStep
  cases hk : p.kind with
  | echo => rfl
  | dev =>
    cases hs : p.script with
    | nil => rfl
    | cons st r =>
      simp only []
      by_cases hcl : st.2 = true
      · simp only [hcl, if_true]; rw [close_sleeps_any]
      · simp [hcl]

/-- `close()` is idempotent -/
theorem C11_close_idem (p : Port) : p.close.close = p.close := by
  unfold Port.close
  by_cases h : p.closed = true <;> simp [h]

/-- closing an open device port releases the device exactly once, after sending the 32 reset
    messages — once — when autoreset is set; if the device stops accepting messages part-way
    (every further `_send` raises OSError) the messages it still accepted are sent, in order, and
    the device is released all the same -/
theorem C11_close_log (p : Port) (hk : p.kind = .dev) (ho : p.closed = false) :
    p.close.closed = true ∧
    p.close.log = p.log ++ (if p.autoreset then (resetIds.take (sentCount p 32)).map LogEv.sent else []) ++ [.closed] := by
  unfold Port.close
  by_cases ha : p.autoreset = true
  · have hl : resetIds.length = 32 := by simp [resetIds]
    simp [ho, ha, resetSends_spec resetIds p hk, hl]
  · simp [ho, ha]

/-- on a healthy device all 32 reset messages are sent -/
theorem C11_close_log_healthy (p : Port) (hk : p.kind = .dev) (ho : p.closed = false) (hb : p.budget = none) :
    p.close.log = p.log ++ (if p.autoreset then resetIds.map LogEv.sent else []) ++ [.closed] := by
  have hl : resetIds.length = 32 := by simp [resetIds]
  rw [(C11_close_log p hk ho).2]
  simp only [sentCount, hb]
  rw [← hl, take_length]

/-- whatever the device does to `_send`, the release reaches it exactly once per close of an open port -/
theorem C11_release_once (p : Port) (hk : p.kind = .dev) (ho : p.closed = false) :
    closeCount p.close = closeCount p + 1 ∧ closeCount p.close.close = closeCount p + 1 := by
  rw [C11_close_idem]
  have h := (C11_close_log p hk ho).2
  simp only [closeCount, h, count_append]
  by_cases ha : p.autoreset = true
  · simp only [ha, if_true]
    have : count LogEv.closed (map LogEv.sent (take (sentCount p 32) resetIds)) = 0 := by
      apply count_eq_zero.mpr
      intro hm
      obtain ⟨x, _, hx⟩ := mem_map.mp hm
      cases hx
    rw [this]; simp
  · simp [ha]

/-- after close, `send` raises ValueError and nothing reaches the device -/
theorem C11_send_after_close (p : Port) (h : p.closed = true) (id : Nat) :
    p.send id = (p, .error .ValueError) := by simp [Port.send, h]

theorem receive_closed (p : Port) (h : p.closed = true) (block : Bool) :
    (p.receive block).1.log = p.log ∧ (p.receive block).1.closed = true ∧ (p.receive block).1.kind = p.kind := by
  unfold Port.receive
  cases hq : p.queue with
  | nil => simp [h]
  | cons m q => simp [h]

theorem iterAll_closed (fuel : Nat) : ∀ (p : Port) (acc : List Nat), p.closed = true →
    (Port.iterAll fuel p acc).1.log = p.log ∧ (Port.iterAll fuel p acc).1.closed = true := by
  induction fuel with
  | zero => intro p acc h; simp [Port.iterAll, h]
  | succ n ih =>
    intro p acc h
    unfold Port.iterAll
    unfold Port.receive
    cases hq : p.queue with
    | nil => simp [h]
    | cons m q =>
      simp only []
      have := ih { p with queue := q } (acc ++ [m]) h
      exact this

theorem iterPending_closed (fuel : Nat) : ∀ (p : Port) (acc : List Nat), p.closed = true →
    (Port.iterPending fuel p acc).1.log = p.log ∧ (Port.iterPending fuel p acc).1.closed = true := by
  induction fuel with
  | zero => intro p acc h; simp [Port.iterPending, h]
  | succ n ih =>
    intro p acc h
    unfold Port.iterPending Port.poll Port.receive
    cases hq : p.queue with
    | nil => simp [h]
    | cons m q =>
      simp only []
      exact ih { p with queue := q } (acc ++ [m]) h

/-- **Once closed, nothing reaches the device any more**, whatever is called (the device is
    released exactly once and the log is frozen) -/
theorem C11_closed_frozen (p : Port) (h : p.closed = true) (op : LOp) :
    (lstep p op).1.log = p.log ∧ (lstep p op).1.closed = true := by
  cases op with
  | send id => simp [lstep, Port.send, h]
  | receive => exact ⟨(receive_closed p h true).1, (receive_closed p h true).2.1⟩
  | poll => exact ⟨(receive_closed p h false).1, (receive_closed p h false).2.1⟩
  | iterAll =>
    simp only [lstep, Port.iter]
    cases p.kind with
    | dev => exact iterAll_closed _ p [] h
    | echo => exact iterPending_closed _ p [] h
  | iterPending => simp only [lstep]; exact iterPending_closed _ p [] h
  | close => simp [lstep, Port.close, h]
  | withExit => simp [lstep, Port.close, h]
  | reset => simp [lstep, Port.userReset, h]

theorem C11_closed_history (ops : List LOp) (p : Port) (h : p.closed = true) :
    (lrun p ops).log = p.log ∧ (lrun p ops).closed = true := by
  induction ops generalizing p with
  | nil => exact ⟨rfl, h⟩
  | cons op rest ih =>
    have := C11_closed_frozen p h op
    simp only [lrun]
    have r := ih (lstep p op).1 this.2
    exact ⟨r.1.trans this.1, r.2⟩

/-- **Drain then stop.** Iterating over a closed port hands out exactly the messages it had
    already taken in, in order, and ends without an exception; afterwards `poll()` is None. -/
theorem C11_drain (p : Port) (h : p.closed = true) : ∀ (fuel : Nat) (acc : List Nat), p.queue.length < fuel →
    ∃ p', Port.iterAll fuel p acc = (p', acc ++ p.queue, .normal) ∧ p'.queue = [] ∧ p'.closed = true ∧
      (p'.poll).2 = .none := by
  intro fuel
  induction fuel generalizing p with
  | zero => intro acc hf; omega
  | succ n ih =>
    intro acc hf
    unfold Port.iterAll Port.receive
    cases hq : p.queue with
    | nil =>
      refine ⟨p, ?_, hq, h, ?_⟩
      · simp [h]
      · simp [Port.poll, Port.receive, hq, h]
    | cons m q =>
      simp only []
      have hlen : ({ p with queue := q } : Port).queue.length < n := by simp [hq] at hf; simpa using hf
      obtain ⟨p', e1, e2, e3, e4⟩ := ih { p with queue := q } h (acc ++ [m]) hlen
      exact ⟨p', by rw [e1]; simp, e2, e3, e4⟩

/-- a non-blocking receive never waits -/
theorem C11_poll_never_sleeps (p : Port) : (p.poll).1.sleeps = p.sleeps ∧ (p.poll).2 ≠ .hang := by
  unfold Port.poll Port.receive
  cases hq : p.queue with
  | cons m q => simp
  | nil =>
    by_cases hc : p.closed = true
    · simp [hc]
    · simp only [hc, Bool.false_eq_true, if_false]
      have hf : p.fuel = (p.script.length + 1) + 1 := rfl
      rw [hf, Port.recvLoop]
      have hs : p.envStep.sleeps = p.sleeps := envStep_sleeps p
      cases hq2 : p.envStep.queue with
      | nil => simp [hs]
      | cons m q => simp [hs]

attribute [local irreducible] resetIds in
theorem recvLoop_empty_round (p : Port) (f : Nat) (S : List (List Nat × Bool)) (hk : p.kind = .dev)
    (ho : p.closed = false) (hq : p.queue = []) (hs : p.script = ([], false) :: S) :
    Port.recvLoop true (f + 1) p = Port.recvLoop true f { p with script := S, sleeps := p.sleeps + 1 } := by
  have hes : p.envStep = { p with script := S } := by
    unfold Port.envStep
    simp [hk, hs, hq]
  rw [Port.recvLoop, hes]
  simp [hq, ho]

attribute [local irreducible] resetIds in
theorem recvLoop_arrival (p : Port) (f : Nat) (m : Nat) (arr : List Nat) (c : Bool) (S : List (List Nat × Bool))
    (hk : p.kind = .dev) (ho : p.closed = false) (hq : p.queue = []) (hs : p.script = (m :: arr, c) :: S) :
    (Port.recvLoop true (f + 1) p).2 = .msg m ∧ (Port.recvLoop true (f + 1) p).1.sleeps = p.sleeps := by
  have hqs : p.envStep.queue = m :: arr := by
    unfold Port.envStep
    simp only [hk, hs, hq, nil_append]
    by_cases hc : c = true
    · subst hc
      have h1 := (close_fields (⟨.dev, p.closed, m :: arr, p.autoreset, S, p.log, p.sleeps, p.budget⟩ : Port) rfl).1
      rw [if_pos rfl]; exact h1
    · simp [hc]
  have hsl := envStep_sleeps p
  rw [Port.recvLoop]
  simp [hqs, hsl]

/-- **Prompt blocking receive.** If the first message arrives in environment round `r`, a blocking
    receive returns it after exactly `r` sleep rounds (no additional wait). -/
theorem C11_block_prompt (r : Nat) : ∀ (p : Port) (m : Nat) (arr : List Nat) (c : Bool) (rest : List (List Nat × Bool))
    (fuel : Nat), p.kind = .dev → p.closed = false → p.queue = [] →
    p.script = replicate r ([], false) ++ (m :: arr, c) :: rest → r < fuel →
    (Port.recvLoop true fuel p).2 = .msg m ∧ (Port.recvLoop true fuel p).1.sleeps = p.sleeps + r := by
  induction r with
  | zero =>
    intro p m arr c rest fuel hk ho hq hs hf
    obtain ⟨f, rfl⟩ : ∃ f, fuel = f + 1 := ⟨fuel - 1, by omega⟩
    simp only [replicate, nil_append] at hs
    exact recvLoop_arrival p f m arr c rest hk ho hq hs
  | succ r ih =>
    intro p m arr c rest fuel hk ho hq hs hf
    obtain ⟨f, rfl⟩ : ∃ f, fuel = f + 1 := ⟨fuel - 1, by omega⟩
    rw [recvLoop_empty_round p f (replicate r ([], false) ++ (m :: arr, c) :: rest) hk ho hq
      (by rw [hs, replicate_succ]; rfl)]
    have := ih { p with script := replicate r ([], false) ++ (m :: arr, c) :: rest, sleeps := p.sleeps + 1 }
      m arr c rest f hk ho hq rfl (by omega)
    exact ⟨this.1, by rw [this.2]; simp only []; omega⟩

/-- MultiPort: a non-blocking receive never waits and never hangs -/
theorem C11_multi_nonblocking (m : Multi) : (m.receive false).2 ≠ .hang ∧ (m.receive false).1.sleeps = m.sleeps := by
  unfold Multi.receive
  cases hq : m.queue with
  | cons x q => simp
  | nil =>
    by_cases hc : m.closed = true
    · simp [hc]
    · simp only [hc, Bool.false_eq_true, if_false]
      have hf : m.fuel = ((m.children.map (·.script.length)).sum + 1) + 1 := rfl
      rw [hf, Multi.recvLoop]
      cases hq2 : m.envStep.queue with
      | nil => simp [Multi.envStep]
      | cons x q => simp [Multi.envStep]

theorem iterPending_head (fuel : Nat) (c : Port) (x : Nat) (q : List Nat) (acc : List Nat) (hq : c.queue = x :: q) :
    ∃ c' more e, Port.iterPending (fuel + 1) c acc = (c', acc ++ x :: more, e) := by
  have gen : ∀ (n : Nat) (c : Port) (acc : List Nat), ∃ c' more e, Port.iterPending n c acc = (c', acc ++ more, e) := by
    intro n
    induction n with
    | zero => intro c acc; exact ⟨c, [], .hang, by simp [Port.iterPending]⟩
    | succ n ih =>
      intro c acc
      unfold Port.iterPending
      cases hp : c.poll with
      | mk c1 o =>
        cases o with
        | msg y =>
          obtain ⟨c', more, e, h⟩ := ih c1 (acc ++ [y])
          exact ⟨c', y :: more, e, by simp [h]⟩
        | none => exact ⟨c1, [], .normal, by simp⟩
        | raised er => exact ⟨c1, [], .raised er, by simp⟩
        | hang => exact ⟨c1, [], .hang, by simp⟩
  unfold Port.iterPending
  have hp : c.poll = ({ c with queue := q }, .msg x) := by simp [Port.poll, Port.receive, hq]
  rw [hp]
  obtain ⟨c', more, e, h⟩ := gen fuel { c with queue := q } (acc ++ [x])
  exact ⟨c', more, e, by simp [h]⟩

/-- **MultiPort delivers promptly.** If the first child is open and already holds a message, a
    blocking `MultiPort.receive()` on an empty MultiPort returns a message at once (no sleep
    round, never the endless wait of the pre-repair code). -/
theorem C11_multi_prompt (m : Multi) (c : Port) (cs : List Port) (x : Nat) (q : List Nat)
    (hm : m.queue = []) (ho : m.closed = false) (hc : m.children = c :: cs) (hco : c.closed = false)
    (hcq : c.queue = x :: q) :
    (m.receive true).2 = .msg x ∧ (m.receive true).1.sleeps = m.sleeps := by
  unfold Multi.receive
  simp only [hm, ho, Bool.false_eq_true, if_false]
  have hf : m.fuel = ((m.children.map (·.script.length)).sum + 1) + 1 := rfl
  rw [hf, Multi.recvLoop]
  have hfuel : c.pendingFuel = (c.queue.length + (c.script.map (·.1.length)).sum + c.script.length + 1) + 1 := rfl
  obtain ⟨c', more, e, hip⟩ := iterPending_head (c.queue.length + (c.script.map (·.1.length)).sum + c.script.length + 1) c x q [] hcq
  have : m.envStep.queue = x :: (more ++ (pollChildren cs).2) ∧ m.envStep.sleeps = m.sleeps := by
    simp only [Multi.envStep, hc, pollChildren, hco, Bool.false_eq_true, if_false, hfuel, hip, hm, nil_append]
    exact ⟨by simp, by first | rfl | trivial⟩
  simp [this.1, this.2]

end Mido
