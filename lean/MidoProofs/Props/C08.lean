import MidoModel.Smf
import MidoProofs.Lemmas.Vlq
/-!
  C08 — file bytes conform to the Standard MIDI File format in both directions.
-/
namespace Mido
open List

/-- a byte string denotes the number `n` as a variable-length quantity, with any amount of
    (legal) padding: continuation bytes ≥ 0x80, one final byte < 0x80 -/
inductive VlqDenotes : List Nat → Nat → Nat → Prop
  | last (acc b : Nat) (h : b < 128) : VlqDenotes [b] acc (acc * 128 + b)
  | cont (acc b : Nat) (rest : List Nat) (n : Nat) (h1 : 128 ≤ b) (h2 : b < 256)
      (h : VlqDenotes rest (acc * 128 + b % 128) n) : VlqDenotes (b :: rest) acc n

/-- **Padded VLQs are read.** Any standard-conformant spelling of a number, however much it is
    padded with 0x80 bytes, is read back as that number. -/
theorem C08_read_any_vlq (d : List Nat) (acc n : Nat) (h : VlqDenotes d acc n) (rest : List Nat) :
    readVlqAcc acc (d ++ rest) = .ok (n, rest) := by
  induction h with
  | last acc b hb =>
    simp only [singleton_append, readVlqAcc, hb, if_true]
    congr 2; omega
  | cont acc b r n h1 h2 _ ih =>
    simp only [cons_append, readVlqAcc]
    rw [if_neg (by omega)]
    exact ih

/-- padding with 0x80 does not change the value -/
theorem C08_padding (d : List Nat) (n : Nat) (h : VlqDenotes d 0 n) : VlqDenotes (0x80 :: d) 0 n :=
  .cont 0 0x80 d n (by decide) (by decide) (by simpa using h)

/-- what `save` writes is the minimal spelling -/
theorem C08_written_vlq_minimal (n : Nat) :
    VlqShape (encVlq n) ∧ ∃ b r, encVlq n = b :: r ∧ (r ≠ [] → b ≠ 0x80) :=
  ⟨encVlq_shape n, encVlq_minimal n⟩

/-- clipping does not touch valid data bytes -/
theorem C08_clip_valid (d : List Nat) (h : d.all (· ≤ 127) = true) : d.map clipByte = d := by
  induction d with
  | nil => rfl
  | cons x xs ih =>
    simp only [all_cons, Bool.and_eq_true, decide_eq_true_eq] at h
    simp only [map_cons, ih h.2, clipByte]
    by_cases hx : x < 127
    · simp [hx]
    · have : x = 127 := by omega
      simp [this]

/-- clipping produces valid data bytes, and only changes bytes above 127 (to 127) -/
theorem C08_clip_range (b : Nat) : clipByte b ≤ 127 ∧ (b ≤ 127 → clipByte b = b) ∧ (127 < b → clipByte b = 127) := by
  unfold clipByte
  by_cases h : b < 127
  · simp [h]; omega
  · simp [h]; omega

/-- every track chunk written ends with FF 2F 00 preceded by a delta time -/
theorem fixEot_last (tr : List TEvent) : ∀ (acc : PyVal) (fixed : List TEvent),
    fixEotEvents acc tr = .ok fixed → ∃ init t, fixed = init ++ [eotEvent t] := by
  induction tr with
  | nil => intro acc fixed h; simp [fixEotEvents] at h; exact ⟨[], acc, by simp [← h]⟩
  | cons x xs ih =>
    intro acc fixed h
    simp only [fixEotEvents] at h
    split at h
    · cases ha : pyAdd acc x.time with
      | error e => rw [ha] at h; simp [bind, Except.bind] at h
      | ok a => rw [ha] at h; exact ih a fixed h
    · split at h
      · cases ha : pyAdd acc x.time with
        | error e => rw [ha] at h; simp [bind, Except.bind] at h
        | ok a =>
          rw [ha] at h; simp only [bind, Except.bind] at h
          cases hr : fixEotEvents (.int 0) xs with
          | error e => rw [hr] at h; cases h
          | ok r =>
            rw [hr] at h; simp only [pure, Except.pure, Except.ok.injEq] at h; subst h
            obtain ⟨init, t, rfl⟩ := ih _ r hr
            exact ⟨_ :: init, t, rfl⟩
      · cases hr : fixEotEvents (.int 0) xs with
        | error e => rw [hr] at h; simp [bind, Except.bind] at h
        | ok r =>
          rw [hr] at h; simp only [bind, Except.bind, pure, Except.pure, Except.ok.injEq] at h; subst h
          obtain ⟨init, t, rfl⟩ := ih _ r hr
          exact ⟨_ :: init, t, rfl⟩

end Mido
